"""C12 growth round 6 — FIXED blocks (independent of VERIF_SEED) along the round-6 themes, plus three new streams.

* `order`    : `polar_to_cartesian_aberrations(polar, max_order=k)` / `cartesian_to_polar_aberrations(cart, max_order=k)`
               for every explicit k = 0..5 (keyword and positional) against the LOOP model of Model/AberrationOrder.lean
               (`p2c_k` / `c2p_k` of the driver); predicates: a coefficient set of orders <= k keeps its surface through the
               round trip at that k and equals its Cartesian expansion — the top harmonic m = n + 1 of order n = k included.
* fixed `formula` cases: only the top harmonics C12/C23/C34/C45/C56 (+ angles), deltas on the top labels only, Cartesian
               pairs in every quadrant, on both axes and ON the atan2 branch cut (Ca < 0, Cb = +0.0 / -0.0), azimuths of the
               evaluation points in every quadrant, on the axes, at +-pi and beyond; run through the round-1 formula stream.
* fixed `fit` cases: both signs of C10 x astigmatism angle in each quadrant x rotation in each quadrant x H < W, H > W, H = W.
* `gradgrid` : `aberration_surface_grad(gpts, sampling, energy, rotation_angle, coefs)` (never executed before) on H != W grids
               against the pixel model `surfaceGradAt` (Model/AberrationGrid.lean); predicates: it is wavelength x the true gradient (float64 autograd of
               the real `aberration_surface` in scattering-angle coordinates) and agrees with `_return_lateral_shifts`.
* `twin`     : the same coefficient dict handed to the same routine TWICE with the first result mutated / cleared in between
               (validators, standardize, two HyperparameterState, `copy()`, two ProbePixelated, two DirectPtychography built
               from one dict): every object / result is the one its own inputs denote (the model is a pure function of the
               inputs of that object, so any sharing between the two shows as a disagreement + predicate failure).
"""
import math
import types
import warnings

from . import c12 as base
from . import c12_ext as cx

SYMS, ALIASES, LABELS, TABLE = base.SYMS, base.ALIASES, base.LABELS, base.TABLE
f2b, b2f = base.f2b, base.b2f
TOP = [(n, m) for n, m in TABLE if m == n + 1]
PI = math.pi


def order_of(key):
    return int(key[-2]) if not key.endswith(("_a", "_b")) else int(key[1])


# ----------------------------------------------------------------------------------------
# stream order

# azimuths: every quadrant, the axes, +-pi, beyond pi
PHIS = [0.0, 0.4, PI / 2, 2.0, PI, -PI, -2.6, -PI / 2, -0.7, 3.9, 2 * PI + 0.3, -4.0]


def fixed_polar(variant):
    if variant == "all":
        vals = {}
        for i, s in enumerate(SYMS):
            vals[s] = (PHIS[i % len(PHIS)] * 0.9 + 0.05) if s.startswith("phi") else (0.5 + 0.125 * (i % 7)) * (-1 if i % 3 == 0 else 1)
        return vals
    if variant == "top":
        vals = {}
        for i, (n, m) in enumerate(TOP):
            vals[f"C{n}{m}"] = 1.0 + 0.25 * i
            vals[f"phi{n}{m}"] = [2.0, -2.6, PI, -0.7, 3.9][i]
        return vals
    if variant == "top_on_cut":       # m*phi = pi exactly up to rounding: Ca < 0, Cb = +-tiny
        vals = {}
        for i, (n, m) in enumerate(TOP):
            vals[f"C{n}{m}"] = 1.5 - 0.125 * i
            vals[f"phi{n}{m}"] = (PI if i % 2 == 0 else -PI) / m
        return vals
    raise KeyError(variant)


def gen_order_cases(rng, n_random):
    cases = []
    for k in range(0, 6):
        for variant in ("all", "top", "top_on_cut"):
            cases.append({"stream": "order", "k": k, "polar": fixed_polar(variant), "positional": (k % 2 == 1), "variant": variant})
    for i in range(n_random):
        r = rng.fork(i)
        k = r.randint(1, 5)
        keys = [s for s in SYMS if r.chance(0.6)] or ["C56", "phi56"]
        polar = {s: (r.uniform(-7.0, 7.0) if s.startswith("phi") else r.uniform(-3.0, 3.0)) for s in r.shuffle(keys)}
        cases.append({"stream": "order", "k": k, "polar": polar, "positional": r.chance(0.5), "variant": "random"})
    return cases


def eval_order_case(ctx, drv, case):
    torch, cp = base._mods()
    dt = torch.float64
    k = case["k"]
    T = lambda v: torch.tensor(v, dtype=dt)  # noqa
    polar = dict(case["polar"])
    pol_t = {s: T(v) for s, v in polar.items()}
    if case["positional"]:
        cart = cp.polar_to_cartesian_aberrations(pol_t, k, None, dt)
    else:
        cart = cp.polar_to_cartesian_aberrations(pol_t, max_order=k, dtype=dt)
    back = cp.cartesian_to_polar_aberrations(dict(cart), k) if case["positional"] else cp.cartesian_to_polar_aberrations(dict(cart), max_order=k)
    ms = drv.ask_many([{"op": "p2c_k", "coefs": base.enc_dict(polar), "k": k},
                       {"op": "c2p_k", "coefs": base.enc_dict({a: float(v) for a, v in cart.items()}), "k": k}])
    for r in ms:
        if "ok" not in r:
            raise RuntimeError(f"driver error {r}")
    ctx.count()
    ctx.dist[f"order:k={k}:{case['variant']}"] += 1
    ctx.mark(("order", k, case["variant"], case["positional"], tuple(sorted({order_of(s) for s in polar}))))
    for name, impl, mod in (("polar_to_cartesian(max_order)", cart, ms[0]["ok"]), ("cartesian_to_polar(max_order)", back, ms[1]["ok"])):
        if list(impl.keys()) != [a for a, _ in mod]:
            ctx.disagree("order", case, [a for a, _ in mod], list(impl.keys()), note=f"{name}: keys / order at max_order={k}")
            break
        if name.startswith("polar"):
            base.check_vec(ctx, "order", name, case, [float(v) for v in impl.values()], [b2f(v) for _, v in mod], base.TOL64)
        elif mod:
            base.check_polar(ctx, "order", name, case, {a: float(v) for a, v in impl.items()}, {a: b2f(v) for a, v in mod}, base.TOL64)
    # ---- property: a coefficient set up to order k is the same function in all forms at max_order = k
    if k == 0:
        return
    sub = {s: v for s, v in polar.items() if order_of(s) <= k}
    sub_t = {s: T(v) for s, v in sub.items()}
    lam = 1.25
    alpha = T([0.3 + 0.1 * i for i in range(len(PHIS))])
    phi = T(PHIS)
    chi = cp.aberration_surface(alpha, phi, lam, sub_t)
    cart_k = cp.polar_to_cartesian_aberrations(sub_t, max_order=k, dtype=dt)
    back_k = cp.cartesian_to_polar_aberrations(dict(cart_k), max_order=k)
    chi2 = cp.aberration_surface(alpha, phi, lam, back_k)
    small = {**case, "polar": sub}
    scale = max(1.0, float(chi.abs().max()))
    d = float((chi2 - chi).abs().max())
    if not d <= 2e-9 * scale * 10:
        ctx.pred_fail("order-roundtrip-surface", f"coefficients of orders <= {k}: the surface of cartesian_to_polar(polar_to_cartesian(p, "
                      f"max_order={k}), max_order={k}) differs from the surface of p", small,
                      observed={"roundtrip": chi2.tolist(), "max_diff": d, "keys_returned": list(back_k.keys())}, required={"surface": chi.tolist()})
    if len(cart_k):
        B = cp.aberration_surface_cartesian_basis(alpha, phi, lam, list(cart_k.keys()))
        expn = (B * torch.stack([cart_k[a] for a in cart_k])).sum(-1)
    else:
        expn = torch.zeros_like(chi)
    d = float((expn - chi).abs().max())
    if not d <= 2e-9 * scale * 10:
        ctx.pred_fail("order-basis-expansion", f"coefficients of orders <= {k}: Σ cart_l·basis_l over polar_to_cartesian(p, max_order={k}) "
                      "differs from the polar surface", small,
                      observed={"expansion": expn.tolist(), "max_diff": d, "labels": list(cart_k.keys())}, required={"surface": chi.tolist()})


# ----------------------------------------------------------------------------------------
# fixed formula cases (run through base.eval_formula_case)

QUADS = [(1.0, 0.0), (0.0, 1.0), (-1.0, 0.0), (0.0, -1.0), (-1.0, -0.0), (1.0, 1.0), (-1.0, 1.0), (-1.0, -1.0), (1.0, -1.0),
         (-2.0, 1e-12), (-2.0, -1e-12), (0.5, -0.0)]


def fixed_formula_cases():
    pts = [[0.3 + 0.1 * i, p] for i, p in enumerate(PHIS)]
    top_labels = [f"C{n}{m}_{x}" for n, m in TOP for x in "ab"]
    pair_labels = [(f"C{n}{m}_a", f"C{n}{m}_b") for n, m in TABLE if m]
    out = []
    for j in range(4):
        cart = {}
        for i, (a, b) in enumerate(pair_labels):
            ca, cb = QUADS[(i + 3 * j) % len(QUADS)]
            cart[a], cart[b] = ca, cb
        cart["C10"], cart["C30"], cart["C50"] = -1.5, 0.75, -0.25
        polar = fixed_polar(["top", "top_on_cut", "all", "top"][j])
        delta = {l: (0.75 if (i + j) % 2 else -1.25) for i, l in enumerate(top_labels)} if j != 2 else {"C56_b": 2.0, "C12_a": -3.0}
        out.append({"stream": "formula", "regime": "unit", "dtype": "float64" if j != 3 else "float32", "lam": 1.25, "coefs": polar,
                    "alias_items": None, "pts": pts[6 * (j % 2):6 * (j % 2) + 6], "labels": list(LABELS) if j % 2 == 0 else top_labels[::-1],
                    "delta": delta, "cart": cart, "tensor_coefs": j == 1})
    return out


# ----------------------------------------------------------------------------------------
# fixed fit cases (run through base.eval_fit_case)

def fixed_fit_cases():
    grids = [([12, 18], [0.30, 0.45]), ([18, 12], [0.45, 0.30]), ([9, 16], [0.35, 0.35]), ([16, 16], [0.4, 0.4]), ([21, 10], [0.5, 0.25])]
    phis = [-1.3, -0.6, 0.4, 1.2, -PI / 4, PI / 4, 0.0, PI / 2]
    thetas = [None, -1.2, -0.5, 0.6, 1.3, 0.0]
    out = []
    i = 0
    for sign in (1, -1):
        for p in phis:
            gp, sm = grids[i % len(grids)]
            th = thetas[i % len(thetas)]
            ratio = [0.1, 0.4, 0.6][i % 3]
            c10 = sign * (400.0 + 150.0 * (i % 5))
            lam = 0.0251
            kmax = min(0.5 / sm[0], 0.5 / sm[1])
            out.append({"stream": "fit", "gpts": gp, "sampling": sm, "lam": lam, "semiangle": 0.8 * kmax * lam, "theta": th,
                        "C10": c10, "C12": abs(c10) * ratio, "phi12": p, "offcenter": i % 4 == 3})
            i += 1
    return out


# ----------------------------------------------------------------------------------------
# stream gradgrid: aberration_surface_grad on a grid

def gradgrid_cases(rng, n_random):
    quad = {"C10": -800.0, "C12": 120.0, "phi12": 0.9}
    high = {"C10": 300.0, "C12": 40.0, "phi12": -1.1, "C21": 2.0e3, "phi21": 2.5, "C23": 1.5e3, "phi23": -2.0, "C30": 4.0e5,
            "C34": 2.0e5, "phi34": 1.0, "C45": 3.0e6, "phi45": -0.4, "C56": 5.0e7, "phi56": 0.2}
    out = [{"stream": "gradgrid", "gpts": [6, 11], "sampling": [0.5, 0.3], "energy": 300e3, "theta": None, "coefs": quad},
           {"stream": "gradgrid", "gpts": [11, 6], "sampling": [0.3, 0.5], "energy": 80e3, "theta": 2.2, "coefs": quad},
           {"stream": "gradgrid", "gpts": [7, 10], "sampling": [0.4, 0.4], "energy": 200e3, "theta": -1.9, "coefs": high},
           {"stream": "gradgrid", "gpts": [10, 7], "sampling": [0.45, 0.35], "energy": 60e3, "theta": 0.7, "coefs": high},
           {"stream": "gradgrid", "gpts": [8, 8], "sampling": [0.4, 0.4], "energy": 300e3, "theta": None, "coefs": {}}]
    for i in range(n_random):
        r = rng.fork(i)
        keys = [s for s in SYMS if r.chance(0.4)] or ["C10"]
        lam = 0.02
        coefs = {s: (r.uniform(-3.4, 3.4) if s.startswith("phi") else r.uniform(-1, 1) * 2.0 * lam / (0.03 ** (int(s[1]) + 1))) for s in keys}
        out.append({"stream": "gradgrid", "gpts": [r.randint(4, 12), r.randint(4, 12)], "sampling": [r.uniform(0.25, 0.6), r.uniform(0.25, 0.6)],
                    "energy": r.choice([60e3, 80e3, 200e3, 300e3]), "theta": None if r.chance(0.2) else r.uniform(-3.1, 3.1), "coefs": coefs})
    return out


def eval_gradgrid_case(ctx, drv, case):
    torch, cp = base._mods()
    from quantem.diffractive_imaging.direct_ptychography import DirectPtychography
    fn = getattr(cp, "aberration_surface_grad", None)
    if fn is None:
        ctx.dist["gradgrid:function_absent_skipped"] += 1
        return
    gpts, sampling, th, coefs = tuple(case["gpts"]), tuple(case["sampling"]), case["theta"], dict(case["coefs"])
    lam = float(cp.electron_wavelength_angstrom(case["energy"])) if hasattr(cp, "electron_wavelength_angstrom") else None
    if lam is None:
        from quantem.core.utils.utils import electron_wavelength_angstrom
        lam = float(electron_wavelength_angstrom(case["energy"]))
    dx, dy = fn(gpts, sampling, case["energy"], rotation_angle=th, aberration_coefs=coefs)
    kx, ky = cp.spatial_frequencies(gpts, sampling)
    pts = [[f2b(float(a)), f2b(float(b))] for a, b in zip(kx.reshape(-1), ky.reshape(-1))]
    m = drv.ask({"op": "surface_grad", "coefs": base.enc_dict(coefs), "lam": f2b(lam), "pts": pts, "theta": None if th is None else f2b(th)})
    if "ok" not in m:
        raise RuntimeError(f"driver error {m}")
    two_pi = 2 * PI
    mdx = [b2f(row[0]) for row in m["ok"]]
    mdy = [b2f(row[1]) for row in m["ok"]]
    ctx.count()
    ctx.dist[f"gradgrid:{'H<W' if gpts[0] < gpts[1] else ('H>W' if gpts[0] > gpts[1] else 'H=W')}:theta={'None' if th is None else ('neg' if th < 0 else 'pos')}"] += 1
    ctx.mark(("gradgrid", gpts[0] < gpts[1], gpts[0] > gpts[1], None if th is None else round(th), tuple(sorted({order_of(s) for s in coefs}))))
    if tuple(dx.shape) != gpts or tuple(dy.shape) != gpts:
        ctx.disagree("gradgrid", case, list(gpts), [list(dx.shape), list(dy.shape)], note="shape of aberration_surface_grad")
        return
    base.check_vec(ctx, "gradgrid", "dchi_dx", case, [float(v) for v in dx.reshape(-1)], mdx, base.TOL32)
    base.check_vec(ctx, "gradgrid", "dchi_dy", case, [float(v) for v in dy.reshape(-1)], mdy, base.TOL32)
    # ---- property: wavelength x true gradient of the surface (float64 autograd of the real aberration_surface, in the
    # scattering-angle coordinates of the rotated grid), and the same numbers as the parallax shifts
    kx64, ky64 = kx.double(), ky.double()
    if th is not None:
        c, s = math.cos(-th), math.sin(-th)
        kx64, ky64 = kx64 * c + ky64 * s, -kx64 * s + ky64 * c
    nz = (kx64.square() + ky64.square()) > 0
    x = (kx64[nz] * lam).clone().requires_grad_(True)
    y = (ky64[nz] * lam).clone().requires_grad_(True)
    pol = {k: torch.tensor(v, dtype=torch.float64) for k, v in coefs.items()}
    chi = cp.aberration_surface(torch.sqrt(x * x + y * y), torch.atan2(y, x), lam, pol)
    if chi.requires_grad:
        gx, gy = torch.autograd.grad(chi.sum(), (x, y), allow_unused=True)
        gx = torch.zeros_like(x) if gx is None else gx
        gy = torch.zeros_like(x) if gy is None else gy
    else:
        gx, gy = torch.zeros_like(x), torch.zeros_like(x)
    want = torch.stack((lam * gx, lam * gy), -1)
    got = torch.stack((dx[nz].double(), dy[nz].double()), -1)
    sc = max(1.0, float(want.abs().max()))
    d = float((got - want).abs().max())
    ctx.stat_max("gradgrid.true_gradient.rel_dist_f32", d / sc)
    if not d <= base.TOL32 * sc:
        ctx.pred_fail("grad-grid-true-gradient", "aberration_surface_grad differs from wavelength·∇χ (float64 autograd of aberration_surface "
                      "on the rotated grid)", case, observed={"max_diff": d, "dx,dy": got.tolist()[:6]}, required={"lam*grad": want.tolist()[:6]})
    mask = torch.ones(gpts, dtype=torch.bool)
    stub = types.SimpleNamespace(gpts=gpts, sampling=sampling, wavelength=lam, device="cpu")
    sh = DirectPtychography._return_lateral_shifts(stub, th, coefs, mask)
    both = torch.stack((dx.reshape(-1), dy.reshape(-1)), -1) / two_pi
    sc = max(1.0, float(both.abs().max()))
    d = float((sh - both).abs().max())
    if not d <= base.TOL32 * sc:
        ctx.pred_fail("grad-grid-vs-lateral-shifts", "aberration_surface_grad / 2π differs from _return_lateral_shifts on the same grid, "
                      "rotation and coefficients", case, observed={"max_diff": d, "shifts": sh.tolist()[:6]}, required={"grad/2pi": both.tolist()[:6]})


# ----------------------------------------------------------------------------------------
# stream twin: the same coefficients twice, the first result / object mutated or cleared in between

F = cx.F
TWIN_ITEMS = [
    [["defocus", F(100)], ["astigmatism", F(5)], ["phi12", F(0.25)]],
    [["C10", F(-40)], ["Cs", F(1000)], ["coma", F(30)], ["coma_angle", F(-1.5)]],
    [["defocus", F(-64.5)], ["C56", F(2.0)], ["phi56", F(3.0)]],
    [["C12", F(8)], ["defocus", ["num", "int", 7]], ["C5", ["num", "np.float32", 0.5]]],
]
MUTS = ["clear", "set", "del", "scale"]


def twin_cases(rng, n_random):
    out = []
    i = 0
    for kind in ("validate", "standardize", "hstate", "probe"):
        for items in TWIN_ITEMS:
            out.append({"stream": "twin", "kind": kind, "items": items, "mut": MUTS[i % len(MUTS)],
                        "override": [["defocus", F(12.5)]] if i % 2 else [["astigmatism", F(3)], ["C30", F(0.0)]]})
            i += 1
    out.append({"stream": "twin", "kind": "dp", "items": [["defocus", F(300)], ["astigmatism", F(20)], ["astigmatism_angle", F(0.5)]], "mut": "clear",
                "override": [["defocus", F(50)]]})
    out.append({"stream": "twin", "kind": "dp", "items": [["C10", F(-150)], ["Cs", F(2000)]], "mut": "set", "override": [["C12", F(4)]]})
    for j in range(n_random):
        r = rng.fork(j)
        items = [[k, v] for k, v in cx.gen_items(r, p_bad=0.0) if v[0] == "num"] or [["defocus", F(5)]]
        out.append({"stream": "twin", "kind": r.choice(["validate", "standardize", "hstate", "probe"]), "items": items, "mut": r.choice(MUTS),
                    "override": [[k, v] for k, v in cx.gen_items(r, p_bad=0.0, nmax=2) if v[0] == "num"]})
    return out


def _mutate(d, mut):
    """spoil a result dict in place"""
    import torch
    ks = list(d.keys())
    if mut == "clear" or not ks:
        d.clear()
    elif mut == "set":
        d[ks[0]] = 999.0 if not isinstance(d[ks[0]], torch.Tensor) else torch.tensor(999.0)
        d["C21"] = 123.0
    elif mut == "del":
        del d[ks[-1]]
    else:
        v = d[ks[0]]
        if isinstance(v, torch.Tensor):
            v.mul_(3.0).add_(1.0)          # in place on a shared tensor
        else:
            d[ks[0]] = v * 3.0 + 1.0


def _model_dict(drv, op, items):
    m = drv.ask({"op": op, "items": [[k, f2b(cx.vreal(v))] for k, v in items]})
    if "ok" not in m:
        raise RuntimeError(f"driver error {m}")
    return [[k, b2f(v)] for k, v in m["ok"]]


def eval_twin_case(ctx, drv, case):
    import torch
    _, cp = base._mods()
    warnings.simplefilter("ignore")
    kind, items, mut = case["kind"], case["items"], case["mut"]
    ctx.count()
    ctx.dist[f"twin:{kind}:{mut}"] += 1
    ctx.mark(("twin", kind, mut, "defocus" in [k for k, _ in items], len(items) > 3))
    expected = cx.layer({}, items)
    what = ("the same coefficients were accepted a second time after the first result / object had been changed: what the second "
            "one holds is not what its own input denotes (defocus = d as C10 = -d, every alias under its symbol)")
    if kind in ("validate", "standardize"):
        from quantem.core.utils.validators import validate_aberration_coefficients
        fn = validate_aberration_coefficients if kind == "validate" else cp.standardize_aberration_coefs
        d = cx.obj_items(items)
        keep = dict(d)
        r1 = fn(d)
        first = [[k, float(v)] for k, v in r1.items()]
        _mutate(r1, mut)
        r2 = fn(d)                       # the very same input object
        r3 = fn(cx.obj_items(items))     # an equal dict
        model = _model_dict(drv, kind, items)
        if kind == "standardize":
            import struct
            model = [[k, struct.unpack("<f", struct.pack("<f", v))[0]] for k, v in model]
        for name, r in (("first", first), ("second (same dict object)", [[k, float(v)] for k, v in r2.items()]),
                        ("third (equal dict)", [[k, float(v)] for k, v in r3.items()])):
            if r != model:
                ctx.disagree("twin", case, model, r, note=f"{kind}: {name} result")
        if kind == "validate":           # float32 rounding of standardize is not a question of the alias clause; compare exact route only
            cx.check_reads(ctx, "twin-validate-repeat", what, case, r2, expected)
            cx.check_reads(ctx, "twin-validate-repeat", what, case, r3, expected)
        else:
            exp32 = {s: {float(torch.tensor(x, dtype=torch.float32)) for x in xs} for s, xs in expected.items()}
            cx.check_reads(ctx, "twin-standardize-repeat", what, case, {k: float(v) for k, v in r2.items()}, exp32)
            cx.check_reads(ctx, "twin-standardize-repeat", what, case, {k: float(v) for k, v in r3.items()}, exp32)
        if list(d.keys()) != list(keep.keys()) or any(d[k] is not keep[k] for k in keep):
            ctx.pred_fail("twin-caller-dict-changed", f"{kind}: the caller's coefficient dict was modified by the call", case,
                          observed={k: str(v) for k, v in d.items()}, required={k: str(v) for k, v in keep.items()})
        return
    if kind == "hstate":
        from quantem.diffractive_imaging import direct_ptychography as dpm
        d = cx.obj_items(items)
        s1 = dpm.HyperparameterState(initial_aberrations=d)
        s2 = dpm.HyperparameterState(initial_aberrations=d)
        s3 = dpm.HyperparameterState(initial_aberrations=cx.obj_items(items))
        # spoil the first: through its public surface
        if mut == "clear":
            s1.clear_all()
        elif mut == "set":
            s1.initial_aberrations["C10"] = 999.0
            s1.optimized_aberrations["C12"] = 77.0
        elif mut == "del":
            s1.clear_optimized()
            s1.initial_aberrations.pop(next(iter(s1.initial_aberrations)), None)
        else:
            _mutate(s1.current_aberrations(), "scale")
            s1.clear_all()
        ov = case["override"]
        outs = []
        r = s2.current_aberrations()
        outs.append(dict(r))
        _mutate(r, "clear")                                    # the returned dict belongs to the caller
        outs.append(dict(s2.current_aberrations(cx.obj_items(ov))))
        s4 = s2.copy() if hasattr(s2, "copy") else None
        if s4 is not None:
            s4.clear_all()
        outs.append(dict(s2.current_aberrations()))
        outs.append(dict(s3.current_aberrations()))
        exps = [expected, cx.layer(dict(expected), ov), expected, expected]
        names = ["second state, read", "second state, read with override", "second state after its copy() was cleared", "third state (equal dict)"]
        m = drv.ask({"op": "h_history", "initial": cx.enc_items(items), "ops": [{"t": "current", "o": None}, {"t": "current", "o": cx.enc_items(ov)},
                                                                                {"t": "current", "o": None}, {"t": "current", "o": None}]})
        if "ok" not in m:
            raise RuntimeError(f"driver error {m}")
        for i, (o, e) in enumerate(zip(outs, exps)):
            ms = m["ok"]["steps"][i]["out"]
            mm = [[k, b2f(v)] for k, v in ms.get("ok", [])]
            if mm != [[k, float(v)] for k, v in o.items()]:
                ctx.disagree("twin", case, mm, [[k, float(v)] for k, v in o.items()], note=f"HyperparameterState twins: {names[i]}")
            cx.check_reads(ctx, "twin-hstate", what + f" [{names[i]}]", case, o, e)
        return
    if kind == "probe":
        from quantem.diffractive_imaging.probe_models import ProbeBase, ProbePixelated
        base_items = [["energy", F(300e3)], ["semiangle_cutoff", F(20)]]
        default_before = cx.snapshot(dict(ProbeBase.DEFAULT_PROBE_PARAMS))
        a1 = base_items + items
        a2 = base_items + case["override"]
        p1 = ProbePixelated.from_params(cx.obj_assignment(a1), rng=0)
        p2 = ProbePixelated.from_params(cx.obj_assignment(a1), rng=0)
        snap2_before = cx.snapshot(p2._probe_params) if hasattr(p2, "_probe_params") else None
        p1.probe_params = cx.obj_assignment(a2)                # only the first object is re-assigned
        p3 = ProbePixelated.from_params(cx.obj_assignment(a1), rng=0)     # built after the first one changed
        init_top = [[k, cx.enc_stored(v)] for k, v in ProbeBase.DEFAULT_PROBE_PARAMS.items() if k != "aberration_coefs"]
        mo = getattr(p2, "_max_aberrations_order", 5)
        m = drv.ask({"op": "pp_history", "init_top": init_top, "init_aber": [], "history": [cx.enc_assignment(a1)], "max_order": mo})
        if "ok" not in m:
            raise RuntimeError(f"driver error {m}")
        ms = m["ok"][0]
        mstate = {"top": sorted(ms["top"], key=lambda kv: kv[0]), "aber": [[k, b2f(v)] for k, v in ms["aber"]]}
        for name, p in (("second object (first one re-assigned)", p2), ("third object (built afterwards)", p3)):
            pp = getattr(p, "_probe_params", None)
            if pp is None:
                ctx.dist["twin:probe:_probe_params_absent_skipped"] += 1
                pp = dict(p.probe_params)
            snap = cx.snapshot(pp)
            if snap != mstate:
                ctx.disagree("twin", case, mstate, snap, note=f"ProbePixelated twins: {name}")
            got = dict(snap["aber"]) if not isinstance(snap["aber"], str) else {}
            cx.check_reads(ctx, "twin-probe", what + f" [{name}]", case, got, expected)
        if cx.snapshot(dict(ProbeBase.DEFAULT_PROBE_PARAMS)) != default_before:
            ctx.pred_fail("twin-probe-defaults-changed", "assignments to one probe object changed ProbeBase.DEFAULT_PROBE_PARAMS (the next "
                          "object starts from other coefficients)", case, observed=cx.pretty(cx.snapshot(dict(ProbeBase.DEFAULT_PROBE_PARAMS))),
                          required=cx.pretty(default_before))
        return
    if kind == "dp":
        ab = cx.obj_items(items)
        dcase = {"g": 8, "rs": 0.05, "scan": 10, "seed": 7, "rot": 0.0}
        dp1 = cx.make_dp(dcase, ab)
        dp2 = cx.make_dp(dcase, ab)                            # the same dict object
        st1, st2 = dp1.hyperparameter_state, dp2.hyperparameter_state
        if mut == "clear":
            st1.clear_all()
        else:
            st1.initial_aberrations["C10"] = 999.0
            st1.optimized_aberrations["C12"] = 77.0
        for name, got in (("second object", st2.current_aberrations()), ("second object, .aberration_coefs", dict(dp2.aberration_coefs)),
                          ("second object, override", st2.current_aberrations(cx.obj_items(case["override"])))):
            e = expected if "override" not in name else cx.layer(dict(expected), case["override"])
            cx.check_reads(ctx, "twin-dp", what + f" [DirectPtychography, {name}]", case, got, e)
        if list(ab.keys()) != [k for k, _ in items]:
            ctx.pred_fail("twin-caller-dict-changed", "DirectPtychography: the caller's coefficient dict was modified", case,
                          observed=list(ab.keys()), required=[k for k, _ in items])
        return
    raise KeyError(kind)


EVAL = {"order": eval_order_case, "gradgrid": eval_gradgrid_case, "twin": eval_twin_case}


def run(ctx, drv):
    import time
    t0 = time.time()
    order = gen_order_cases(ctx.rng.fork(700000), ctx.n(40, 1500))
    for c in order:
        eval_order_case(ctx, drv, c)
    ff = fixed_formula_cases()
    for c in ff:
        base.eval_formula_case(ctx, drv, c)
    fits = fixed_fit_cases()
    for c in fits:
        base.eval_fit_case(ctx, drv, c)
    gg = gradgrid_cases(ctx.rng.fork(710000), ctx.n(20, 400))
    for c in gg:
        eval_gradgrid_case(ctx, drv, c)
    tw = twin_cases(ctx.rng.fork(720000), ctx.n(40, 600))
    for c in tw:
        eval_twin_case(ctx, drv, c)
    ctx.extra.setdefault("case_counts", {}).update({"order": len(order), "formula_fixed_g6": len(ff), "fit_fixed_g6": len(fits),
                                                    "gradgrid": len(gg), "twin": len(tw)})
    ctx.extra["g6_seconds"] = round(time.time() - t0, 1)
