"""C13 — image registration (cross_correlation_shift, dft_upsample, cross_correlation_shift_torch,
align_images_fourier_torch, upsampled_correlation_torch, dftUpsample_torch and their users):
correspondence with Model/Registration.lean + the property predicate evaluated on the real code
with independent oracles (exact integer cross-correlation, explicit Fourier synthesis)."""
import json
import math

import numpy as np

from props import c13_ext as X
from props import c13_g6 as G

LEVEL = "proof"
EXTRA_PROPS = ["QuantemModel.Props.C13Ext"]   # growth round 6 theorems, audited on their own
MANIFEST_ENTRY = {
    "category": "proof",
    "text": "Lean 4 theorems over an executable model of imaging_utils' registration code (the FFT formula "
            "real(ifft2(fft2(ref)*conj(fft2(im)))) as defining DFT sums, first-maximum argmax, parabolic refinement with the zero-denominator "
            "guard, Python float modulo centring, torch half-pixel rounding, the upsampling-grid index arithmetic + matrix-multiply DFT patch "
            "of both the NumPy and the torch variant, the phase-ramp aligned image, and the ENTRY POINTS with their dispatch on "
            "upsample_factor: cross_correlation_shift, cross_correlation_shift_torch, align_images_fourier_torch): the correlation theorem "
            "(FFT formula = spatial circular cross-correlation), the autocorrelation peaks at zero lag (strictly unless the image is "
            "periodic), an integer-shifted copy is located exactly anywhere in the periodic cell by both entry points FOR EVERY UPSAMPLING "
            "FACTOR (0, 1, 2, ...) and every max_shift that leaves the true lag inside the search disc (the upsampled patch of a shifted "
            "copy around the coarse peak is, entry by entry, the patch of identical images around zero: DFT shift theorem + periodicity of "
            "the kernels), the returned aligned image reproduces the reference, swapping the images negates the result on the "
            "non-upsampling branches, both estimators are invariant under a common intensity scale, and identical images give zero shift "
            "at every factor through both entry points; the strict patch maximum these need is characterised exactly (iff) and holds for "
            "every image of at least 3x3 pixels with non-zero lowest Fourier coefficients (hypothesis-free corollaries + a 3x3 witness "
            "for all factors); ties do occur for single-column and constant images (counterexample theorems; the single-row/column case "
            "is a recorded finding on the real code). Sub-pixel accuracy is measured only. The model is tied to the code on every run "
            "by exact (integer image) and float64 differential runs of the public functions (keyword and positional call forms, parameter "
            "order pinned), their kernels, their internal stages (coarse position and centre handed to the kernels, patch argmax), "
            "max_shift x upsampling incl. a shift exactly on the threshold, their users (tomography, direct ptychography, drift "
            "align_translation), intensity scales 1e-12..1e6, container x dtype x memory-layout classes of the arguments, degenerate "
            "shapes (axis of length 1 or 2), and call histories on the module: persistent arrays / tensors / FFTs re-used across valid "
            "calls, rejected calls (wrong argument kinds, unusable dtypes, shape mismatch, options of the wrong type, raising part-way) "
            "and caller-side in-place updates, every valid call compared with a freshly loaded copy of the module. "
            "Growth round 6 (Props/C13Ext.lean, audited on its own): 'exactly' as an equality (a translation whose negative lies in the centred "
            "window comes back as that very number; -1 px / +1 px on either axis — coarse peak on the last / second index — give exactly "
            "(+1 / -1) through both entry points at every factor, non-square shapes included), the end-to-end composition FFT tables -> entry "
            "point -> translating the second image by the returned shift reproduces the first (both entry points, every factor, max_shift), "
            "the refinement of both entry points to one closed-form specification on integer-shifted copies (centredInt M (-a), centredInt N (-b): "
            "np_refines_spec / torch_refines_spec, so the two estimators agree at every pair of factors; the specification is odd except at the tie), "
            "and a model of the third estimator of the anchored files, tomography.utils.torch_phase_cross_correlation (first maximum of |cc|, "
            "per-axis centring `> dim // 2`): integer-shift exactness in (-dim/2, dim/2] for non-negative images, its sign convention, swap negation for every image pair with a unique |cc| maximum, and "
            "where it differs from the other two (the tie dim/2 stays positive); tied to the code by an exact stream (driver op `phase`). "
            "A FIXED block (independent of VERIF_SEED, harness/props/c13_g6.py) enumerates: +-1 px on each axis separately, shifts at and "
            "beyond half the size, H<W and H>W, factors 1,2,3,10,16,100,128 for both estimators, max_shift exactly on / one ulp outside the lag "
            "radius with the lag along one axis only, callers re-using their FFT arrays with return_shifted_image, calls alternating between "
            "pairs of different shapes, and the users with sign-asymmetric stacks (align_vbf_stack_multiscale in reference and pairwise mode: "
            "returned shifts and aligned stack; _compute_pairwise_shifts with pairs in both orders; cross_correlation_align_stack; "
            "DriftCorrection.align_translation on H<W / H>W canvases).",
    "note": "Trusted: Lean kernel + propext/Classical.choice/Quot.sound; np.fft/torch.fft are assumed to compute the defining "
            "sums (exercised by every stream); IEEE rounding; torch float32 kernel precision in dftUpsample_torch. Moved from "
            "measured to proved in growth round 5: integer-shift exactness on the upsampled branches (NumPy up >= 2, torch up >= 3) and "
            "with max_shift, the dispatch on the factor (one statement for all factors), zero shift for identical images through the "
            "entry points. Growth round 6: the returned VALUE for +-1 px (equality, not only a congruence), the end-to-end sign convention "
            "through the entry points, and torch_phase_cross_correlation (previously not reached by any stream) are proved. Still measured only: the 'within 1/upsample_factor' clause for band-limited sub-pixel shifts (paths that do "
            "not upsample are held to one pixel), swap negation of the upsampled branches (NumPy exact to 1e-7, torch to 1/up), "
            "statelessness of the module (no theorem: the code has no state; measured by the history stream against a fresh module). "
            "Recorded findings: on an image with a single row/column the upsampled branches return a non-zero shift (-0.5 / 0.25) "
            "along the axis of length 1 (patch tie, proved to be unavoidable for first-maximum argmax).",
    "technique": "Lean 4 proof (sums over the periodic cell, argmax invariants, roots-of-unity orthogonality/Plancherel, DFT shift theorem, trigonometric bound, floor arithmetic) + model-vs-implementation correspondence",
}
RULE = ("a case is one estimator call on one image pair; distinct non-trivial = distinct (stream, variant, shape parity/squareness, "
        "upsample factor, shift class [zero/within half/beyond half/at half/sub-pixel], max_shift used, fft_input/fft_output flags) "
        "with a non-constant image; the drift stream adds (canvas parity, stack size, upsample factor), the history stream the sequence of (return_shifted_image, fft_output, swapped) calls made on one shared pair of arrays; "
        "mhist: the sequence of op kinds of one module history (valid torch/NumPy call with its option flags, rejected call with its kind, caller-side in-place update); "
        "g6 fixed block: altshape (family, factor, max_shift used, the shapes), phase (shape, shift class, dtype), users (shape, factor, mask shape); "
        "forms: (variant, argument form, up class, fft_input, return_shifted_image); degen: (rows<3, cols<3, up class, shift class); stages: (shape, factor, max_shift used, true lag inside the disc)")
TRUSTED = ["np.fft.fft2/ifft2 and torch.fft.fft2/ifft2 compute the defining DFT sums (exercised by every stream)",
           "torch.argmax/np.argmax return the first maximum; torch.round rounds half to even",
           "the correlation theorem (FFT product = spatial circular cross-correlation) is proved (Props/C13.correlation_theorem); the exact stream additionally measures it on the real FFTs",
           "importlib loading imaging_utils.py under a fresh module name gives a copy without the state of the copy under test (the history oracle)",
           "torch_phase_cross_correlation: the model takes |real(cc)| where the code takes |cc| of the complex ifft2 (imaginary part = rounding noise for real images); integer images make the comparison exact"]
ASSUMPTIONS = ["image pairs whose correlation maximum is not unique (exact integer test) or whose float margins are below 1e-6 are rejected by the generator (counted in the distribution)",
               "sub-pixel accuracy (<= 1/upsample_factor) is evaluated on band-limited images without Nyquist content only; paths that do not upsample (NumPy up<=1, torch up<=2: parabolic estimate, torch rounds it to half a pixel) are held to one pixel",
               "the torch upsampling kernels are built in float32 by the library; that path is compared with tolerance 5e-4",
               "model comparisons are skipped (and counted) where an argmax is decided by rounding: exact ties of the masked table, a patch wider than a 3-pixel axis that holds its maximum twice, the patch along an axis of length 1",
               "an axis of length 1: the applied translation is the identity, 0 is required back; the upsampled branches return -0.5 / 0.25 there (known findings np-/torch-axis-of-length-1-upsampled)",
               "phase_corr_integer_shift (Props/C13Ext) is stated for non-negative images (intensities): there abs(cc) = cc; an image with negative values could have a larger |cc| at an anti-correlated lag (not modelled, the g6-phase stream uses non-negative integer images)",
               "align_vbf_stack_multiscale in pairwise mode solves a float32 linear system: its shifts are held to 5e-3 px, the aligned stack to 1e-2 relative; the stacks are chosen with all pairwise differences below half the cell so that the wrapped pairwise shifts are consistent",
               "rejected calls in histories are whatever the unchanged code rejects (TypeError/ValueError/RuntimeError/NotImplementedError/ModuleNotFoundError from NumPy/torch); the exception type is recorded, not compared"]
EXPLANATION = ("Theorems in Props/C13.lean are about Model/Registration.lean; every run drives the real estimators and the model "
               "with the same image pairs and compares peaks, refinements, patches and final shifts.")

TOL64 = 1e-9
TOL32 = 5e-4
UPS = [1, 2, 3, 4, 8, 16, 64]


# ---------------------------------------------------------------------------------------
# the implementation under test

def _iu():
    from quantem.core.utils import imaging_utils as iu
    return iu


PINNED_SIGNATURES = {
    "cross_correlation_shift": ["im_ref", "im", "upsample_factor", "max_shift", "return_shifted_image", "fft_input", "fft_output", "device"],
    "dft_upsample": ["F", "up", "shift", "device"],
    "cross_correlation_shift_torch": ["im_ref", "im", "upsample_factor"],
    "align_images_fourier_torch": ["G1", "G2", "upsample_factor"],
    "upsampled_correlation_torch": ["imageCorr", "upsampleFactor", "xyShift"],
    "dftUpsample_torch": ["imageCorr", "upsampleFactor", "xyShift"],
}


def check_signatures(ctx):
    """the parameter ORDER of the anchored estimators is part of the tie: positional callers depend on it"""
    import inspect
    iu = _iu()
    for name, want in PINNED_SIGNATURES.items():
        got = list(inspect.signature(getattr(iu, name)).parameters)
        if got != want:
            ctx.disagree("signature", {"stream": "signature", "function": name}, want, got,
                         note=f"parameter order of {name} differs from the pinned signature (positional callers bind differently)")


def impl_np(ref, im, up=1, max_shift=None, ret_img=False, fft_input=False, fft_output=False, positional=False):
    iu = _iu()
    a = np.fft.fft2(ref) if fft_input else np.array(ref, dtype=float)
    b = np.fft.fft2(im) if fft_input else np.array(im, dtype=float)
    with np.errstate(all="ignore"):
        if positional:   # (im_ref, im, upsample_factor, max_shift, return_shifted_image, fft_input, fft_output)
            r = iu.cross_correlation_shift(a, b, up, max_shift, ret_img, fft_input, fft_output)
        else:
            r = iu.cross_correlation_shift(a, b, upsample_factor=up, max_shift=max_shift, return_shifted_image=ret_img,
                                           fft_input=fft_input, fft_output=fft_output)
    if ret_img:
        if isinstance(r, tuple) and len(r) == 2:
            return np.asarray(r[0], dtype=float), np.asarray(r[1])
        # not the (shift, image) pair that was asked for: hand back whatever looks like a shift
        flat = np.real(np.asarray(r)).ravel()
        return (np.asarray(flat[:2], dtype=float) if flat.size >= 2 else np.array([np.nan, np.nan])), None
    flat = np.real(np.asarray(r[0] if isinstance(r, tuple) else r)).ravel()
    return (np.asarray(flat[:2], dtype=float) if flat.size >= 2 else np.array([np.nan, np.nan])), None


def impl_torch(ref, im, up=2, dtype="float64", positional=False):
    import torch
    iu = _iu()
    dt = torch.float64 if dtype == "float64" else torch.float32
    ta, tb = torch.tensor(np.asarray(ref), dtype=dt), torch.tensor(np.asarray(im), dtype=dt)
    r = iu.cross_correlation_shift_torch(ta, tb, up) if positional else iu.cross_correlation_shift_torch(ta, tb, upsample_factor=up)
    return np.asarray(r.detach().cpu().numpy(), dtype=float)


# ---------------------------------------------------------------------------------------
# independent oracles

def centred(k, n):
    """representative of k (mod n) in [-n/2, n/2)"""
    return ((k + n / 2.0) % n) - n / 2.0


def mod_dist(a, b, n):
    """distance between a and b on the circle of length n"""
    return abs(((a - b + n / 2.0) % n) - n / 2.0)


def cc_int(ref, im):
    """exact spatial circular cross-correlation cc[s,t] = sum_n ref[n] im[n-s] (integers)"""
    ref = np.asarray(ref, dtype=np.int64)
    im = np.asarray(im, dtype=np.int64)
    M, N = ref.shape
    out = np.zeros((M, N), dtype=np.int64)
    for s in range(M):
        for t in range(N):
            out[s, t] = int(np.sum(ref * np.roll(im, (s, t), (0, 1))))
    return out


def unique_peak(cc):
    """(is the maximum attained once, flat index, margin to the runner-up)"""
    f = cc.ravel()
    p = int(np.argmax(f))
    rest = np.delete(f, p)
    return bool(rest.size == 0 or rest.max() < f[p]), p, (float(f[p] - rest.max()) if rest.size else float("inf"))


def synth(coefs, M, N, t=(0.0, 0.0)):
    """explicit Fourier synthesis of a real band-limited image translated by t (no FFT involved):
    x[n,m] = sum_kl c_kl exp(2 pi i (k (n - t0)/M + l (m - t1)/N)); coefs = {(k,l): complex} closed under negation"""
    n = np.arange(M)[:, None]
    m = np.arange(N)[None, :]
    out = np.zeros((M, N), dtype=complex)
    for (k, l), c in coefs.items():
        out += c * np.exp(2j * np.pi * (k * (n - t[0]) / M + l * (m - t[1]) / N))
    assert np.max(np.abs(out.imag)) < 1e-9 * max(1.0, np.max(np.abs(out.real)))
    return out.real


def gen_coefs(rng, M, N):
    """random Hermitian coefficient set strictly below Nyquist with a decaying envelope"""
    K = min(rng.randint(1, 3), (M - 1) // 2)
    L = min(rng.randint(1, 3), (N - 1) // 2)
    K = max(K, 1)
    L = max(L, 1)
    coefs = {(0, 0): complex(rng.uniform(0.0, 2.0), 0.0)}
    for k in range(-K, K + 1):
        for l in range(-L, L + 1):
            if (k, l) in coefs or (-k, -l) in coefs:
                continue
            amp = rng.uniform(0.3, 1.0) / (1.0 + 0.5 * (k * k + l * l))
            ph = rng.uniform(0, 2 * math.pi)
            c = amp * complex(math.cos(ph), math.sin(ph))
            coefs[(k, l)] = c
            coefs[(-k, -l)] = c.conjugate()
    return coefs


def fourier_shift_oracle(coefs, M, N, t, s):
    """the image synth(coefs, t) translated by s — exact ground truth for the aligned image"""
    return synth(coefs, M, N, (t[0] + s[0], t[1] + s[1]))


def gen_int_image(rng, M, N):
    img = [[rng.randint(0, 9) for _ in range(N)] for _ in range(M)]
    # a bright feature makes the peak well separated
    img[rng.below(M)][rng.below(N)] += rng.randint(5, 20)
    return img


def shape_sig(M, N):
    return ("e" if M % 2 == 0 else "o") + ("e" if N % 2 == 0 else "o") + ("sq" if M == N else "ns")


def shift_class(t, M, N):
    def one(a, n):
        a = a % n
        if a == 0:
            return "0"
        if 2 * a == n:
            return "half"
        return "lt" if 2 * a < n else "gt"
    return one(t[0], M) + "/" + one(t[1], N)


def gen_shape(rng, lo=3, hi=12):
    M = rng.randint(lo, hi)
    N = M if rng.chance(0.25) else rng.randint(lo, hi)
    return M, N


# ---------------------------------------------------------------------------------------
# property predicates on the implementation

def up_key(up):
    return "up1" if up <= 1 else "upsampled"


def pred_integer_shift(ctx, case, variant, obs, M, N, t, up, tol):
    """returned shift == centred(-t) (exactly, i.e. to float tolerance; the +-n/2 tie may come out with either sign)"""
    exp = (centred(-t[0], M), centred(-t[1], N))
    err = max(mod_dist(obs[0], exp[0], M), mod_dist(obs[1], exp[1], N))
    inrange = -M / 2.0 - tol <= obs[0] <= M / 2.0 + tol and -N / 2.0 - tol <= obs[1] <= N / 2.0 + tol
    ctx.stat_max(f"integer_shift_err[{variant},{up_key(up)}]", err)
    if not (err <= tol and inrange):
        key = f"{variant}-identical-{up_key(up)}" if (t[0] % M == 0 and t[1] % N == 0) else f"{variant}-integer-shift-{up_key(up)}"
        ctx.pred_fail(key, "estimator does not return the applied integer translation (negated: shift that maps the second image onto the first)",
                      case, observed=[float(obs[0]), float(obs[1])], required=[exp[0], exp[1]])
        return False
    return True


def pred_swap(ctx, case, variant, ab, ba, M, N, up, tol):
    """shift(a,b) == -shift(b,a) (mod the cell; the +-n/2 tie is excluded by the modular distance)"""
    err = max(mod_dist(ab[0], -ba[0], M), mod_dist(ab[1], -ba[1], N))
    ctx.stat_max(f"swap_err[{variant},{up_key(up)}]", err)
    if not err <= tol:
        ctx.pred_fail(f"{variant}-swap-{up_key(up)}", "swapping the two images does not negate the returned shift", case,
                      observed={"ab": [float(x) for x in ab], "ba": [float(x) for x in ba]}, required="ab == -ba (mod shape)")
        return False
    return True


def pred_subpixel(ctx, case, variant, obs, M, N, t, up):
    exp = (centred(-t[0], M), centred(-t[1], N))
    err = max(mod_dist(obs[0], exp[0], M), mod_dist(obs[1], exp[1], N))
    # "within 1/upsample_factor, or the parabolic-refinement accuracy when not upsampling": the NumPy estimator
    # upsamples for up > 1, the torch estimator only for up > 2 (for up <= 2 it returns the parabolic estimate
    # rounded to half a pixel, whatever the factor).  The separable parabola on a broad oblique correlation ridge
    # is off by up to ~0.55 px (measured), so the non-upsampled class is one pixel.
    upsampled = up > 1 if variant == "np" else up > 2
    bound = 1.0 / up if upsampled else 1.0
    ctx.stat_max(f"subpixel_err_x_up[{variant},up={up}]" if upsampled else f"subpixel_err_px[{variant},up={up},not upsampled]",
                 err * up if upsampled else err)
    if not err <= bound + 1e-9:
        ctx.pred_fail(f"{variant}-subpixel-{'upsampled' if upsampled else 'parabolic'}", "sub-pixel shift of a band-limited image not recovered to within one (upsampled) pixel",
                      case, observed=[float(obs[0]), float(obs[1])], required={"shift": list(exp), "bound": bound})
        return False
    return True


# ---------------------------------------------------------------------------------------
# model side helpers

def _drv_mod():
    from qv import driver
    return driver


def rat(s):
    from fractions import Fraction
    a, b = s.split("/")
    return Fraction(int(a), int(b))


def fbits(a):
    d = _drv_mod()
    return [[d.f2b(v) for v in row] for row in np.asarray(a, dtype=float)]


def cbits(a):
    d = _drv_mod()
    return [[[d.f2b(z.real), d.f2b(z.imag)] for z in row] for row in np.asarray(a, dtype=complex)]


def unbits(m):
    d = _drv_mod()
    return np.array([[d.b2f(v) for v in row] for row in m], dtype=float)


def ask(drv, req):
    r = drv.ask(req)
    if "ok" not in r:
        raise RuntimeError(f"driver error {r} on {str(req)[:200]}")
    return r["ok"]


def close(a, b, tol, scale=None):
    a = np.asarray(a, dtype=float)
    b = np.asarray(b, dtype=float)
    if a.shape != b.shape:
        return False, float("inf")
    if a.size == 0:
        return True, 0.0
    s = max(1.0, float(np.max(np.abs(b)))) if scale is None else scale
    d = float(np.max(np.abs(a - b)))
    return (d <= tol * s and np.all(np.isfinite(a))), d / s


def cmp_shift(obs, model, M, N, tol):
    """model-vs-implementation distance of two shifts; the +-n/2 centring tie is identified"""
    d = max(mod_dist(obs[0], model[0], M), mod_dist(obs[1], model[1], N))
    return d <= tol * max(1.0, abs(model[0]), abs(model[1])), d


SCALES = [["pow2", -40], ["pow2", -30], ["pow2", -10], ["pow2", 10], ["pow2", 20], ["dec", 1e-12], ["dec", 1e-9], ["dec", 1e-3], ["dec", 1e3], ["dec", 1e6]]


def scale_checks(ctx, case, ref, im, M, N, up, t, scale, pow2_only=False):
    """intensity-scale class: shift(c*a, c*b) == shift(a, b) for c > 0 (bit-identical when c is a power of two), for both
    estimators and both torch dtypes; if the applied integer translation `t` is known the scaled pair must recover it too"""
    kind, val = scale
    if pow2_only and kind != "pow2":
        return
    c = 2.0 ** val if kind == "pow2" else float(val)
    ctx.dist[f"scale:{kind}:{val}"] += 1
    exact = kind == "pow2"
    sref, sim = ref * c, im * c
    b_np, _ = impl_np(ref, im, up=up)
    s_np, _ = impl_np(sref, sim, up=up)
    d = max(mod_dist(s_np[0], b_np[0], M), mod_dist(s_np[1], b_np[1], N)) if np.all(np.isfinite(s_np)) else float("inf")
    ctx.stat_max(f"scale_invariance_err[np,{kind}]", d)
    if d > (0.0 if exact else TOL64):
        ctx.pred_fail(f"np-scale-invariance-{up_key(up)}", "shift(c*a, c*b) differs from shift(a, b) for an intensity scale c > 0", dict(case, scale=scale),
                      observed={"scaled": s_np.tolist(), "unscaled": b_np.tolist()}, required="identical")
    if t is not None:
        pred_integer_shift(ctx, dict(case, scale=scale), "np-scaled", s_np, M, N, t, up, TOL64)
    tup = max(up, 1)
    for dt in ("float64", "float32"):
        b_t = impl_torch(ref, im, up=tup, dtype=dt)
        s_t = impl_torch(sref, sim, up=tup, dtype=dt)
        d = max(mod_dist(s_t[0], b_t[0], M), mod_dist(s_t[1], b_t[1], N)) if np.all(np.isfinite(s_t)) else float("inf")
        ctx.stat_max(f"scale_invariance_err[torch-{dt},{kind}]", d)
        tol = 0.0 if exact else (TOL64 if (tup <= 2 and dt == "float64") else TOL32)
        if d > tol:
            ctx.pred_fail(f"torch-scale-invariance-{up_key(tup) if tup > 2 else 'up1'}", "shift(c*a, c*b) differs from shift(a, b) for an intensity scale c > 0 (torch)",
                          dict(case, scale=scale, dtype=dt), observed={"scaled": s_t.tolist(), "unscaled": b_t.tolist()}, required="identical")
        if t is not None:
            pred_integer_shift(ctx, dict(case, scale=scale, dtype=dt), f"torch-scaled", s_t, M, N, t, tup,
                               TOL64 if (tup <= 2 and dt == "float64") else TOL32)


def pedestal_checks(ctx, case, ints, t, M, N, up):
    """low contrast on a pedestal (1 + 2^-22 * image, float64): the applied integer translation must still be found; the
    conditioning of the un-normalised correlation limits the accuracy of the parabola, hence the 0.05 px class"""
    ref = 1.0 + (2.0 ** -22) * ints
    im = np.roll(ref, (t[0], t[1]), (0, 1))
    exp = (centred(-t[0], M), centred(-t[1], N))
    ctx.dist["pedestal:cases"] += 1
    for variant, obs in (("np", impl_np(ref, im, up=up)[0]), ("torch", impl_torch(ref, im, up=max(up, 1)))):
        err = max(mod_dist(obs[0], exp[0], M), mod_dist(obs[1], exp[1], N)) if np.all(np.isfinite(obs)) else float("inf")
        ctx.stat_max(f"pedestal_err[{variant}]", err)
        if not err <= 0.05:
            ctx.pred_fail(f"{variant}-pedestal-low-contrast", "integer translation of a low-contrast image on a pedestal is not recovered", dict(case, pedestal=True),
                          observed=[float(obs[0]), float(obs[1])], required=list(exp))


# ---------------------------------------------------------------------------------------
# streams

def case_exact(ctx, drv, case):
    """integer images, no upsampling: exact model (Rat) vs NumPy/torch; integer-shift, aligned-image
    and swap predicates"""
    img = case["img"]
    M, N = len(img), len(img[0])
    ref = np.array(img, dtype=float)
    if case["kind"] == "copy":
        t = case["t"]
        im = np.roll(ref, (t[0], t[1]), (0, 1))
    else:
        t = None
        im = np.array(case["img2"], dtype=float)
    o = case["opts"]
    ms = o.get("max_shift")
    ctx.count()
    ctx.dist[f"exact:kind={case['kind']}"] += 1
    ctx.dist[f"exact:shape={shape_sig(M, N)}"] += 1
    ctx.dist[f"exact:max_shift={'none' if ms is None else 'set'}"] += 1
    ctx.dist[f"exact:fft_input={o['fft_input']},ret={o['ret']},fft_output={o['fft_output']}"] += 1
    if t is not None:
        ctx.dist[f"exact:shift={shift_class(t, M, N)}"] += 1
    iref = [[int(v) for v in r] for r in ref]
    iim = [[int(v) for v in r] for r in im]
    # ---- model
    mnp = ask(drv, {"op": "exact", "variant": "np", "ref": iref, "im": iim,
                    "max_shift": None if ms is None else str(__import__("fractions").Fraction(ms))})
    mto = ask(drv, {"op": "exact", "variant": "torch", "ref": iref, "im": iim})
    # ---- exact oracle for the predicate: is the correlation peak unique?
    cc = cc_int(ref, im)
    uniq, p, margin = unique_peak(cc)
    if rat(mnp["gap"]) == 0 or rat(mto["gap"]) == 0:
        ctx.dist["exact:rejected(non-unique peak)"] += 1
        return
    if mnp["degenerate"]:
        # a flat triple around the peak: the repaired parabolic_peak returns 0.0 (as the torch variant always did) and so does the model
        ctx.dist["exact:flat triple around the peak (guarded parabola)"] += 1
    # ---- implementation: NumPy
    pos = bool(case.get("positional"))
    ctx.dist[f"exact:call form={'positional' if pos else 'keyword'}"] += 1
    obs, aligned = impl_np(ref, im, up=1, max_shift=ms, ret_img=o["ret"], fft_input=o["fft_input"], fft_output=o["fft_output"], positional=pos)
    if o["ret"] and aligned is None:
        ctx.pred_fail("np-call-form", "cross_correlation_shift(..., return_shifted_image=True) did not return a (shift, image) pair "
                      f"({'positional' if pos else 'keyword'} call)", case, observed="no image", required="(shifts, image_shifted)")
    mshift = [float(rat(x)) for x in mnp["shift"]]
    ok, d = cmp_shift(obs, mshift, M, N, TOL64)
    ctx.stat_max("exact:np model-vs-impl shift", d)
    if not ok:
        ctx.disagree("exact-np", case, {"shift": mshift}, {"shift": [float(obs[0]), float(obs[1])]},
                     note=f"cross_correlation_shift vs shiftNp1 (model exact {mnp['shift']}, peak {mnp['peak']}, dx {mnp['dx']}, dy {mnp['dy']})")
    # ---- implementation: torch (upsample_factor 1 and 2 take the same path)
    tup = case.get("tup", 2)
    tobs = impl_torch(ref, im, up=tup, positional=pos)
    tshift = [float(rat(x)) for x in mto["shift"]]
    if rat(mto["tie"]) < __import__("fractions").Fraction(1, 1000):
        ctx.dist["exact:torch half-pixel rounding tie skipped"] += 1
    else:
        ok, d = cmp_shift(tobs, tshift, M, N, TOL64)
        ctx.stat_max("exact:torch model-vs-impl shift", d)
        if not ok:
            ctx.disagree("exact-torch", case, {"shift": tshift}, {"shift": [float(tobs[0]), float(tobs[1])]},
                         note=f"cross_correlation_shift_torch vs shiftTorch2 (model exact {mto['shift']}, peak {mto['peak']}, dx {mto['dx']}, dy {mto['dy']})")
    ctx.mark(("exact", case["kind"], shape_sig(M, N), ms is not None, o["fft_input"], o["ret"], o["fft_output"],
              shift_class(t, M, N) if t else "-"))
    # ---- property predicates on the implementation
    if t is not None:
        ct = (centred(-t[0], M), centred(-t[1], N))
        auto_unique, _, _ = unique_peak(cc_int(ref, ref))
        visible = ms is None or (ct[0] ** 2 + ct[1] ** 2 < ms ** 2)
        if auto_unique and visible:
            pred_integer_shift(ctx, case, "np", obs, M, N, t, 1, TOL64)
            if aligned is not None:
                target = np.fft.fft2(ref) if o["fft_output"] else ref
                okA, dA = close(np.abs(aligned - target), np.zeros_like(ref), TOL64, scale=max(1.0, float(np.max(np.abs(target)))))
                ctx.stat_max("aligned_image_err[integer shift]", dA)
                if not okA:
                    ctx.pred_fail("np-aligned-image-integer", "aligned image returned for an integer-shifted copy does not reproduce the reference",
                                  case, observed=float(dA), required="== reference (1e-9 relative)")
        if auto_unique:
            pred_integer_shift(ctx, case, "torch", tobs, M, N, t, tup, TOL64)
    if uniq and margin >= 1:
        # swapping the images negates the result (unique peak, whatever the image pair)
        sobs, _ = impl_np(im, ref, up=1, max_shift=ms, fft_input=o["fft_input"])
        pred_swap(ctx, case, "np", obs, sobs, M, N, 1, TOL64)
        stobs = impl_torch(im, ref, up=tup)
        if rat(mto["tie"]) >= __import__("fractions").Fraction(1, 1000):
            pred_swap(ctx, case, "torch", tobs, stobs, M, N, tup, TOL64)
    if case.get("scale") and ms is None:
        auto_ok = t is not None and unique_peak(cc_int(ref, ref))[0]
        if t is None or auto_ok:
            scale_checks(ctx, case, ref, im, M, N, 1, t if auto_ok else None, case["scale"], pow2_only=(t is None))
    ctx.sample({k: case[k] for k in case if k != "img2"}, limit=2)


def gen_exact(rng):
    M, N = gen_shape(rng, 3, 11)
    img = gen_int_image(rng, M, N)
    case = {"stream": "exact", "img": img}
    if rng.chance(0.7):
        case["kind"] = "copy"
        mode = rng.weighted([("any", 6), ("half", 1), ("zero", 1), ("beyond", 2)])
        if mode == "any":
            t = [rng.randint(0, M - 1), rng.randint(0, N - 1)]
        elif mode == "half":
            t = [M // 2 if rng.chance(0.7) else rng.randint(0, M - 1), N // 2 if rng.chance(0.7) else rng.randint(0, N - 1)]
        elif mode == "zero":
            t = [0, 0]
        else:  # beyond half the size, also outside the cell / negative
            t = [rng.randint(M // 2 + 1, 2 * M), -rng.randint(N // 2 + 1, 2 * N)]
        case["t"] = t
    else:
        case["kind"] = "pair"
        case["img2"] = gen_int_image(rng, M, N)
    ms = None
    if rng.chance(0.35):
        ms = rng.choice([1, 1.5, 2, 2.5, 3, 4, 6, 32])
    ret = rng.chance(0.5)
    case["opts"] = {"max_shift": ms, "fft_input": rng.chance(0.35), "ret": ret, "fft_output": ret and rng.chance(0.5)}
    case["tup"] = rng.choice([1, 2])
    r2 = rng.fork(91)
    case["positional"] = r2.chance(0.4)
    if r2.chance(0.5):
        case["scale"] = r2.choice(SCALES)
    return case


def case_upint(ctx, drv, case):
    """identical images / integer-shifted copies at upsample factors 1..64 (both variants);
    the float64 model is run on a subset (`drv` flag)"""
    img = case["img"]
    M, N = len(img), len(img[0])
    ref = np.array(img, dtype=float)
    t = case["t"]
    up = case["up"]
    im = np.roll(ref, (t[0], t[1]), (0, 1))
    if not unique_peak(cc_int(ref, ref))[0]:
        ctx.dist["upint:rejected(non-unique autocorrelation peak)"] += 1
        return
    ctx.count()
    ident = (t[0] % M == 0 and t[1] % N == 0)
    ctx.dist[f"upint:{'identical' if ident else 'integer-shift'}"] += 1
    ctx.dist[f"upint:up={up}"] += 1
    pos = bool(case.get("positional"))
    obs, aligned = impl_np(ref, im, up=up, ret_img=True, positional=pos)
    tobs = impl_torch(ref, im, up=up, positional=pos)
    if aligned is None:
        ctx.pred_fail("np-call-form", "cross_correlation_shift(..., return_shifted_image=True) did not return a (shift, image) pair", case,
                      observed="no image", required="(shifts, image_shifted)")
        aligned = np.full_like(ref, np.nan)
    if case.get("scale"):
        scale_checks(ctx, case, ref, im, M, N, up, t, case["scale"])
    if case.get("pedestal") and not (t[0] % M == 0 and t[1] % N == 0):
        pedestal_checks(ctx, case, ref, t, M, N, up)
    pred_integer_shift(ctx, case, "np", obs, M, N, t, up, TOL64)
    pred_integer_shift(ctx, case, "torch", tobs, M, N, t, up, TOL64 if up <= 2 else TOL32)
    okA, dA = close(aligned, ref, 1e-7)
    ctx.stat_max("aligned_image_err[integer shift, upsampled]", dA)
    if not okA:
        ctx.pred_fail(f"np-aligned-image-{up_key(up)}", "aligned image for an integer-shifted copy does not reproduce the reference", case,
                      observed=float(dA), required="== reference")
    if case.get("swap"):
        sobs, _ = impl_np(im, ref, up=up)
        pred_swap(ctx, case, "np", obs, sobs, M, N, up, TOL64)
        pred_swap(ctx, case, "torch", tobs, impl_torch(im, ref, up=up), M, N, up, TOL64 if up <= 2 else TOL32)
    ctx.mark(("upint", shape_sig(M, N), up, shift_class(t, M, N)))
    if case.get("drv"):
        for variant, o, tol in (("np", obs, TOL64), ("torch", tobs, TOL32 if up > 2 else TOL64)):
            m = ask(drv, {"op": "full", "variant": variant, "up": up, "ref": fbits(ref), "im": fbits(im), "max_shift": None})
            d = _drv_mod()
            ms = [d.b2f(x) for x in m["shift"]]
            ok, dist = cmp_shift(o, ms, M, N, tol)
            ctx.stat_max(f"upint:{variant} model-vs-impl shift", dist)
            ctx.dist[f"upint:model-compared[{variant}]"] += 1
            if ident and "pgap" in m:
                # hypothesis `hstrict` of identical_zero_upsampled_*: the patch maximum is attained only at the centre
                g = d.b2f(m["pgap"]) / max(d.b2f(m["pscale"]), 1e-300)
                key = f"min relative gap between the patch centre and the runner-up, identical images [{variant}]"
                ctx.extra[key] = min(ctx.extra.get(key, float("inf")), g)
                P = (2 * ((3 * up + 1) // 2) + 1) if variant == "np" else (3 * up + 1) // 2
                centre_idx = P // 2
                if list(m["ppeak"]) != [centre_idx, centre_idx] or g <= 0:
                    ctx.disagree(f"upint-{variant}-centre", case, {"ppeak": [centre_idx, centre_idx]}, {"ppeak": m["ppeak"], "gap": g},
                                 note="model patch of identical images does not peak strictly at the centre index")
            if not ok:
                ctx.disagree(f"upint-{variant}", case, {"shift": ms}, {"shift": [float(o[0]), float(o[1])]},
                             note=f"integer shift at upsample factor (model peak {m['peak']}, patch peak {m.get('ppeak')})")
    ctx.sample(case, limit=3)


def case_subpixel(ctx, drv, case):
    """band-limited images, sub-pixel shifts: float64 model vs implementation, accuracy bound,
    aligned image vs explicit Fourier synthesis, swap"""
    from qv.prng import Rng
    d = _drv_mod()
    M, N, up = case["M"], case["N"], case["up"]
    coefs = gen_coefs(Rng(case["sub"]), M, N)
    t = case["t"]
    ref = synth(coefs, M, N)
    im = synth(coefs, M, N, t)
    o = case["opts"]
    ctx.count()
    ctx.dist[f"subpixel:up={up}"] += 1
    ctx.dist[f"subpixel:shape={shape_sig(M, N)}"] += 1
    ctx.dist[f"subpixel:fft_input={o['fft_input']},fft_output={o['fft_output']}"] += 1
    scale = float(np.max(np.abs(ref)))
    # ---- NumPy
    obs, aligned = impl_np(ref, im, up=up, ret_img=True, fft_input=o["fft_input"], fft_output=o["fft_output"])
    pred_subpixel(ctx, case, "np", obs, M, N, t, up)
    truth = fourier_shift_oracle(coefs, M, N, t, obs)   # `im` translated by the returned shift
    target = np.fft.fft2(truth) if o["fft_output"] else truth
    okA, dA = close(np.abs(aligned - target), np.zeros_like(ref), TOL64, scale=max(1.0, float(np.max(np.abs(target)))))
    ctx.stat_max("aligned_image_err[sub-pixel, vs Fourier synthesis at the returned shift]", dA)
    if not okA:
        ctx.pred_fail("np-aligned-image-subpixel", "returned aligned image is not the second image translated by the returned shift",
                      case, observed=float(dA), required="exact Fourier shift (1e-9 relative)")
    # aligned image matches the reference to the accuracy of the shift
    exp = (centred(-t[0], M), centred(-t[1], N))
    err = max(mod_dist(obs[0], exp[0], M), mod_dist(obs[1], exp[1], N))
    if not o["fft_output"]:
        grad = 2 * math.pi * sum(abs(c) * (abs(k) / M + abs(l) / N) for (k, l), c in coefs.items())
        resid = float(np.max(np.abs(aligned - ref)))
        ctx.stat_max("aligned_vs_reference_resid/(grad*shift_err+1e-9)", resid / (grad * err + 1e-9 * max(1.0, scale)))
        if resid > 1.01 * grad * err + 1e-9 * max(1.0, scale):
            ctx.pred_fail("np-aligned-vs-reference", "aligned image differs from the reference by more than the shift error allows", case,
                          observed=resid, required=grad * err)
    sobs, _ = impl_np(im, ref, up=up, fft_input=o["fft_input"])
    pred_swap(ctx, case, "np", obs, sobs, M, N, up, 1e-7)
    # ---- torch (float64 and float32 images)
    tobs = impl_torch(ref, im, up=up)
    pred_subpixel(ctx, case, "torch", tobs, M, N, t, up)
    tobs32 = impl_torch(ref, im, up=up, dtype="float32")
    pred_subpixel(ctx, case, "torch-f32", tobs32, M, N, t, up)
    # swap for the torch variant: the upsampled patch has an even side for even ceil(1.5 up), so
    # negation is only exact while the refined peak is interior; it is required to the accuracy class
    stobs = impl_torch(im, ref, up=up)
    terr = max(mod_dist(tobs[0], -stobs[0], M), mod_dist(tobs[1], -stobs[1], N))
    ctx.stat_max(f"swap_err_x_up[torch,sub-pixel]", terr * max(up, 1))
    if terr > 1.0 / max(up, 1) + 1e-9:
        ctx.pred_fail(f"torch-swap-subpixel", "swapping the two images does not negate the returned shift (beyond one upsampled pixel)", case,
                      observed={"ab": [float(x) for x in tobs], "ba": [float(x) for x in stobs]}, required="ab == -ba within 1/upsample_factor")
    if case.get("scale"):
        scale_checks(ctx, case, ref, im, M, N, up, None, case["scale"], pow2_only=True)
    ctx.mark(("subpixel", shape_sig(M, N), up, o["fft_input"], o["fft_output"]))
    # ---- model (float64)
    if case.get("drv", True):
        m = ask(drv, {"op": "full", "variant": "np", "up": up, "ref": fbits(ref), "im": fbits(im), "max_shift": None, "img": True})
        gap = d.b2f(m["gap"]) / max(d.b2f(m["scale"]), 1e-300)
        pgap = d.b2f(m["pgap"]) / max(d.b2f(m["pscale"]), 1e-300) if "pgap" in m else 1.0
        if gap < 1e-7 or pgap < 1e-10:
            ctx.dist["subpixel:np ill-conditioned argmax skipped"] += 1
        else:
            ms = [d.b2f(x) for x in m["shift"]]
            ok, dist = cmp_shift(obs, ms, M, N, TOL64)
            ctx.stat_max("subpixel:np model-vs-impl shift", dist)
            if not ok:
                ctx.disagree("subpixel-np", case, {"shift": ms}, {"shift": [float(obs[0]), float(obs[1])]},
                             note=f"cross_correlation_shift vs shiftNpUp/shiftNp1 (Float; model peak {m['peak']}, patch peak {m.get('ppeak')})")
            else:
                if o["fft_output"]:
                    mf = np.array([[complex(d.b2f(z[0]), d.b2f(z[1])) for z in row] for row in m["fimg"]])
                    okI, dI = close(np.abs(mf - aligned), np.zeros((M, N)), TOL64, scale=max(1.0, float(np.max(np.abs(mf)))))
                else:
                    okI, dI = close(aligned, unbits(m["img"]), TOL64)
                ctx.stat_max("subpixel:np model-vs-impl aligned image", dI)
                if not okI:
                    ctx.disagree("subpixel-np-image", case, {"img": "model"}, {"img": "impl", "dist": dI}, note="phase-ramp aligned image")
        m = ask(drv, {"op": "full", "variant": "torch", "up": up, "ref": fbits(ref), "im": fbits(im), "max_shift": None})
        gap = d.b2f(m["gap"]) / max(d.b2f(m["scale"]), 1e-300)
        tie = min(abs((d.b2f(m["prex"]) % 1.0) - 0.5), abs((d.b2f(m["prey"]) % 1.0) - 0.5))
        edge = False
        if "ppeak" in m:
            P = (3 * up + 1) // 2
            edge = any(q <= 1 or q >= P - 2 for q in m["ppeak"])
        if gap < 1e-7 or tie < 1e-6 or edge:
            ctx.dist["subpixel:torch ill-conditioned (argmax / half-pixel tie / patch edge) skipped"] += 1
        else:
            ms = [d.b2f(x) for x in m["shift"]]
            ok, dist = cmp_shift(tobs, ms, M, N, TOL32 if up > 2 else TOL64)
            ctx.stat_max("subpixel:torch model-vs-impl shift" + ("[float32 kernels]" if up > 2 else ""), dist)
            if not ok:
                ctx.disagree("subpixel-torch", case, {"shift": ms}, {"shift": [float(tobs[0]), float(tobs[1])]},
                             note=f"cross_correlation_shift_torch vs shiftTorchUp/shiftTorch2 (Float; model peak {m['peak']}, patch peak {m.get('ppeak')})")
    ctx.sample(case, limit=5)


def gen_subpixel(rng, i):
    up = UPS[i % len(UPS)]
    hi = 9 if up == 64 else (11 if up >= 16 else 13)
    M, N = gen_shape(rng, 6, hi)
    t = [rng.uniform(0, M), rng.uniform(0, N)]
    if rng.chance(0.2):
        t[0] = rng.uniform(-0.5, 0.5)
    ret_f = rng.chance(0.3)
    return {"stream": "subpixel", "M": M, "N": N, "sub": rng.next() & 0xFFFFFFFF, "t": t, "up": up,
            "opts": {"fft_input": rng.chance(0.3), "fft_output": ret_f},
            "scale": rng.choice([sc for sc in SCALES if sc[0] == "pow2"]) if rng.chance(0.5) else None}


def case_kernels(ctx, drv, case):
    """the upsampling kernels called directly: dft_upsample, dftUpsample_torch,
    upsampled_correlation_torch, align_images_fourier_torch"""
    import torch
    from qv.prng import Rng
    iu = _iu()
    d = _drv_mod()
    M, N, up = case["M"], case["N"], case["up"]
    rng = Rng(case["sub"])
    coefs = gen_coefs(rng, M, N)
    ref = synth(coefs, M, N)
    im = synth(coefs, M, N, case["t"])
    F = np.fft.fft2(ref) * np.conj(np.fft.fft2(im))
    a, b = case["a"], case["b"]
    ctx.count()
    ctx.dist[f"kernels:up={up}"] += 1
    # exact index arithmetic of both grids
    g = ask(drv, {"op": "grid", "up": up, "x": str(__import__("fractions").Fraction(a).limit_denominator(1 << 20))})
    # NumPy kernel
    loc = iu.dft_upsample(F, up, (a, b))
    m = ask(drv, {"op": "patch", "variant": "np", "up": up, "F": cbits(F), "a": d.f2b(a), "b": d.f2b(b)})
    if loc.shape != (g["side_np"], g["side_np"]):
        ctx.disagree("kernels-np-shape", case, [g["side_np"]] * 2, list(loc.shape), note="dft_upsample patch shape")
    else:
        ok, dist = close(loc, unbits(m["patch"]), TOL64)
        ctx.stat_max("kernels:dft_upsample model-vs-impl", dist)
        if not ok:
            ctx.disagree("kernels-np", case, {"patch": "model"}, {"dist": dist}, note="dft_upsample vs patchNp")
    if up > 2:
        cen = torch.tensor([a, b], dtype=torch.float64)
        loc = iu.dftUpsample_torch(torch.tensor(F), up, cen).numpy()
        m = ask(drv, {"op": "patch", "variant": "torch", "up": up, "F": cbits(F), "a": d.f2b(a), "b": d.f2b(b)})
        if loc.shape != (g["side_torch"], g["side_torch"]):
            ctx.disagree("kernels-torch-shape", case, [g["side_torch"]] * 2, list(loc.shape), note="dftUpsample_torch patch shape")
        else:
            ok, dist = close(loc, unbits(m["patch"]), TOL32)
            ctx.stat_max("kernels:dftUpsample_torch model-vs-impl [float32 kernels]", dist)
            if not ok:
                ctx.disagree("kernels-torch", case, {"patch": "model"}, {"dist": dist}, note="dftUpsample_torch vs patchTorch")
        # upsampled_correlation_torch from a half-pixel position near the true peak
        hx = round((-case["t"][0] % M) * 2) / 2.0
        hy = round((-case["t"][1] % N) * 2) / 2.0
        r = iu.upsampled_correlation_torch(torch.tensor(F), up, torch.tensor([hx, hy], dtype=torch.float64)).numpy()
        m = ask(drv, {"op": "upcorr", "up": up, "F": cbits(F), "a": d.f2b(hx), "b": d.f2b(hy)})
        P = g["side_torch"]
        if any(q <= 1 or q >= P - 2 for q in m["ppeak"]):
            ctx.dist["kernels:upcorr patch-edge peak skipped"] += 1
        else:
            ms = [d.b2f(x) for x in m["xy"]]
            ok, dist = close(r, ms, TOL32)
            ctx.stat_max("kernels:upsampled_correlation_torch model-vs-impl [float32 kernels]", dist)
            if not ok:
                ctx.disagree("kernels-upcorr", case, {"xy": ms}, {"xy": [float(r[0]), float(r[1])]},
                             note=f"upsampled_correlation_torch vs upsampledTorch (model patch peak {m['ppeak']})")
    ctx.mark(("kernels", shape_sig(M, N), up))
    ctx.sample(case, limit=6)


def gen_kernels(rng, i):
    up = [2, 3, 4, 5, 8, 16][i % 6]
    M, N = gen_shape(rng, 5, 10)
    t = [rng.uniform(0, M), rng.uniform(0, N)]
    return {"stream": "kernels", "M": M, "N": N, "sub": rng.next() & 0xFFFFFFFF, "t": t, "up": up,
            "a": rng.choice([0.0, 0.5, 2.0, rng.uniform(0, M)]), "b": rng.choice([0.0, 1.5, rng.uniform(0, N)])}


def case_users(ctx, case):
    """the estimators as used by tomography.utils.cross_correlation_align_stack and
    direct_ptycho_utils._compute_reference_shifts/_compute_pairwise_shifts"""
    import torch
    from quantem.tomography.utils import cross_correlation_align_stack
    from quantem.diffractive_imaging import direct_ptycho_utils as dpu
    img = case["img"]
    M, N = len(img), len(img[0])
    ref = np.array(img, dtype=float)
    if not unique_peak(cc_int(ref, ref))[0]:
        return
    ts = case["ts"]
    ctx.count()
    ctx.dist["users:cases"] += 1
    # direct ptychography: shifts of every stack member against a reference
    stack = np.stack([np.roll(ref, (t[0], t[1]), (0, 1)) for t in ts])
    up = case["up"]
    sh = dpu._compute_reference_shifts(torch.tensor(stack, dtype=torch.float32), torch.tensor(ref, dtype=torch.float32), upsample_factor=up).numpy()
    for t, s in zip(ts, sh):
        pred_integer_shift(ctx, case, "torch-user-reference", s, M, N, t, up, TOL32)
    pairs = torch.tensor([[0, j] for j in range(1, len(ts))])
    rel = dpu._compute_pairwise_shifts(torch.tensor(stack, dtype=torch.float32), pairs, upsample_factor=up)
    for (i, j, s) in rel:
        tt = [ts[j][0] - ts[i][0], ts[j][1] - ts[i][1]]
        pred_integer_shift(ctx, case, "torch-user-pairwise", s.numpy(), M, N, tt, up, TOL32)
    # tomography: sequential alignment; only the first prediction is against an exactly periodic copy
    import io
    import contextlib
    with contextlib.redirect_stderr(io.StringIO()):
        _, pred = cross_correlation_align_stack(ref, stack[:1])
    pred_integer_shift(ctx, case, "np-user-tomography", np.asarray(pred[0], dtype=float), M, N, ts[0], 1, TOL64)
    ctx.mark(("users", shape_sig(M, N), up))


def gen_users(rng):
    M, N = gen_shape(rng, 5, 12)
    return {"stream": "users", "img": gen_int_image(rng, M, N), "up": rng.choice([1, 2, 4, 8]),
            "ts": [[rng.randint(0, M - 1), rng.randint(0, N - 1)] for _ in range(rng.randint(2, 3))]}


def case_drift(ctx, case):
    """the NumPy estimator as used by imaging.drift.DriftCorrection.align_translation: the warped stack is
    replaced by 3-4 circular integer translations of one canvas image; the loop (estimator + running
    reference built from the returned aligned images) must come back with the applied relative shifts"""
    import contextlib
    import io
    from qv.prng import Rng
    from quantem.imaging.drift import DriftCorrection
    H, W, n, up, ts = case["H"], case["W"], case["n"], case["up"], case["ts"]
    rng = Rng(case["sub"])
    seed_img = np.array(gen_int_image(rng, H, W), dtype=float)
    dc = DriftCorrection.from_data([seed_img.copy() for _ in range(n)], [case["deg"]] * n).preprocess(
        pad_fraction=case["pad"], pad_value="median", kde_sigma=0.5, number_knots=case["nk"])
    Hc, Wc = int(dc.shape[1]), int(dc.shape[2])
    canvas = np.array(gen_int_image(rng, Hc, Wc), dtype=float)
    if not unique_peak(cc_int(canvas, canvas))[0]:
        ctx.dist["drift:rejected(non-unique autocorrelation peak)"] += 1
        return
    ctx.count()
    ctx.dist[f"drift:n={n}"] += 1
    ctx.dist[f"drift:up={up}"] += 1
    ctx.dist[f"drift:canvas={shape_sig(Hc, Wc)}"] += 1
    for i, t in enumerate(ts):
        dc.images_warped.array[i] = np.roll(canvas, (t[0], t[1]), (0, 1))
    k0 = [np.array(k, dtype=float, copy=True) for k in dc.knots]
    with contextlib.redirect_stdout(io.StringIO()):
        dc.align_translation(upsample_factor=up, max_image_shift=case["max_shift"], show_merged=False)
    obs = np.array([[float((np.asarray(k1, dtype=float) - k)[c].flat[0]) for c in (0, 1)] for k1, k in zip(dc.knots, k0)])
    # image i is canvas rolled by t_i, the reference is image 0 (t_0 = 0): the shift that maps it back is -t_i
    raw = np.array([[-float(t[0]), -float(t[1])] for t in ts])
    exp = raw - raw.mean(axis=0)
    err = float(np.max(np.abs(obs - exp)))
    ctx.stat_max(f"integer_shift_err[np-user-drift-align,{up_key(up)}]", err)
    if not err <= TOL32:   # float32 canvases, complex64 FFT
        ctx.pred_fail(f"np-user-drift-align-{up_key(up)}",
                      "align_translation on a stack of circularly translated copies does not return the applied relative translations "
                      "(estimator + running reference of aligned images)", case,
                      observed=obs.tolist(), required=exp.tolist())
    ctx.mark(("drift", shape_sig(Hc, Wc), n, up))
    ctx.sample(case, limit=7)


def gen_drift(rng):
    H = rng.randint(5, 9)
    W = H if rng.chance(0.25) else rng.randint(5, 9)
    n = rng.randint(3, 4)
    ts = [[0, 0]] + [[rng.randint(-2, 2), rng.randint(-2, 2)] for _ in range(n - 1)]
    if ts[1] == [0, 0]:
        ts[1] = [1, -1]   # a non-zero shift on an image before the last one
    return {"stream": "drift", "H": H, "W": W, "pad": rng.choice([0.25, 0.5]), "deg": rng.choice([0, 30, 90, 200]),
            "nk": rng.randint(1, 2), "n": n, "up": rng.choice([1, 2, 3, 4, 5, 8]), "ts": ts,
            "max_shift": rng.choice([32, 32, 4]), "sub": rng.next() & 0xFFFFFFFF}


def case_history(ctx, case):
    """call histories on shared arrays: the estimators must not modify their inputs (bit-compare before/after
    every call, all option combinations, NumPy and torch) and repeated / swapped calls on the same arrays must
    keep returning the applied translation"""
    import torch
    iu = _iu()
    img = case["img"]
    M, N = len(img), len(img[0])
    ref = np.array(img, dtype=float)
    t = case["t"]
    im = np.roll(ref, (t[0], t[1]), (0, 1))
    if not unique_peak(cc_int(ref, ref))[0]:
        ctx.dist["history:rejected(non-unique autocorrelation peak)"] += 1
        return
    up, fin, ms = case["up"], case["fft_input"], case["max_shift"]
    ctx.count()
    ctx.dist[f"history:fft_input={fin}"] += 1
    ctx.dist[f"history:up={up}"] += 1
    A = np.fft.fft2(ref) if fin else ref.copy()
    B = np.fft.fft2(im) if fin else im.copy()
    A0, B0 = A.copy(), B.copy()
    ct = (centred(-t[0], M), centred(-t[1], N))
    visible = ms is None or (ct[0] ** 2 + ct[1] ** 2 < ms ** 2)

    def unchanged(tag):
        okA = A.dtype == A0.dtype and A.tobytes() == A0.tobytes()
        okB = B.dtype == B0.dtype and B.tobytes() == B0.tobytes()
        if not (okA and okB):
            ctx.pred_fail(f"np-input-modified-{'fft' if fin else 'real'}",
                          f"cross_correlation_shift modified its {'first' if not okA else 'second'} input array in place ({tag})",
                          case, observed={"max_change": float(np.max(np.abs(B - B0))) if okA else float(np.max(np.abs(A - A0)))},
                          required="inputs bit-identical after the call")
            return False
        return True

    def call(x, y, **kw):
        with np.errstate(all="ignore"):
            return iu.cross_correlation_shift(x, y, upsample_factor=up, max_shift=ms, fft_input=fin, **kw)

    results = []
    for step, kw in enumerate(case["calls"]):
        swapped = kw.get("swap", False)
        args = (B, A) if swapped else (A, B)
        r = call(*args, return_shifted_image=kw["ret"], fft_output=kw["fft_output"])
        sh = np.asarray(r[0] if kw["ret"] else r, dtype=float)
        ok = unchanged(f"call #{step} ret={kw['ret']} fft_output={kw['fft_output']} swapped={swapped}")
        tt = [-t[0], -t[1]] if swapped else t
        if visible:
            pred_integer_shift(ctx, dict(case, failing_call=step), "np-history", sh, M, N, tt, up, TOL64)
        results.append((swapped, sh))
        if not ok:
            break
    # repeated calls on the same arrays give the same answer
    for sw in (False, True):
        rs = [sh for s_, sh in results if s_ == sw]
        if len(rs) > 1:
            spread = max(float(np.max(np.abs(r - rs[0]))) for r in rs[1:])
            ctx.stat_max("history:np repeated-call spread", spread)
            if spread > TOL64:
                ctx.pred_fail("np-repeated-call", "repeated calls of cross_correlation_shift on the same arrays return different shifts", case,
                              observed=[r.tolist() for r in rs], required="identical results")
    # torch: inputs untouched, repeated and swapped calls consistent
    for dt in (torch.float64, torch.float32):
        ta, tb = torch.tensor(ref, dtype=dt), torch.tensor(im, dtype=dt)
        ta0, tb0 = ta.clone(), tb.clone()
        tup = case["tup"]
        r1 = iu.cross_correlation_shift_torch(ta, tb, upsample_factor=tup).numpy().astype(float)
        r2 = iu.cross_correlation_shift_torch(ta, tb, upsample_factor=tup).numpy().astype(float)
        r3 = iu.cross_correlation_shift_torch(tb, ta, upsample_factor=tup).numpy().astype(float)
        if not (torch.equal(ta, ta0) and torch.equal(tb, tb0)):
            ctx.pred_fail("torch-input-modified", "cross_correlation_shift_torch modified an input tensor in place", case,
                          observed="changed", required="inputs bit-identical after the call")
        if float(np.max(np.abs(r1 - r2))) > 0:
            ctx.pred_fail("torch-repeated-call", "repeated calls of cross_correlation_shift_torch on the same tensors differ", case,
                          observed=[r1.tolist(), r2.tolist()], required="identical results")
        tolt = TOL64 if tup <= 2 else TOL32
        pred_integer_shift(ctx, case, "torch-history", r1, M, N, t, tup, tolt)
        pred_integer_shift(ctx, case, "torch-history", r3, M, N, [-t[0], -t[1]], tup, tolt)
    ctx.mark(("history", shape_sig(M, N), up, fin, ms is not None, tuple((c["ret"], c["fft_output"], c.get("swap", False)) for c in case["calls"])))
    ctx.sample(case, limit=8)


def gen_history(rng):
    M, N = gen_shape(rng, 4, 11)
    calls = []
    for i in range(rng.randint(3, 5)):
        ret = rng.chance(0.6) if i else True     # the first call returns the aligned image
        calls.append({"ret": ret, "fft_output": ret and rng.chance(0.5), "swap": i > 0 and rng.chance(0.4)})
    if not any(c["swap"] for c in calls):
        calls[-1]["swap"] = True
    return {"stream": "history", "img": gen_int_image(rng, M, N), "t": [rng.randint(0, M - 1), rng.randint(0, N - 1)],
            "up": rng.choice([1, 1, 2, 3, 4, 8]), "tup": rng.choice([1, 2, 4]), "fft_input": rng.chance(0.6),
            "max_shift": rng.choice([None, None, 32, 6]), "calls": calls}


def run_case(ctx, drv, case):
    s = case["stream"]
    if s == "exact":
        case_exact(ctx, drv, case)
    elif s == "upint":
        case_upint(ctx, drv, case)
    elif s == "subpixel":
        case_subpixel(ctx, drv, case)
    elif s == "kernels":
        case_kernels(ctx, drv, case)
    elif s == "users":
        case_users(ctx, case)
    elif s == "drift":
        case_drift(ctx, case)
    elif s == "history":
        case_history(ctx, case)
    elif s == "mhist":
        X.case_mhist(ctx, case)
    elif s == "forms":
        X.case_forms(ctx, case)
    elif s == "degen":
        X.case_degen(ctx, drv, case)
    elif s == "stages":
        X.case_stages(ctx, drv, case)
    elif s.startswith("g6-"):
        G.run_case(ctx, drv, case)
    else:
        raise ValueError(s)


def run(ctx):
    from qv.driver import Driver
    import torch
    torch.set_num_threads(2)
    drv = Driver("C13")
    try:
        check_signatures(ctx)
        rng = ctx.rng.fork(1)
        for i in range(ctx.n(300, 3000)):
            run_case(ctx, drv, gen_exact(rng.fork(i)))
        # identical images at EVERY upsample factor 1..64, integer shifts at random factors
        rng = ctx.rng.fork(2)
        for i in range(ctx.n(2, 12)):
            r = rng.fork(i)
            M, N = gen_shape(r, 4, 9)
            img = gen_int_image(r, M, N)
            for up in range(1, 65):
                run_case(ctx, drv, {"stream": "upint", "img": img, "t": [0, 0], "up": up, "drv": up in (2, 3, 5, 8) or (up == 64 and i == 0)})
        for i in range(ctx.n(60, 800)):
            r = rng.fork(1000 + i)
            M, N = gen_shape(r, 4, 10)
            up = r.choice([2, 3, 4, 5, 7, 8, 16, 33, 64])
            run_case(ctx, drv, {"stream": "upint", "img": gen_int_image(r, M, N), "t": [r.randint(-M, 2 * M), r.randint(0, N - 1)], "up": up,
                                "drv": up <= 8 and r.chance(0.4), "swap": r.chance(0.5), "positional": r.chance(0.4),
                                "scale": r.choice(SCALES) if r.chance(0.6) else None, "pedestal": r.chance(0.3)})
        rng = ctx.rng.fork(3)
        for i in range(ctx.n(84, 700)):
            run_case(ctx, drv, gen_subpixel(rng.fork(i), i))
        rng = ctx.rng.fork(4)
        for i in range(ctx.n(36, 300)):
            run_case(ctx, drv, gen_kernels(rng.fork(i), i))
        rng = ctx.rng.fork(5)
        for i in range(ctx.n(12, 150)):
            run_case(ctx, drv, gen_users(rng.fork(i)))
        rng = ctx.rng.fork(6)
        for i in range(ctx.n(30, 300)):
            run_case(ctx, drv, gen_drift(rng.fork(i)))
        rng = ctx.rng.fork(7)
        for i in range(ctx.n(60, 600)):
            run_case(ctx, drv, gen_history(rng.fork(i)))
        # growth round 5 (c13_ext.py): histories on the module with rejected calls, input forms, degenerate shapes, internal stages
        rng = ctx.rng.fork(8)
        for case in X.fixed_mhist(rng.fork(10 ** 6)):      # fixed block: every rejected-call kind x family x dtype, in-place updates
            run_case(ctx, drv, case)
        for i in range(ctx.n(50, 700)):
            run_case(ctx, drv, X.gen_mhist(rng.fork(i)))
        rng = ctx.rng.fork(9)
        for i in range(ctx.n(80, 800)):
            run_case(ctx, drv, X.gen_forms(rng.fork(i), i))
        rng = ctx.rng.fork(10)
        for i in range(ctx.n(50, 500)):
            run_case(ctx, drv, X.gen_degen(rng.fork(i)))
        rng = ctx.rng.fork(11)
        for case in X.fixed_stages(rng.fork(10 ** 6)):
            run_case(ctx, drv, case)
        for i in range(ctx.n(50, 500)):
            run_case(ctx, drv, X.gen_stages(rng.fork(i)))
        # growth round 6 (c13_g6.py): FIXED block, independent of VERIF_SEED — unit shifts / last index / H<>W both ways / large factors,
        # max_shift at its boundary, re-used FFT arrays, alternating shapes, torch_phase_cross_correlation, users with sign-asymmetric stacks
        for case in G.fixed_cases():
            run_case(ctx, drv, case)
    finally:
        drv.close()


def replay(ctx, rep):
    from qv.driver import Driver
    case = rep.get("case") or (rep.get("correspondence_disagreements") or [{}])[0].get("case")
    if not case:
        return False
    case = {k: v for k, v in case.items() if k not in ("failing_call", "failing_op", "dtype", "pedestal_flag", "pair", "member", "tomo_t")}
    if case.get("stream") == "signature":
        check_signatures(ctx)
        return True
    drv = Driver("C13")
    try:
        run_case(ctx, drv, case)
    finally:
        drv.close()
    return True
