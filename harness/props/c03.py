"""C03 — Dataset containers stay coherent under any history of operations.

Correspondence: random / systematic operation histories on the real quantem `Dataset*`
classes and on the Lean state machine `Model/Dataset.lean` (driver C03), compared after every
step (class, shape, dtype kind, exact data, calibration, error kind).
Property predicate on the implementation (the failing-input search): the clauses of the
statement evaluated on the real objects with NumPy itself as the indexing oracle."""
import copy
import json
import warnings
from fractions import Fraction

import numpy as np

LEVEL = "proof"
MANIFEST_ENTRY = {
    "category": "proof",
    "text": "Lean 4 theorems over an executable state-machine model of Dataset/Dataset2d/3d/4d/4dstem (from_array, copy, "
            "origin/sampling/units/array setters, pad, crop, bin, fourier_resample, __getitem__; NumPy index semantics as an "
            "explicit gather with Python slice normalisation, Ellipsis expansion and the advanced-index axis-order rule): the "
            "coherence invariant (one origin/sampling/units entry per axis, class matches ndim, data length = prod shape) holds "
            "after every operation and by induction after every finite history; __getitem__ returns the gathered data with each "
            "result axis carrying the calibration of the source axis it reads (sampling times the slice step), the kept axes being "
            "exactly the non-integer axes, each once, in source order unless NumPy's advanced-index rule puts the list axis first; non-in-place "
            "operations return the receiver unchanged; the in-place variant of pad/crop/bin/fourier_resample yields the same array "
            "and calibration as the copying variant; exact error guards. Tied to the code on every run by differential execution "
            "of random and bounded-exhaustive (depth 2/3 over the op alphabet) histories, and the statement's clauses are "
            "evaluated on the real objects (NumPy as indexing oracle, bit-identical source check over all live objects, "
            "in-place vs copy twin execution) as the failing-input search.",
    "note": "Trusted: Lean kernel + propext/Classical.choice/Quot.sound; NumPy indexing/pad/sum/reshape are modelled (gather "
            "semantics) and only sampled; aliasing of views is not visible in the pure model and is covered only by the "
            "bit-identical check over all live objects; array values after fourier_resample are not tracked here (C06); "
            "index expressions with two or more lists, None/newaxis, boolean masks and 0-d results are outside the claim "
            "(the former is exercised as an error stream); duplicate axes in `axes=` are not generated.",
    "technique": "Lean 4 proof (invariant by induction over op lists; index-map lemmas) + model-vs-implementation correspondence",
}
RULE = ("a case is one operation applied to a dataset state inside a history; distinct non-trivial = distinct "
        "(op kind, in-place flag, outcome, ndim, class, previous op kind) with history position >= 1")
TRUSTED = ["NumPy basic/advanced indexing, np.pad, np.sum/reshape, np.fft (modelled as gathers / block sums; sampled agreement only)",
           "CPython attribute/property semantics of the Dataset classes"]
ASSUMPTIONS = [
    "array values are small integers (complex: Gaussian integers) so pad/crop/bin/index are exact; after a mean-bin with a "
    "non-power-of-two block volume values are compared with the tolerance rule (1e-9, float32 data 5e-4); after "
    "fourier_resample only shape/dtype kind/calibration are compared with the model (values: C06)",
    "calibration after fourier_resample is compared with relative tolerance 1e-10 over the whole history (the code divides by the rounded float m/n; measured maximum is reported)",
    "resample factors are dyadic or kept 1e-6 away from a rounding tie of n*f",
    "index expressions hold at most one list in the valid stream; for two-list expressions (outside the quantifier) only the fact that both model and implementation raise is compared",
]
EXPLANATION = ("Theorems in Props/C03.lean are about Model/Dataset.lean (+ Model/NdIndex.lean, Model/Resample.lean); every run "
               "drives the real classes and the model with the same histories and compares every intermediate state.")

CLASSES = ["Dataset", "Dataset2d", "Dataset3d", "Dataset4d", "Dataset4dstem"]
REQ = {"Dataset": None, "Dataset2d": 2, "Dataset3d": 3, "Dataset4d": 4, "Dataset4dstem": 4}
DTYPES = ["int8", "int16", "int32", "int64", "uint8", "uint16", "float32", "float64", "complex64", "complex128"]
UNITS = ["nm", "A", "mrad", "pixels", "s", "1/A"]


# ------------------------------------------------------------------------------------------
# encoding helpers (shared with c06)

def fr(x):
    return Fraction(x)


def fj(q):
    """Fraction -> JSON (int or 'n/d')"""
    q = Fraction(q)
    return int(q) if q.denominator == 1 else f"{q.numerator}/{q.denominator}"


def jf(v):
    return Fraction(v) if not isinstance(v, str) else Fraction(v)


def cls_of(name):
    import quantem.core.datastructures as qd
    return getattr(qd, name)


def kind_of(dt):
    return {"i": "int", "u": "int", "b": "int", "f": "float", "c": "complex"}.get(np.dtype(dt).kind, "other")


def arr_json(a):
    a = np.asarray(a)
    flat = a.ravel(order="C")
    k = kind_of(a.dtype)
    if k == "complex":
        return {"shape": list(a.shape), "kind": k, "re": [fj(fr(float(z.real))) for z in flat], "im": [fj(fr(float(z.imag))) for z in flat]}
    if k == "int":
        return {"shape": list(a.shape), "kind": k, "re": [int(z) for z in flat], "im": None}
    return {"shape": list(a.shape), "kind": k, "re": [fj(fr(float(z))) for z in flat], "im": None}


def view(ds):
    """canonical observable state of a real Dataset"""
    a = ds.array
    v = arr_json(a)
    v["cls"] = type(ds).__name__
    v["origin"] = [fj(fr(float(x))) for x in np.asarray(ds.origin).ravel()]
    v["sampling"] = [fj(fr(float(x))) for x in np.asarray(ds.sampling).ravel()]
    v["units"] = [str(u) for u in ds.units]
    return v


def safe_view(ds):
    """view() that never raises: a dataset whose attributes cannot even be read is reported, not crashed on"""
    if ds is None:
        return None
    try:
        return view(ds)
    except Exception as e:  # noqa
        return {"cls": type(ds).__name__, "shape": list(getattr(getattr(ds, "_array", None), "shape", [])), "kind": "unreadable",
                "re": None, "im": None, "origin": [], "sampling": [], "units": [], "unreadable": f"{type(e).__name__}: {e}"[:120]}


def err_name(e):
    for n, c in (("ZeroDivisionError", ZeroDivisionError), ("TypeError", TypeError), ("IndexError", IndexError),
                 ("ValueError", ValueError), ("KeyError", KeyError), ("AttributeError", AttributeError)):
        if isinstance(e, c):
            return n
    return "Other:" + type(e).__name__


def snapshot(ds):
    a = ds.array
    return (type(ds).__name__, a.dtype.str, a.shape, a.tobytes(), np.asarray(ds.origin).astype(float).tobytes(), np.asarray(ds.origin).shape,
            np.asarray(ds.sampling).astype(float).tobytes(), np.asarray(ds.sampling).shape, tuple(ds.units))


def snap_diff(a, b):
    names = ["class", "dtype", "shape", "array bytes", "origin", "origin shape", "sampling", "sampling shape", "units"]
    return [n for n, x, y in zip(names, a, b) if x != y]


def num_close(model, impl, tol):
    """model/impl: lists of JSON rationals.  returns (equal_exactly, max relative distance)"""
    if len(model) != len(impl):
        return False, float("inf")
    if model == impl:
        return True, 0.0
    m = [jf(x) for x in model]
    i = [jf(x) for x in impl]
    scale = max([1] + [abs(x) for x in m])
    d = max(abs(x - y) for x, y in zip(m, i)) if m else 0
    return False, float(d / scale)


# ------------------------------------------------------------------------------------------
# generators

def dyadic(rng, lo=-8, hi=8, bits=2):
    return Fraction(rng.randint(lo * (1 << bits), hi * (1 << bits)), 1 << bits)


def gen_shape(rng, ndim, cap=360):
    while True:
        shape = [rng.weighted([(1, 2), (2, 3), (3, 3), (4, 3), (5, 2), (6, 1), (7, 1)]) for _ in range(ndim)]
        if int(np.prod(shape)) <= cap:
            return shape


def gen_array(rng, shape, dtype=None):
    dtype = dtype or rng.choice(DTYPES)
    n = int(np.prod(shape))
    lo = 0 if dtype.startswith("uint") else -9
    re = np.array([rng.randint(lo, 9) for _ in range(n)], dtype=np.int64).reshape(shape)
    if dtype.startswith("complex"):
        im = np.array([rng.randint(-9, 9) for _ in range(n)], dtype=np.int64).reshape(shape)
        return (re + 1j * im).astype(dtype)
    return re.astype(dtype)


def gen_ndinfo(rng, ndim, malformed=0.06):
    r = rng.random()
    if r < malformed / 2:
        n = rng.choice([x for x in (0, ndim - 1, ndim + 1, ndim + 2) if x >= 0 and x != ndim])
        return {"l": [fj(dyadic(rng)) for _ in range(n)]}
    if r < malformed:
        return {"bad": True}
    if r < 0.3:
        return {"s": fj(dyadic(rng))}
    return {"l": [fj(dyadic(rng)) for _ in range(ndim)]}


def gen_units(rng, ndim, malformed=0.06):
    r = rng.random()
    if r < malformed / 2:
        n = rng.choice([x for x in (0, ndim - 1, ndim + 1) if x >= 0 and x != ndim])
        return {"l": [rng.choice(UNITS) for _ in range(n)]}
    if r < malformed:
        return {"bad": True}
    if r < 0.25:
        return {"s": rng.choice(UNITS)}
    return {"l": [rng.choice(UNITS) for _ in range(ndim)]}


def gen_new(rng):
    r = rng.random()
    if r < 0.45:
        cls = "Dataset"
        ndim = rng.weighted([(1, 2), (2, 3), (3, 3), (4, 2), (5, 2)])
    else:
        cls = rng.choice(CLASSES[1:])
        ndim = REQ[cls]
        r2 = rng.random()
        if r2 < 0.15:
            ndim = max(1, ndim - rng.randint(1, 3))         # data 1, 2 or 3 axes short: expand_dims branch, k missing axes
        elif r2 < 0.18:
            ndim = ndim + 1                                 # ValueError branch
    shape = gen_shape(rng, ndim)
    a = gen_array(rng, shape)
    nd_eff = REQ[cls] if REQ[cls] is not None and ndim < REQ[cls] else ndim
    req = {"op": "new", "cls": cls, "array": arr_json(a), "dtype": a.dtype.name,
           "origin": None if rng.chance(0.25) else gen_ndinfo(rng, nd_eff),
           "sampling": None if rng.chance(0.25) else gen_ndinfo(rng, nd_eff),
           "units": None if rng.chance(0.25) else gen_units(rng, nd_eff)}
    return req


def gen_axes(rng, ndim, malformed=0.05, allow_empty=False):
    """-> (json, list of python axes or None)"""
    r = rng.random()
    if r < 0.3:
        return None
    if r < 0.3 + malformed:
        bad = rng.choice([ndim, ndim + 1, -ndim - 1])
        return {"one": bad} if rng.chance(0.5) else {"many": [bad]}
    k = rng.randint(0 if allow_empty and rng.chance(0.1) else 1, ndim)
    axes = sorted(rng.sample(list(range(ndim)), k)) if rng.chance(0.7) else rng.sample(list(range(ndim)), k)
    axes = [a - ndim if rng.chance(0.25) else a for a in axes]
    if len(axes) == 1 and rng.chance(0.5):
        return {"one": axes[0]}
    return {"many": axes}


def axes_count(axes, ndim):
    if axes is None:
        return ndim
    return 1 if "one" in axes else len(axes["many"])


def axes_list(axes, ndim):
    if axes is None:
        return list(range(ndim))
    return [axes["one"]] if "one" in axes else list(axes["many"])


def gen_index(rng, shape):
    ndim = len(shape)
    r = rng.random()
    nitems = rng.randint(1, ndim)
    if r < 0.04:
        nitems = ndim + 1                     # too many indices
    items = []
    have_list = False
    two_lists = rng.chance(0.04)
    for k in range(nitems):
        n = shape[k] if k < ndim else 1
        t = rng.weighted([("int", 3), ("slice", 5), ("list", 1.5 if (not have_list or two_lists) else 0)])
        if t == "int":
            if n == 0 or rng.chance(0.04):
                items.append({"i": rng.choice([n, n + 1, -n - 1])})
            else:
                items.append({"i": rng.randint(-n, n - 1)})
        elif t == "slice":
            def bound():
                return None if rng.chance(0.4) else rng.randint(-n - 2, n + 2)
            step = rng.weighted([(None, 4), (1, 1), (2, 3), (3, 1), (-1, 2), (-2, 1), (0, 0.15)])
            items.append({"s": [bound(), bound(), step]})
        else:
            have_list = True
            ln = rng.randint(1, 3)
            if n == 0:
                items.append({"l": []})
            else:
                items.append({"l": [rng.randint(-n, n - 1) if not rng.chance(0.03) else n for _ in range(ln)]})
    if rng.chance(0.3) and nitems <= ndim:
        pos = rng.randint(0, len(items))
        items.insert(pos, "e")
        if nitems == ndim and rng.chance(0.5) and len(items) > 1:   # keep Ellipsis meaningful: drop one real item
            items.pop(pos + 1 if pos + 1 < len(items) else pos - 1)
        if rng.chance(0.03):
            items.append("e")
    # "leave at least one axis": mostly avoid all-integer expressions
    if all(isinstance(it, dict) and "i" in it for it in items) and len(items) == ndim and not rng.chance(0.1):
        k = rng.below(len(items))
        items[k] = {"s": [None, None, None]}
    return items


def py_index(items):
    out = []
    for it in items:
        if it == "e":
            out.append(Ellipsis)
        elif "i" in it:
            out.append(int(it["i"]))
        elif "l" in it:
            out.append(list(it["l"]))
        else:
            out.append(slice(*it["s"]))
    return tuple(out)


def gen_op(rng, ds):
    shape = list(ds.shape)
    ndim = len(shape)
    kind = rng.weighted([("copy", 1), ("set_origin", 1), ("set_sampling", 1), ("set_units", 1), ("set_array", 1), ("touch", 0.4),
                         ("pad", 2.5), ("crop", 2.5), ("bin", 3), ("resample", 1.6), ("getitem", 5)])
    op = {"op": kind}
    if kind == "set_origin" or kind == "set_sampling":
        op["v"] = gen_ndinfo(rng, ndim, malformed=0.15)
    elif kind == "set_units":
        op["v"] = gen_units(rng, ndim, malformed=0.15)
    elif kind == "set_array":
        r = rng.random()
        nd2 = ndim if r < 0.75 else (max(1, ndim - rng.randint(1, 3)) if r < 0.93 else ndim + 1)   # 1..3 axes short / one too many
        a = gen_array(rng, gen_shape(rng, nd2))
        op["array"] = arr_json(a)
        op["dtype"] = a.dtype.name
    elif kind == "pad":
        op["inplace"] = rng.chance(0.5)
        r = rng.random()
        if r < 0.03:
            op["arg"] = "both"
        elif r < 0.06:
            op["arg"] = "neither"
        elif r < 0.2:
            op["arg"] = {"all": rng.choice([0, 1, 2, 1, -1])}
        elif r < 0.35:
            op["arg"] = {"pair": [rng.randint(0, 2), rng.randint(0, 2)]}
        elif r < 0.6:
            n = ndim if not rng.chance(0.1) else rng.choice([1, ndim + 1, max(1, ndim - 1)])
            op["arg"] = {"per": [[rng.randint(0, 2) if not rng.chance(0.02) else -1, rng.randint(0, 2)] for _ in range(n)]}
        else:
            n = ndim if not rng.chance(0.08) else ndim + rng.choice([-1, 1])
            op["arg"] = {"out": [(shape[k] if k < ndim else 2) + rng.randint(-2, 4) for k in range(max(n, 0))]}
    elif kind == "crop":
        op["inplace"] = rng.chance(0.5)
        op["axes"] = gen_axes(rng, ndim, allow_empty=True)
        n = axes_count(op["axes"], ndim)
        if rng.chance(0.07):
            n = max(0, n + rng.choice([-1, 1]))
        ws = []
        for a in (axes_list(op["axes"], ndim) + [0] * 8)[:n]:
            L = shape[a % ndim] if -ndim <= a < ndim else 3
            b = rng.randint(0, max(0, L // 2))
            style = rng.random()
            if style < 0.45:
                e = -rng.randint(0, max(0, (L - b) // 2))      # (before, -after); -0 == 0 -> None
            elif style < 0.85:
                e = rng.randint(b, L + 1)                      # absolute stop
            else:
                e = rng.randint(-L - 1, L + 1)
            ws.append([b if not rng.chance(0.08) else -rng.randint(0, L), e])
        op["widths"] = ws
    elif kind == "bin":
        op["inplace"] = rng.chance(0.5)
        op["axes"] = gen_axes(rng, ndim, allow_empty=True)
        n = axes_count(op["axes"], ndim)
        op["mean"] = rng.chance(0.35)
        if rng.chance(0.03):
            op["bad_reducer"] = True
        r = rng.random()
        if r < 0.35:
            op["f"] = {"one": rng.weighted([(1, 1), (2, 5), (3, 3), (4, 1), (0, 0.3), (-1, 0.2)])}
        elif r < 0.97:
            m = n if not rng.chance(0.06) else max(0, n + rng.choice([-1, 1]))
            op["f"] = {"many": [rng.weighted([(1, 2), (2, 5), (3, 3), (4, 1), (5, 0.5), (0, 0.15), (None, 0.15)]) for _ in range(m)]}
        else:
            op["f"] = "bad"
    elif kind == "resample":
        op["inplace"] = rng.chance(0.5)
        op["axes"] = gen_axes(rng, ndim)
        axl = axes_list(op["axes"], ndim)
        n = len(axl)
        r = rng.random()
        if r < 0.03:
            op["arg"] = "both"
        elif r < 0.06:
            op["arg"] = "neither"
        elif r < 0.55:
            m = n if not rng.chance(0.06) else max(0, n + rng.choice([-1, 1]))
            op["arg"] = {"out": [max(0 if rng.chance(0.04) else 1, (shape[a % ndim] if -ndim <= a < ndim else 3) + rng.randint(-3, 3))
                                 for a in (axl + [0] * 8)[:m]]}
        elif r < 0.75:
            op["arg"] = {"f1": fj(Fraction(rng.choice([1, 2, 3, 4, 5, 6, 7, 8, 12]), 4))}
        else:
            m = n if not rng.chance(0.06) else max(0, n + rng.choice([-1, 1]))
            op["arg"] = {"fs": [fj(Fraction(rng.choice([1, 2, 3, 4, 5, 6, 7, 8, 10, 12]), 4)) for _ in range(m)]}
    elif kind == "getitem":
        op["ix"] = gen_index(rng, shape)
    if kind in ("copy", "pad", "crop", "bin", "resample", "getitem") and not op.get("inplace"):
        op["follow"] = rng.chance(0.6)
    return op


# ------------------------------------------------------------------------------------------
# running one operation on the real object

def ndinfo_py(v):
    if v is None:
        return None
    if "s" in v:
        return float(jf(v["s"]))
    if "l" in v:
        return [float(jf(x)) for x in v["l"]]
    return {"not": "numeric"}          # TypeError branch


def units_py(v):
    if v is None:
        return None
    if "s" in v:
        return v["s"]
    if "l" in v:
        return list(v["l"])
    return 5                           # TypeError branch


def axes_py(a):
    if a is None:
        return None
    if "one" in a:
        return int(a["one"])
    return tuple(int(x) for x in a["many"])


def array_py(aj, dtype):
    re = np.array([float(jf(x)) for x in aj["re"]], dtype=float)
    if aj.get("im") is not None:
        z = re + 1j * np.array([float(jf(x)) for x in aj["im"]], dtype=float)
    else:
        z = re
    return z.reshape(aj["shape"]).astype(dtype)


def make_new(req):
    cls = cls_of(req["cls"])
    a = array_py(req["array"], req["dtype"])
    return cls.from_array(a, origin=ndinfo_py(req["origin"]), sampling=ndinfo_py(req["sampling"]), units=units_py(req["units"]))


def op_kwargs(op, inplace):
    k = op["op"]
    if k == "pad":
        a = op["arg"]
        if a == "both":
            return dict(pad_width=1, output_shape=(3,), modify_in_place=inplace)
        if a == "neither":
            return dict(modify_in_place=inplace)
        if "all" in a:
            return dict(pad_width=int(a["all"]), modify_in_place=inplace)
        if "pair" in a:
            return dict(pad_width=tuple(a["pair"]), modify_in_place=inplace)
        if "per" in a:
            return dict(pad_width=tuple(tuple(p) for p in a["per"]), modify_in_place=inplace)
        return dict(output_shape=tuple(a["out"]), modify_in_place=inplace)
    if k == "crop":
        return dict(crop_widths=tuple(tuple(w) for w in op["widths"]), axes=axes_py(op["axes"]), modify_in_place=inplace)
    if k == "bin":
        f = op["f"]
        if f == "bad":
            bf = 2.0
        elif "one" in f:
            bf = int(f["one"])
        else:
            bf = tuple(2.5 if x is None else int(x) for x in f["many"])
        red = "median" if op.get("bad_reducer") else ("mean" if op.get("mean") else "sum")
        return dict(bin_factors=bf, axes=axes_py(op["axes"]), modify_in_place=inplace, reducer=red)
    if k == "resample":
        a = op["arg"]
        kw = dict(axes=axes_py(op["axes"]), modify_in_place=inplace)
        if a == "both":
            kw.update(out_shape=(2,), factors=2.0)
        elif a == "neither":
            pass
        elif "out" in a:
            kw.update(out_shape=tuple(a["out"]))
        elif "f1" in a:
            kw.update(factors=float(jf(a["f1"])))
        else:
            kw.update(factors=tuple(float(jf(x)) for x in a["fs"]))
        return kw
    raise KeyError(k)


METHOD = {"pad": "pad", "crop": "crop", "bin": "bin", "resample": "fourier_resample"}


def apply_op(ds, op, inplace=None):
    """returns (returned dataset or None).  raises what the real code raises."""
    k = op["op"]
    if k == "copy":
        return ds.copy()
    if k == "touch":
        ds.name = "renamed"
        ds.signal_units = "counts"
        return None
    if k == "set_origin":
        ds.origin = ndinfo_py(op["v"])
        return None
    if k == "set_sampling":
        ds.sampling = ndinfo_py(op["v"])
        return None
    if k == "set_units":
        ds.units = units_py(op["v"])
        return None
    if k == "set_array":
        ds.array = array_py(op["array"], op["dtype"])
        return None
    if k == "getitem":
        ix = py_index(op["ix"])
        return ds[ix[0]] if len(ix) == 1 and op.get("bare") else ds[ix]
    ip = op.get("inplace", False) if inplace is None else inplace
    return getattr(ds, METHOD[k])(**op_kwargs(op, ip))


# ------------------------------------------------------------------------------------------
# independent oracles for the predicate

def expected_axes(ix, ndim):
    """source axis (and slice step) of every result axis of a[ix] by NumPy's documented rule; at most one list."""
    ix = list(ix)
    adv0 = [i for i, x in enumerate(ix) if isinstance(x, (int, list))]      # positions in the expression as written:
    separated = bool(adv0) and adv0[-1] - adv0[0] + 1 != len(adv0)          # an Ellipsis separates even if it is empty
    if any(x is Ellipsis for x in ix):
        p = [i for i, x in enumerate(ix) if x is Ellipsis][0]
        ix = ix[:p] + [slice(None)] * (ndim - (len(ix) - 1)) + ix[p + 1:]
    ix = ix + [slice(None)] * (ndim - len(ix))
    adv = [i for i, x in enumerate(ix) if isinstance(x, (int, list))]
    lists = [i for i, x in enumerate(ix) if isinstance(x, list)]
    kept = [i for i, x in enumerate(ix) if not isinstance(x, int)]
    if lists and separated:
        kept = lists + [i for i in kept if i not in lists]
    return [(a, (ix[a].step if isinstance(ix[a], slice) and ix[a].step is not None else 1)) for a in kept]


def numpy_axis_probe(shape, ix):
    """which source axis varies along each result axis, read off NumPy itself (None where undecidable)"""
    res = []
    grids = np.indices(shape) if int(np.prod(shape)) > 0 else None
    if grids is None:
        return None
    rs = [g[ix] for g in grids]
    out_ndim = rs[0].ndim
    for k in range(out_ndim):
        if rs[0].shape[k] < 2 or rs[0].size == 0:
            res.append(None)
            continue
        cand = [a for a, r in enumerate(rs) if np.any(np.diff(r, axis=k) != 0)]
        res.append(cand[0] if len(cand) == 1 else None)
    return res


def check_coherent(ctx, ds, case, who):
    nd = ds.array.ndim
    name = type(ds).__name__
    o, s, u = np.asarray(ds.origin), np.asarray(ds.sampling), ds.units
    bad = []
    if o.ndim != 1 or len(o) != nd:
        bad.append(f"origin has {o.shape} entries for ndim {nd}")
    if s.ndim != 1 or len(s) != nd:
        bad.append(f"sampling has {s.shape} entries for ndim {nd}")
    if not isinstance(u, list) or len(u) != nd:
        bad.append(f"units has {len(u)} entries for ndim {nd}")
    if name not in REQ or (REQ[name] is not None and REQ[name] != nd):
        bad.append(f"class {name} with ndim {nd}")
    if ds.shape != ds.array.shape or ds.ndim != nd:
        bad.append("shape/ndim attributes disagree with the array")
    if bad:
        ctx.pred_fail(f"incoherent-after-{case['ops'][-1]['op']}", f"{who}: " + "; ".join(bad), case,
                      observed={"cls": name, "shape": list(ds.array.shape), "origin": o.tolist(), "sampling": s.tolist(), "units": list(u)},
                      required="one origin/sampling/units entry per axis and class matching ndim")


def check_getitem(ctx, src_arr, src_cal, ret, op, case):
    ix = py_index(op["ix"])
    nlists = sum(1 for x in ix if isinstance(x, list))
    if nlists > 1:
        return
    want = src_arr[ix]
    got = ret.array
    if not (isinstance(want, np.ndarray) and got.shape == want.shape and got.dtype == want.dtype and np.array_equal(got, want)):
        ctx.pred_fail("getitem-data", "ds[ix].array differs from ds.array[ix]", case,
                      observed={"shape": list(got.shape), "dtype": str(got.dtype)}, required={"shape": list(np.shape(want))})
        return
    exp = expected_axes(ix, src_arr.ndim)
    probe = numpy_axis_probe(src_arr.shape, ix)
    if probe is not None:
        for k, a in enumerate(probe):
            if a is not None and (k >= len(exp) or exp[k][0] != a):
                ctx.pred_fail("oracle-self-check", "harness axis-order oracle disagrees with NumPy", case, observed=probe, required=[e[0] for e in exp])
                return
    o, s, u = src_cal
    if not (len(o) == len(s) == len(u) == src_arr.ndim):
        return          # the source itself is incoherent (already reported by check_coherent): no calibration to carry over
    req_o = [o[a] for a, _ in exp]
    req_s = [fr(float(s[a]) * st) for a, st in exp]      # the float product, as the statement is about float calibration
    req_u = [u[a] for a, _ in exp]
    got_o = [fr(float(x)) for x in np.asarray(ret.origin).ravel()]
    got_s = [fr(float(x)) for x in np.asarray(ret.sampling).ravel()]
    if got_o != req_o or got_s != req_s or list(ret.units) != req_u:
        adv_sep = [e[0] for e in exp] != sorted(e[0] for e in exp)
        key = "getitem-calib-order-int-slice-list" if adv_sep else "getitem-calib"
        ctx.pred_fail(key, "calibration of ds[ix] does not describe the returned axes (kept axes in result order, sampling*step)", case,
                      observed={"origin": [str(x) for x in got_o], "sampling": [str(x) for x in got_s], "units": list(ret.units)},
                      required={"origin": [str(x) for x in req_o], "sampling": [str(x) for x in req_s], "units": req_u,
                                "result_axes_from_source_axes": [e[0] for e in exp]})


def cal_of(ds):
    return ([fr(float(x)) for x in np.asarray(ds.origin).ravel()], [fr(float(x)) for x in np.asarray(ds.sampling).ravel()], list(ds.units))


def same_result(a, b):
    """array and calibration of two datasets bit-identical"""
    sa, sb = snapshot(a), snapshot(b)
    return [n for n in snap_diff(sa, sb) if n != "class"] + ([] if type(a) is type(b) else ["class"])


# ------------------------------------------------------------------------------------------
# one history

def compare_view(ctx, stream, case, m, iv, flags, what):
    """m: model ds json, iv: impl view.  returns True when they agree"""
    if m is None or iv is None:
        if m is not iv:
            ctx.disagree(stream, case, m, iv, note=what)
            return False
        return True
    for k in ("cls", "shape", "kind", "units"):
        if m[k] != iv[k]:
            ctx.disagree(stream, case, {k: m[k]}, {k: iv[k]}, note=f"{what}: {k}")
            return False
    for k in ("origin", "sampling"):
        eq, d = num_close(m[k], iv[k], 0)
        if not eq:
            if flags["meta_inexact"] and d <= 1e-10:
                ctx.stat_max("calibration_rel_distance_after_resample", d)
            else:
                ctx.disagree(stream, case, {k: m[k]}, {k: iv[k]}, note=f"{what}: {k}")
                return False
    if m["re"] is not None:
        for k in ("re", "im"):
            if m[k] is None:
                continue
            eq, d = num_close(m[k], iv[k], 0)
            if not eq:
                tol = 5e-4 if flags.get("f32") else 1e-9
                if flags["data_inexact"] and d <= tol:
                    ctx.stat_max("data_rel_distance_after_inexact_mean", d)
                else:
                    ctx.disagree(stream, case, {k: m[k]}, {k: iv[k]}, note=f"{what}: data {k}")
                    return False
    return True


def pow2(n):
    return n > 0 and (n & (n - 1)) == 0


def run_history(ctx, drv, new_req, ops_or_gen, stream="history", max_ops=12):
    """ops_or_gen: list of ops, or callable(rng-free) (ds) -> op generating the next op from the current real object."""
    warnings.simplefilter("ignore")
    reqs = [dict(new_req)]
    records = []     # per request: dict(impl result, views …)
    flags = {"meta_inexact": False, "data_inexact": False, "f32": False}
    case_ops = []
    # ---- implementation side
    try:
        cur = make_new(new_req)
        res0 = {"ok": None}
    except Exception as e:  # noqa
        cur = None
        res0 = {"err": err_name(e)}
    records.append({"res": res0, "recv": safe_view(cur), "ret": None, "flags": dict(flags)})
    ctx.dist["new:" + new_req["cls"] + ":" + (res0.get("err") or "ok")] += 1
    if cur is not None:
        ctx.dist[f"ndim:{cur.ndim}"] += 1
        ctx.dist["dtype:" + str(cur.array.dtype)] += 1
        check_coherent(ctx, cur, {"new": new_req, "ops": [{"op": "new"}]}, "constructed dataset")
    live = []        # (object, snapshot) of every other dataset created in this history
    prev_kind = "new"
    i = 0
    while cur is not None and i < max_ops:
        if callable(ops_or_gen):
            op = ops_or_gen(cur)
        else:
            if i >= len(ops_or_gen):
                break
            op = ops_or_gen[i]
        i += 1
        case_ops.append(op)
        case = {"new": new_req, "ops": list(case_ops)}
        kind = op["op"]
        before = snapshot(cur)
        src_arr = cur.array.copy()
        src_cal = cal_of(cur)
        has_ip = kind in METHOD
        twin = copy.deepcopy(cur) if has_ip else None
        ret = None
        try:
            ret = apply_op(cur, op)
            res = {"ok": None}
        except Exception as e:  # noqa
            res = {"err": err_name(e)}
        ip = bool(op.get("inplace"))
        if ret is not None and ret.ndim == 0:
            op["follow"] = False      # 0-d result (ds[i, ...]): outside the quantifier, compared but not continued
        # bookkeeping of inexactness (for the comparison with the exact model only)
        if "err" not in res:
            if kind == "resample":
                flags["meta_inexact"] = True
            if kind == "bin" and op.get("mean"):
                flags["data_inexact"] = True
            if kind == "set_array":
                flags["data_inexact"] = False
        tgt = ret if ret is not None else cur
        flags["f32"] = tgt.array.dtype.itemsize // (2 if tgt.array.dtype.kind == "c" else 1) < 8 and tgt.array.dtype.kind in "fc"
        records.append({"res": res, "recv": safe_view(cur), "ret": safe_view(ret), "flags": dict(flags)})
        reqs.append({k: v for k, v in op.items() if k not in ("dtype", "bare")})
        ctx.count()
        ctx.dist[f"op:{kind}" + (":inplace" if ip else "")] += 1
        ctx.dist["outcome:" + (res.get("err") or "ok")] += 1
        if i >= 2 or True:
            ctx.mark((kind, ip, res.get("err") or "ok", len(src_arr.shape), before[0], prev_kind))
        prev_kind = kind
        # ---------------- property predicate on the implementation ----------------
        after = snapshot(cur)
        if "err" in res:
            if kind == "getitem":
                ix = py_index(op["ix"])
                try:
                    want = src_arr[ix]
                    valid = isinstance(want, np.ndarray) and want.ndim >= 1 and sum(1 for x in ix if isinstance(x, list)) <= 1
                except Exception:  # noqa
                    valid = False
                if valid:
                    ctx.pred_fail("getitem-raises", f"ds[ix] raised {res['err']} although ds.array[ix] is a valid index leaving at least one axis",
                                  case, observed=res, required={"shape": list(want.shape)})
            # a raising operation is still part of the history: the receiver must stay coherent (whether it stayed
            # *unchanged* is a model/implementation correspondence matter, compared below)
            check_coherent(ctx, cur, case, "receiver after a raising operation")
        else:
            check_coherent(ctx, cur, case, "receiver")
            if ret is not None:
                check_coherent(ctx, ret, case, "returned dataset")
                # (a) operations that return a new dataset leave the source bit-identical
                if after != before:
                    ctx.pred_fail(f"source-changed-{kind}", f"{kind} returned a new dataset but changed the source", case,
                                  observed=snap_diff(before, after), required="source bit-identical (data and calibration)")
            if kind == "getitem":
                check_getitem(ctx, src_arr, src_cal, ret, op, case)
        # (b) every other live dataset of the history stays bit-identical (aliasing)
        for obj, snap in live:
            now = snapshot(obj)
            if now != snap:
                ctx.pred_fail(f"alias-changed-by-{kind}", f"{kind} on one dataset changed another dataset of the history", case,
                              observed=snap_diff(snap, now), required="bit-identical")
                break
        # (c) in-place variant == copying variant (twin execution on a deep copy)
        if has_ip:
            tret = None
            try:
                tret = apply_op(twin, op, inplace=not ip)
                tres = {"ok": None}
            except Exception as e:  # noqa
                tres = {"err": err_name(e)}
            if ("err" in res) != ("err" in tres) or res.get("err") != tres.get("err"):
                ctx.pred_fail(f"inplace-vs-copy-outcome-{kind}", "in-place and copying variants differ in outcome", case,
                              observed={"inplace" if ip else "copy": res, "copy" if ip else "inplace": tres}, required="same outcome")
            elif "err" not in res:
                a_obj = cur if ip else ret        # result of the variant actually run
                b_obj = tret if ip else twin      # result of the other variant
                d = same_result(a_obj, b_obj) if a_obj is not None and b_obj is not None else ["missing result"]
                if d:
                    ctx.pred_fail(f"inplace-vs-copy-{kind}", "in-place and copying variants produce different array/calibration", case,
                                  observed=d, required="bit-identical array and calibration")
        # continue on the returned dataset or on the receiver
        if ret is not None:
            if op.get("follow"):
                live.append((cur, snapshot(cur)))
                cur = ret
            else:
                live.append((ret, snapshot(ret)))
        live = live[-6:]
        if "err" in res and kind != "getitem" and res["err"].startswith("Other"):
            break
    # ---- model side
    answers = drv.ask_many(reqs)
    for j, (rq, ans, rec) in enumerate(zip(reqs, answers, records)):
        if "driver" in str(ans.get("err", "")):
            raise RuntimeError(f"driver error {ans} on {json.dumps(rq)[:300]}")
        case = {"new": new_req, "ops": case_ops[:j]}
        mres = ans["r"]
        ires = rec["res"]
        if rq.get("op") == "getitem" and sum(1 for it in rq["ix"] if isinstance(it, dict) and "l" in it) >= 2 and "err" in mres and "err" in ires:
            # two or more lists: outside the property's quantifier (pointwise indexing, no axis calibration exists); both sides
            # must raise, the *kind* of NumPy's error (IndexError vs the later ValueError) depends on NumPy-internal check order
            ctx.dist["getitem:multi-list-raises"] += 1
            continue
        if ("err" in mres) != ("err" in ires) or mres.get("err") != ires.get("err"):
            ctx.disagree(stream, case, {"r": {"err": mres.get("err")} if "err" in mres else "ok"},
                         {"r": {"err": ires.get("err")} if "err" in ires else "ok"}, note=f"step {j} {rq['op']}: outcome")
            break
        mrecv = ans.get("st") if j == 0 else ans.get("recv")
        if not compare_view(ctx, stream, case, mrecv, rec["recv"], rec["flags"], f"step {j} {rq['op']}: receiver"):
            break
        if "err" not in mres:
            if not compare_view(ctx, stream, case, mres.get("ok"), rec["ret"], rec["flags"], f"step {j} {rq['op']}: returned"):
                break
    if len(case_ops) >= 2:
        ctx.sample({"new": {k: (v if k != "array" else {"shape": v["shape"], "kind": v["kind"]}) for k, v in new_req.items()},
                    "ops": [{k: v for k, v in o.items() if k != "array"} for o in case_ops[:5]]}, limit=3)


# ------------------------------------------------------------------------------------------
# systematic alphabet (bounded-exhaustive depth 2 / 3)

def alphabet(shape):
    nd = len(shape)
    full = {"s": [None, None, None]}
    ops = [
        {"op": "copy", "follow": True},
        {"op": "set_sampling", "v": {"s": "1/2"}},
        {"op": "set_units", "v": {"s": "nm"}},
        {"op": "pad", "arg": {"out": [n + 1 for n in shape]}, "inplace": True},
        {"op": "pad", "arg": {"pair": [1, 0]}, "inplace": False, "follow": True},
        {"op": "crop", "widths": [[1, 0]], "axes": {"one": -1}, "inplace": True},
        {"op": "crop", "widths": [[0, -1]] * nd, "axes": None, "inplace": False, "follow": True},
        {"op": "bin", "f": {"one": 2}, "axes": None, "mean": False, "inplace": True},
        {"op": "bin", "f": {"many": [2]}, "axes": {"many": [nd - 1]}, "mean": True, "inplace": False, "follow": True},
        {"op": "resample", "arg": {"f1": "3/2"}, "axes": {"one": 0}, "inplace": True},
        {"op": "resample", "arg": {"out": [3]}, "axes": {"many": [-1]}, "inplace": False, "follow": True},
        {"op": "getitem", "ix": [{"s": [None, None, 2]}], "follow": True},
        {"op": "getitem", "ix": ["e", {"s": [1, None, -1]}], "follow": True},
    ]
    if nd >= 2:
        ops.append({"op": "getitem", "ix": [{"i": 0}], "follow": True})
        ops.append({"op": "getitem", "ix": [full, {"l": [0, 0]}], "follow": True})
    if nd >= 3:
        ops.append({"op": "getitem", "ix": [{"i": 0}, full, {"l": [1, 0]}], "follow": True})
    return ops


def run_systematic(ctx, drv, depth):
    import itertools
    base = [("Dataset", [5]), ("Dataset2d", [4, 5]), ("Dataset3d", [3, 4, 4]), ("Dataset4dstem", [2, 3, 4, 4]), ("Dataset", [2, 2, 3, 2, 3])]
    if depth >= 3:
        base = [base[2]]
    for cls, shape in base:
        a = np.arange(int(np.prod(shape)), dtype=np.int32).reshape(shape) % 7
        new = {"op": "new", "cls": cls, "array": arr_json(a), "dtype": "int32", "origin": {"l": [fj(Fraction(k, 2)) for k in range(len(shape))]},
               "sampling": {"l": [fj(Fraction(k + 1, 4)) for k in range(len(shape))]}, "units": {"l": [UNITS[k] for k in range(len(shape))]}}
        al = alphabet(shape)
        n = 0
        for combo in itertools.product(range(len(al)), repeat=depth):
            # the alphabet of step k is rebuilt for the shape at hand by index only; ops that no longer fit raise (also compared)
            run_history(ctx, drv, new, [copy.deepcopy(al[c]) for c in combo], stream=f"systematic-depth{depth}", max_ops=depth)
            n += 1
        ctx.dist[f"systematic:depth{depth}:{cls}"] += n


def run_expand(ctx, drv):
    """every container class x data 1, 2, 3 axes short x (scalar-broadcast | per-axis | default) calibration, through
    `from_array` and through the `array` setter (also on base Datasets of ndim 2..5): the coherence clause is evaluated on the
    resulting object (run_history does it after every step) and the state is compared with the model's expand-dims branch."""
    n = 0
    for cls in CLASSES[1:] + ["Dataset"]:
        reqs = [REQ[cls]] if REQ[cls] is not None else [2, 3, 4, 5]
        for nd in reqs:
            for short in (1, 2, 3):
                if nd - short < 1:
                    continue
                small = [2, 3, 2, 3, 2][: nd - short]
                full = [2, 3, 2, 2, 3][:nd]
                a_small = (np.arange(int(np.prod(small)), dtype=np.int16).reshape(small) % 5)
                a_full = (np.arange(int(np.prod(full)), dtype=np.float32).reshape(full) % 7)
                for style in ("scalar", "list", "default"):
                    if style == "scalar":
                        cal = {"origin": {"s": 1}, "sampling": {"s": "1/2"}, "units": {"s": "nm"}}
                    elif style == "list":
                        cal = {"origin": {"l": [fj(Fraction(k, 2)) for k in range(nd)]}, "sampling": {"l": [fj(Fraction(k + 1, 4)) for k in range(nd)]},
                               "units": {"l": [UNITS[k] for k in range(nd)]}}
                    else:
                        cal = {"origin": None, "sampling": None, "units": None}
                    setter = {"op": "set_array", "array": arr_json(a_small), "dtype": "int16"}
                    if REQ[cls] is not None:      # construction from data that are `short` axes short, then an op on the result
                        new = dict({"op": "new", "cls": cls, "array": arr_json(a_small), "dtype": "int16"}, **cal)
                        run_history(ctx, drv, new, [{"op": "getitem", "ix": [{"s": [None, None, None]}], "follow": True}, copy.deepcopy(setter)],
                                    stream="expand-dims", max_ops=2)
                        n += 1
                    new = dict({"op": "new", "cls": cls, "array": arr_json(a_full), "dtype": "float32"}, **cal)
                    run_history(ctx, drv, new, [copy.deepcopy(setter), {"op": "copy", "follow": True}, {"op": "bin", "f": {"one": 1}, "axes": None, "mean": False, "inplace": True}],
                                stream="expand-dims", max_ops=3)
                    n += 1
    ctx.dist["expand-dims:histories"] += n


def run(ctx):
    from qv.driver import Driver
    drv = Driver("C03")
    try:
        if not ctx.search_mode:
            run_expand(ctx, drv)
            run_systematic(ctx, drv, 2)
            if ctx.thorough():
                run_systematic(ctx, drv, 3)
            ctx.extra["bounded_exhaustive"] = ("all sequences of length 2 over a 13-16 letter operation alphabet on 5 base datasets"
                                               + ("; length 3 on the 3-D base dataset" if ctx.thorough() else ""))
        nseq = ctx.n(900, 25000)
        maxd = 40 if ctx.thorough() else 12
        for s in range(nseq):
            rng = ctx.rng.fork(s)
            new = gen_new(rng)
            depth = rng.randint(2, maxd if rng.chance(0.15) else 12)
            run_history(ctx, drv, new, (lambda ds, rng=rng: gen_op(rng, ds)), stream="history", max_ops=depth)
    finally:
        drv.close()


def replay(ctx, rep):
    from qv.driver import Driver
    case = rep.get("case") or (rep.get("correspondence_disagreements") or rep.get("disagreements") or [{}])[0].get("case")
    if not case:
        return True
    drv = Driver("C03")
    try:
        run_history(ctx, drv, case["new"], case["ops"], stream="replay", max_ops=len(case["ops"]))
    finally:
        drv.close()
    return True
