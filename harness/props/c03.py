"""C03 — Dataset containers stay coherent under any history of operations.

Correspondence: random / systematic operation histories on the real quantem `Dataset*`
classes and on the Lean state machine `Model/Dataset.lean` (driver C03), compared after every
step (class, shape, dtype kind, exact data, calibration, error kind).
Property predicate on the implementation (the failing-input search): the clauses of the
statement evaluated on the real objects with NumPy itself as the indexing oracle."""
import copy
import itertools
import json
import warnings
from fractions import Fraction

import numpy as np

LEVEL = "proof"
EXTRA_PROPS = ["QuantemModel.Props.C03Ext"]   # growth 6: refinement to the calibration skeleton machine, negative steps
MANIFEST_ENTRY = {
    "category": "proof",
    "text": "Lean 4 theorems over an executable state-machine model of Dataset/Dataset2d/3d/4d/4dstem (from_array, copy, "
            "origin/sampling/units/array setters, pad, crop, bin, fourier_resample, __getitem__; NumPy index semantics as an "
            "explicit gather with Python slice normalisation, Ellipsis expansion and the advanced-index axis-order rule): the "
            "coherence invariant (one origin/sampling/units entry per axis, class matches ndim, data length = prod shape) holds "
            "after every operation and by induction after every finite history; __getitem__ returns the gathered data with each "
            "result axis carrying the calibration of the source axis it reads (sampling times the slice step), the kept axes being "
            "exactly the non-integer axes, each once, in source order unless NumPy's advanced-index rule puts the list axis first; non-in-place "
            "operations return the receiver unchanged; the subclass methods that return datasets are part of the alphabet and of the "
            "invariant (Dataset4dstem.get_dp_mean/_max/_median, get_virtual_image(mask), Dataset3d.to_dataset2d()[k]): each returns a "
            "coherent Dataset2d carrying exactly the calibration of the axes it keeps (diffraction axes / scan axes / frame axes), "
            "with the mean and the masked sum proved pixel by pixel; the in-place variant of pad/crop/bin/fourier_resample yields the same array "
            "and calibration as the copying variant; exact error guards. Tied to the code on every run by differential execution "
            "of random and bounded-exhaustive (depth 2/3 over the op alphabet) histories, and the statement's clauses are "
            "evaluated on the real objects (NumPy as indexing oracle, bit-identical source check over all live objects, "
            "A heap layer (array buffer / origin / sampling cells with identities) proves the no-sharing contract over every history: "
            "returned datasets of copy/pad/crop/bin/fourier_resample/list indexing/derived datasets hold fresh cells, __getitem__ views share "
            "exactly the array buffer, and no in-place operation, setter or element-wise update on one dataset changes another "
            "(alias_free_all_histories); it is tied to the code by comparing the buffer/calibration sharing pattern of all objects of every "
            "history (.base root identities). dtype kind incl. bool through every operation (dtype_rules), Ellipsis expansion at every position. "
            "in-place vs copy twin execution) as the failing-input search. "
            "Growth 5: the input forms in FRONT of the state machine are modelled (Model/DatasetExt.lean: `_normalize_axes` over None / int / bool / "
            "float (int() truncation) / NumPy scalar (TypeError) / int and float sequences; validate_ndinfo over numeric, bool and string scalars, flat, "
            "nested (flatten), non-numeric, ragged and non-sequence values; validate_units incl. str() of entries; ensure_valid_array over ndarray / "
            "nested list / bare number / ragged; index items as Python or NumPy integers, lists or integer arrays, bare or tuple; from_shape; "
            "copy(copy_custom_attributes)), with inv_stepX / inv_newX / from_shape_spec / axes_forms / ndinfo_forms / stepX_plain. Histories from the "
            "caller's side: a rejected call is a no-op on the whole state and can be erased from any history (rejected_call_is_noop, "
            "rejected_calls_erasable), and inplace_eq_copy is lifted to every finite history incl. rejected calls (mirror_history: in-place calls "
            "replaced by copying calls and vice versa end in the same dataset). Tie: every history is run a second time on the real classes in the "
            "mirrored variant and compared after every call (predicate inplace-vs-copy-history), a reject stream runs every rejection reason of every "
            "operation (invalid component last) inside histories of valid calls, public signatures / defaults / property setters / registry are pinned. "
            "Growth 6 (Props/C03Ext.lean, Model/DatasetAbs.lean): every history, raising calls included, refines to the calibration SKELETON machine - the same "
            "state machine on value-free datasets: class, shape, dtype kind, origin, sampling, units and which calls raise (with which error) never depend on the "
            "array values (step_forget, outcome_value_free, run_forget, skeleton_history_spec); calls that add nothing (pad to a shape nowhere larger / by 0, "
            "bin by 1 on any axes) are identities on shape and calibration in both variants (pad_noop, bin_by_one_noop); a[::-1] and a[::-k] for EVERY axis "
            "length start at the last index, read inside the axis and carry step -1 / -k into the sampling (reversed_slice, neg_step_slice), n-1 / -1 / -n vs "
            "n / -n-1 as integers and list entries (last_index_and_length). Fixed blocks independent of the seed: signed-index (negative / last / == length "
            "integers, reversed and negatively stepped slices with negative bounds, step +-length, lists with negative entries; full product on a H>W Dataset2d, "
            "one varying axis with Ellipsis positions on W>H / 3-D / 4-D bases, reversed datasets carried on through bin / crop / pad / resample / a second "
            "negative step, an axis of length 300), narrow-dtype (int8 / uint8 / int16 / uint16 / bool at the ends of the range: block sums beyond the dtype), "
            "noop (pad to the same shape, crop by 0, bin by 1, resample to the same shape, copies, the read-only surface: result followed / kept aside and then "
            "changed in place; fresh_probe writes through every public route into result and source and requires the other one bit-identical), two-live "
            "(two Dataset4dstem of equal shape and calibration, attached dp_mean / dp_max / dp_median interleaved: each container hands out ITS pattern).",
    "note": "Trusted: Lean kernel + propext/Classical.choice/Quot.sound; NumPy indexing/pad/sum/reshape are modelled (gather "
            "semantics) and only sampled; aliasing is modelled at reference level (which cells are shared), cell contents only as abstract tokens; array values after fourier_resample are not tracked here (C06); "
            "the attach=True side effect of get_dp_*/get_virtual_image (caches on the container) is not in the model: that the attached "
            "patterns keep describing the container is checked on the implementation only (predicate dp-cache-stale); the "
            "`virtual_images` dict is not regenerated by in-place operations (observed, outside the alphabet); max/median values and "
            "mode/geometry masks are not modelled (shape/kind/calibration only); "
            "index expressions with two or more lists, None/newaxis, boolean masks and 0-d results are outside the claim "
            "(the former is exercised as an error stream); duplicate axes in `axes=` are generated for bin and crop (last entry wins, model and code "
            "agree) but not for fourier_resample (the code transforms such an axis twice; nothing in the statement speaks about it); "
            "pad(**kwargs) other than the default zero padding, complex / NaN calibration values and the `metadata` / `file_path` attributes are not modelled; "
            "that a rejected call leaves the object untouched is a theorem about the model and, on the code, a correspondence comparison "
            "(receiver compared after every rejected call) plus the mirror-history predicate - the statement itself only speaks through its "
            "in-place == copying clause. Growth 6: that calls which change nothing keep the array VALUES is measured (noop stream), the theorems speak about shape / "
            "calibration / kind; crop by 0 and fourier_resample to the same shape have no no-op theorem (measured); the read-only surface (__repr__, __str__, dtype, "
            "device, metadata, file_path, mean / min / max) is modelled as a call that changes nothing and compared, not part of a predicate; values of attached "
            "diffraction patterns are checked only where no element write lies between attaching and reading (the cache key of the code does not see element writes).",
    "technique": "Lean 4 proof (invariant by induction over op lists; index-map lemmas) + model-vs-implementation correspondence",
}
RULE = ("a case is one operation applied to a dataset state inside a history; distinct non-trivial = distinct "
        "(op kind, in-place flag, outcome, ndim, class, previous op kind) with history position >= 1")
TRUSTED = ["NumPy basic/advanced indexing, np.pad, np.sum/reshape, np.fft (modelled as gathers / block sums; sampled agreement only)",
           "CPython attribute/property semantics of the Dataset classes"]
ASSUMPTIONS = [
    "array values are small integers (complex: Gaussian integers) so pad/crop/bin/index are exact; after a mean-bin with a "
    "non-power-of-two block volume values are compared with the tolerance rule (1e-9, float32 data 5e-4); after "
    "fourier_resample only shape/dtype kind/calibration are compared with the model (values: C06)",
    "calibration after fourier_resample is compared with relative tolerance 1e-10 over the whole history (the code divides by the rounded float m/n; measured maximum is reported)",
    "resample factors are dyadic or kept 1e-6 away from a rounding tie of n*f",
    "every array handed to Dataset*.from_array / the array setter is drawn over memory-layout classes as well as dtypes and containers: C-contiguous, Fortran order, fully transposed and permuted views, negative strides (np.flip), step-sliced views of a larger buffer, read-only; the logical values (and therefore the model input) never depend on the layout",
    "element-wise / augmented in-place updates (`ds.sampling *= 2`, `ds.origin += 1`, `ds.origin[0] = 3`, `ds.sampling[:] = …`, `ds.array[0,…] = 7`) are part of the op alphabet; element writes into `array` are applied only to datasets whose array is not (and has no live) `__getitem__` view — indexing returns NumPy views by NumPy's own semantics",
    "index-exhaustive stream: per axis {int, ':', '::2', [0, n-1]} (at most one list), every prefix length, an Ellipsis at every position incl. where it stands for zero axes, on datasets with pairwise different per-axis calibration",
    "an integer ndarray as the list item of an index is read as a list (NumPy does; the code has the np.ndarray branch; fix 4b247d4 made it reachable)",
    "mirror history: float / complex data of the two runs are compared with the tolerance rule (1e-9, float32 5e-4; measured maximum reported) because copy() "
    "normalises the memory layout and float summation order follows the layout; integer / bool data, dtype, shape and calibration are compared bit by bit",
    "mirror history: the second object is built from the same request and advanced by the same public calls in the other variant; "
    "element writes into its array go through a writable copy when its buffer is read-only",
    "fresh_probe / two-live are evaluated on the real objects only (no model): independence of source and returned dataset is tested by effect - element writes, "
    "augmented assignments on origin / sampling, a units entry, in-place bin(1) / pad(0) / crop(0) on one object, bit-identical snapshot of the other",
    "narrow-dtype block: values at the ends of the dtype range (int8 100..127 and -128.., uint8 200..255, int16 30000..32767, uint16 60000..65535, bool all True); the model sums exactly",
    "index expressions hold at most one list in the valid stream; for two-list expressions (outside the quantifier) only the fact that both model and implementation raise is compared",
]
EXPLANATION = ("Theorems in Props/C03.lean are about Model/Dataset.lean (+ Model/NdIndex.lean, Model/Resample.lean); every run "
               "drives the real classes and the model with the same histories and compares every intermediate state.")

CLASSES = ["Dataset", "Dataset2d", "Dataset3d", "Dataset4d", "Dataset4dstem"]
REQ = {"Dataset": None, "Dataset2d": 2, "Dataset3d": 3, "Dataset4d": 4, "Dataset4dstem": 4}
DTYPES = ["bool", "int8", "int16", "int32", "int64", "uint8", "uint16", "float32", "float64", "complex64", "complex128"]
UNITS = ["nm", "A", "mrad", "pixels", "s", "1/A"]


# ------------------------------------------------------------------------------------------
# encoding helpers (shared with c06)

def fr(x):
    return Fraction(x)


def fj(q):
    """Fraction -> JSON (int or 'n/d')"""
    q = Fraction(q)
    return int(q) if q.denominator == 1 else f"{q.numerator}/{q.denominator}"


def jf(v):
    return Fraction(v) if not isinstance(v, str) else Fraction(v)


def cls_of(name):
    import quantem.core.datastructures as qd
    return getattr(qd, name)


def kind_of(dt):
    return {"i": "int", "u": "int", "b": "bool", "f": "float", "c": "complex"}.get(np.dtype(dt).kind, "other")


def arr_json(a):
    a = np.asarray(a)
    flat = a.ravel(order="C")
    k = kind_of(a.dtype)
    if k == "complex":
        return {"shape": list(a.shape), "kind": k, "re": [fj(fr(float(z.real))) for z in flat], "im": [fj(fr(float(z.imag))) for z in flat]}
    if k in ("int", "bool"):
        return {"shape": list(a.shape), "kind": k, "re": [int(z) for z in flat], "im": None}
    return {"shape": list(a.shape), "kind": k, "re": [fj(fr(float(z))) for z in flat], "im": None}


def view(ds):
    """canonical observable state of a real Dataset"""
    a = ds.array
    v = arr_json(a)
    v["cls"] = type(ds).__name__
    v["origin"] = [fj(fr(float(x))) for x in np.asarray(ds.origin).ravel()]
    v["sampling"] = [fj(fr(float(x))) for x in np.asarray(ds.sampling).ravel()]
    v["units"] = [str(u) for u in ds.units]
    return v


def safe_view(ds):
    """view() that never raises: a dataset whose attributes cannot even be read is reported, not crashed on"""
    if ds is None:
        return None
    try:
        return view(ds)
    except Exception as e:  # noqa
        return {"cls": type(ds).__name__, "shape": list(getattr(getattr(ds, "_array", None), "shape", [])), "kind": "unreadable",
                "re": None, "im": None, "origin": [], "sampling": [], "units": [], "unreadable": f"{type(e).__name__}: {e}"[:120]}


def err_name(e):
    for n, c in (("ZeroDivisionError", ZeroDivisionError), ("TypeError", TypeError), ("IndexError", IndexError),
                 ("ValueError", ValueError), ("KeyError", KeyError), ("AttributeError", AttributeError)):
        if isinstance(e, c):
            return n
    return "Other:" + type(e).__name__


def snapshot(ds):
    a = ds.array
    return (type(ds).__name__, a.dtype.str, a.shape, a.tobytes(), np.asarray(ds.origin).astype(float).tobytes(), np.asarray(ds.origin).shape,
            np.asarray(ds.sampling).astype(float).tobytes(), np.asarray(ds.sampling).shape, tuple(ds.units))


def snap_diff(a, b):
    names = ["class", "dtype", "shape", "array bytes", "origin", "origin shape", "sampling", "sampling shape", "units"]
    return [n for n, x, y in zip(names, a, b) if x != y]


def num_close(model, impl, tol):
    """model/impl: lists of JSON rationals.  returns (equal_exactly, max relative distance)"""
    if len(model) != len(impl):
        return False, float("inf")
    if model == impl:
        return True, 0.0
    m = [jf(x) for x in model]
    i = [jf(x) for x in impl]
    scale = max([1] + [abs(x) for x in m])
    d = max(abs(x - y) for x, y in zip(m, i)) if m else 0
    return False, float(d / scale)


# ------------------------------------------------------------------------------------------
# generators

def dyadic(rng, lo=-8, hi=8, bits=2):
    return Fraction(rng.randint(lo * (1 << bits), hi * (1 << bits)), 1 << bits)


def gen_shape(rng, ndim, cap=360):
    while True:
        shape = [rng.weighted([(1, 2), (2, 3), (3, 3), (4, 3), (5, 2), (6, 1), (7, 1)]) for _ in range(ndim)]
        if int(np.prod(shape)) <= cap:
            return shape


def gen_array(rng, shape, dtype=None):
    dtype = dtype or rng.choice(DTYPES)
    n = int(np.prod(shape))
    if dtype == "bool":
        return np.array([rng.below(2) for _ in range(n)], dtype=np.int64).reshape(shape).astype(bool)
    lo = 0 if dtype.startswith("uint") else -9
    re = np.array([rng.randint(lo, 9) for _ in range(n)], dtype=np.int64).reshape(shape)
    if dtype.startswith("complex"):
        im = np.array([rng.randint(-9, 9) for _ in range(n)], dtype=np.int64).reshape(shape)
        return (re + 1j * im).astype(dtype)
    return re.astype(dtype)


def gen_ndinfo(rng, ndim, malformed=0.06):
    r = rng.random()
    if r < malformed / 2:
        n = rng.choice([x for x in (0, ndim - 1, ndim + 1, ndim + 2) if x >= 0 and x != ndim])
        return {"l": [fj(dyadic(rng)) for _ in range(n)]}
    if r < malformed:
        # every rejection branch of validate_ndinfo by input form: dict / set (TypeError), bool and str scalars (np.isscalar, not
        # numeric: ValueError), ragged nesting (TypeError), sequences of bools / strings of the right and of a wrong length
        # (ValueError), a rectangular nesting whose flattened length is wrong (ValueError)
        return rng.choice([{"bad": True}, {"bad": True, "alt": 1}, {"form": "bool"}, {"form": "str"}, {"form": "ragged"},
                           {"form": "nonnum", "len": ndim}, {"form": "nonnum", "len": ndim + 1, "alt": 1},
                           {"form": "nested", "rows": [[fj(dyadic(rng)) for _ in range(ndim)] for _ in range(2)]}])
    if r < 0.3:
        return {"s": fj(dyadic(rng)), "alt": rng.below(2)} if rng.chance(0.7) else {"s": rng.randint(-4, 6), "int": "py"}
    if r < 0.38 and ndim >= 1:      # rectangular nesting / 2-D ndarray: validate_ndinfo flattens
        nr = rng.choice([k for k in range(1, ndim + 1) if ndim % k == 0])
        return {"form": "nested", "rows": [[fj(dyadic(rng)) for _ in range(ndim // nr)] for _ in range(nr)], "alt": rng.below(2)}
    if rng.chance(0.3):     # integer-typed calibration: Python int tuple / integer ndarray (stays an int64 array inside the dataset)
        return {"l": [rng.randint(-4, 6) or 1 for _ in range(ndim)], "int": rng.choice(["tuple", "ndarray"])}
    return {"l": [fj(dyadic(rng)) for _ in range(ndim)], "alt": rng.below(2)}


def gen_units(rng, ndim, malformed=0.06):
    r = rng.random()
    if r < malformed / 2:
        n = rng.choice([x for x in (0, ndim - 1, ndim + 1) if x >= 0 and x != ndim])
        return {"l": [rng.choice(UNITS) for _ in range(n)]}
    if r < malformed:
        return {"bad": True}
    if r < 0.25:
        return {"s": rng.choice(UNITS)}
    # list or tuple; an entry that is not a string goes through str()
    return {"l": [rng.choice(UNITS) if not rng.chance(0.06) else rng.randint(-3, 12) for _ in range(ndim)], "alt": rng.below(2)}


def gen_new(rng):
    r = rng.random()
    if r < 0.45:
        cls = "Dataset"
        ndim = rng.weighted([(1, 2), (2, 3), (3, 3), (4, 2), (5, 2)])
    else:
        cls = rng.choice(CLASSES[1:])
        ndim = REQ[cls]
        r2 = rng.random()
        if r2 < 0.15:
            ndim = max(1, ndim - rng.randint(1, 3))         # data 1, 2 or 3 axes short: expand_dims branch, k missing axes
        elif r2 < 0.18:
            ndim = ndim + 1                                 # ValueError branch
    shape = gen_shape(rng, ndim)
    a = gen_array(rng, shape)
    nd_eff = REQ[cls] if REQ[cls] is not None and ndim < REQ[cls] else ndim
    req = {"op": "new", "cls": cls, "array": dict(arr_json(a), layout=gen_layout(rng)), "dtype": a.dtype.name,
           "origin": None if rng.chance(0.25) else gen_ndinfo(rng, nd_eff),
           "sampling": None if rng.chance(0.25) else gen_ndinfo(rng, nd_eff),
           "units": None if rng.chance(0.25) else gen_units(rng, nd_eff)}
    r3 = rng.random()
    if r3 < 0.07:           # Dataset2d/3d/4d(stem).from_shape(shape, fill_value): float32 constant array; the base class has none
        if cls != "Dataset" or rng.chance(0.15):
            req["from_shape"] = {"shape": shape, "fill": fj(dyadic(rng))}
            req["array"] = {"shape": shape, "kind": "float", "layout": "C"}
            req["dtype"] = "float32"
    else:
        gen_array_form(rng, req["array"], a)
    return req


def gen_array_form(rng, aj, a):
    """container class of the data handed to from_array / the array setter: ndarray (default), nested list / tuple (np.array()),
    bare number (rejected), ragged / string nesting (rejected)"""
    r = rng.random()
    if r < 0.10 and a.size > 0:
        aj["form"] = "seq"
        aj["alt"] = rng.below(2)
        aj.pop("layout", None)
        # np.array(list) of Python numbers: int64 / float64 / complex128 (a list of bools is rejected: not np.number)
    elif r < 0.12:
        aj.update({"form": "scalar", "shape": [], "kind": "int", "re": [rng.randint(-3, 3)], "im": None})
        aj.pop("layout", None)
    elif r < 0.14:
        aj.update({"form": "bad", "shape": [2], "kind": "int", "re": [0, 0], "im": None, "alt": rng.below(2)})
        aj.pop("layout", None)


def gen_axes(rng, ndim, malformed=0.05, allow_empty=False, allow_dup=False):
    """the `axes` argument in every form `_normalize_axes` meets: None, int, bool, float (int() truncates toward zero), NumPy
    integer scalar (TypeError), tuple / list of ints or floats, negative axes, unsorted, empty, duplicated (bin / crop only)"""
    r = rng.random()
    if r < 0.3:
        return None
    if r < 0.3 + malformed:
        bad = rng.choice([ndim, ndim + 1, -ndim - 1])
        return rng.choice([{"one": bad}, {"many": [bad]}, {"np": rng.randint(0, ndim - 1)}, {"onef": fj(Fraction(2 * bad + (1 if bad > 0 else -1), 2))},
                           {"many": list(range(ndim - 1)) + [bad]}])
    k = rng.randint(0 if allow_empty and rng.chance(0.1) else 1, ndim)
    axes = sorted(rng.sample(list(range(ndim)), k)) if rng.chance(0.7) else rng.sample(list(range(ndim)), k)
    if allow_dup and axes and rng.chance(0.08):
        axes.insert(rng.randint(0, len(axes)), rng.choice(axes))       # dict(zip(axes, …)): the last entry wins
    axes = [a - ndim if rng.chance(0.25) else a for a in axes]
    frac = lambda a: fj(Fraction(4 * a + (rng.randint(0, 3) if a >= 0 else -rng.randint(0, 3)), 4))  # noqa: int() gives back a
    if len(axes) == 1 and rng.chance(0.5):
        r2 = rng.random()
        if r2 < 0.15:
            return {"onef": frac(axes[0])}
        if r2 < 0.25 and axes[0] in (0, 1):
            return {"one": bool(axes[0])}
        return {"one": axes[0]}
    if rng.chance(0.12):
        return {"manyf": [frac(a) for a in axes]}
    return {"many": axes, "alt": rng.below(2)}


def _trunc(q):
    q = Fraction(q)
    return int(q)        # Fraction.__int__ truncates toward zero, as int(float) does


def axes_list(axes, ndim):
    if axes is None:
        return list(range(ndim))
    if "one" in axes:
        return [int(axes["one"])]
    if "onef" in axes:
        return [_trunc(jf(axes["onef"]))]
    if "np" in axes:
        return [int(axes["np"])]
    if "manyf" in axes:
        return [_trunc(jf(x)) for x in axes["manyf"]]
    return list(axes["many"])


def axes_count(axes, ndim):
    return len(axes_list(axes, ndim))


def gen_index(rng, shape):
    ndim = len(shape)
    r = rng.random()
    nitems = rng.randint(1, ndim)
    if r < 0.04:
        nitems = ndim + 1                     # too many indices
    items = []
    have_list = False
    two_lists = rng.chance(0.04)
    for k in range(nitems):
        n = shape[k] if k < ndim else 1
        t = rng.weighted([("int", 3), ("slice", 5), ("list", 1.5 if (not have_list or two_lists) else 0)])
        if t == "int":
            if n == 0 or rng.chance(0.04):
                items.append({"i": rng.choice([n, n + 1, -n - 1])})
            else:
                items.append({"i": rng.randint(-n, n - 1)})
            if rng.chance(0.15):
                items[-1]["np"] = True            # np.int64 index
        elif t == "slice":
            def bound():
                return None if rng.chance(0.4) else rng.randint(-n - 2, n + 2)
            step = rng.weighted([(None, 4), (1, 1), (2, 3), (3, 1), (-1, 2), (-2, 1), (0, 0.15)])
            items.append({"s": [bound(), bound(), step]})
        else:
            have_list = True
            ln = rng.randint(1, 3) if not rng.chance(0.06) else 0       # empty selection
            if n == 0:
                items.append({"l": []})
            else:
                items.append({"l": [rng.randint(-n, n - 1) if not rng.chance(0.03) else n for _ in range(ln)]})
            if rng.chance(0.25):
                items[-1]["np"] = True            # integer ndarray instead of a list
    if rng.chance(0.3) and nitems <= ndim:
        pos = rng.randint(0, len(items))
        items.insert(pos, "e")
        if nitems == ndim and rng.chance(0.5) and len(items) > 1:   # keep Ellipsis meaningful: drop one real item
            items.pop(pos + 1 if pos + 1 < len(items) else pos - 1)
        if rng.chance(0.03):
            items.append("e")
    # "leave at least one axis": mostly avoid all-integer expressions
    if all(isinstance(it, dict) and "i" in it for it in items) and len(items) == ndim and not rng.chance(0.1):
        k = rng.below(len(items))
        items[k] = {"s": [None, None, None]}
    return items


def py_index(items):
    out = []
    for it in items:
        if it == "e":
            out.append(Ellipsis)
        elif "i" in it:
            out.append(np.int64(it["i"]) if it.get("np") else int(it["i"]))
        elif "l" in it:
            out.append(np.array(it["l"], dtype=np.intp) if it.get("np") else list(it["l"]))
        else:
            out.append(slice(*it["s"]))
    return tuple(out)


def gen_op(rng, ds):
    shape = list(ds.shape)
    ndim = len(shape)
    cname = type(ds).__name__
    big = 1 if int(np.prod(shape)) > 1200 else 0      # growth cap: no more enlarging operations on big arrays (the model's gathers are O(N^2))
    scan_ok = ndim == 4 and all(n > 0 for n in shape)      # reductions over / of empty arrays (nan, NumPy ValueError) are not generated
    kind = rng.weighted([("copy", 1), ("set_origin", 1), ("set_sampling", 1), ("set_units", 1), ("set_array", 1), ("touch", 0.4),
                         ("pad", 2.5 if big < 1 else 0.0), ("crop", 2.5), ("bin", 3), ("resample", 1.6 if big < 1 else 0.0), ("getitem", 5),
                         ("dp", 2.5 if cname == "Dataset4dstem" and scan_ok else 0.0),
                         ("vimg", 2.0 if cname == "Dataset4dstem" else 0.0),
                         ("frame", 2.0 if cname == "Dataset3d" else 0.0),
                         ("elem", 2.2)])
    op = {"op": kind}
    if kind == "elem":      # element-wise / augmented in-place updates through the public attributes
        op["what"] = rng.choice(["sampling*=2", "origin+=1", "origin[0]=3", "sampling[:]=rev", "array[0]=7"])
        return op
    if kind == "dp":
        op["kind"] = rng.choice(["mean", "max", "median"])
        op["attach"] = rng.chance(0.4)
        op["follow"] = rng.chance(0.3)
        return op
    if kind == "vimg":
        msh = shape[-2:] if not rng.chance(0.12) else [shape[-2] + 1, shape[-1]]
        m = np.array([rng.randint(0, 2) for _ in range(int(np.prod(msh)))], dtype=np.int64).reshape(msh)
        op["mask"] = arr_json(m)
        op["attach"] = rng.chance(0.4)
        op["follow"] = rng.chance(0.3)
        return op
    if kind == "frame":
        op["k"] = rng.randint(0, shape[0] - 1) if shape[0] > 0 and not rng.chance(0.1) else shape[0]
        op["follow"] = rng.chance(0.4)
        return op
    if kind == "set_origin" or kind == "set_sampling":
        op["v"] = gen_ndinfo(rng, ndim, malformed=0.15)
    elif kind == "set_units":
        op["v"] = gen_units(rng, ndim, malformed=0.15)
    elif kind == "set_array":
        r = rng.random()
        nd2 = ndim if r < 0.75 else (max(1, ndim - rng.randint(1, 3)) if r < 0.93 else ndim + 1)   # 1..3 axes short / one too many
        a = gen_array(rng, gen_shape(rng, nd2))
        op["array"] = dict(arr_json(a), layout=gen_layout(rng))
        op["dtype"] = a.dtype.name
        gen_array_form(rng, op["array"], a)
    elif kind == "pad":
        op["inplace"] = rng.chance(0.5)
        r = rng.random()
        if r < 0.03:
            op["arg"] = "both"
        elif r < 0.06:
            op["arg"] = "neither"
        elif r < 0.2:
            op["arg"] = {"all": rng.choice([0, 1, 2, 1, -1])}
        elif r < 0.35:
            op["arg"] = {"pair": [rng.randint(0, 2), rng.randint(0, 2)]}
        elif r < 0.6:
            n = ndim if not rng.chance(0.1) else rng.choice([1, ndim + 1, max(1, ndim - 1)])
            op["arg"] = {"per": [[rng.randint(0, 2) if not rng.chance(0.02) else -1, rng.randint(0, 2)] for _ in range(n)]}
        else:
            n = ndim if not rng.chance(0.08) else ndim + rng.choice([-1, 1])
            op["arg"] = {"out": [(shape[k] if k < ndim else 2) + rng.randint(-2, 4) for k in range(max(n, 0))]}
    elif kind == "crop":
        op["inplace"] = rng.chance(0.5)
        op["axes"] = gen_axes(rng, ndim, allow_empty=True, allow_dup=True)
        n = axes_count(op["axes"], ndim)
        if rng.chance(0.07):
            n = max(0, n + rng.choice([-1, 1]))
        ws = []
        for a in (axes_list(op["axes"], ndim) + [0] * 8)[:n]:
            L = shape[a % ndim] if -ndim <= a < ndim else 3
            b = rng.randint(0, max(0, L // 2))
            style = rng.random()
            if style < 0.45:
                e = -rng.randint(0, max(0, (L - b) // 2))      # (before, -after); -0 == 0 -> None
            elif style < 0.85:
                e = rng.randint(b, L + 1)                      # absolute stop
            else:
                e = rng.randint(-L - 1, L + 1)
            ws.append([b if not rng.chance(0.08) else -rng.randint(0, L), e])
        op["widths"] = ws
    elif kind == "bin":
        op["inplace"] = rng.chance(0.5)
        op["axes"] = gen_axes(rng, ndim, allow_empty=True, allow_dup=True)
        n = axes_count(op["axes"], ndim)
        op["mean"] = rng.chance(0.35)
        if rng.chance(0.03):
            op["bad_reducer"] = True
        r = rng.random()
        if r < 0.35:
            op["f"] = {"one": rng.weighted([(1, 1), (2, 5), (3, 3), (4, 1), (0, 0.3), (-1, 0.2)])}
        elif r < 0.97:
            m = n if not rng.chance(0.06) else max(0, n + rng.choice([-1, 1]))
            op["f"] = {"many": [rng.weighted([(1, 2), (2, 5), (3, 3), (4, 1), (5, 0.5), (0, 0.15), (None, 0.15)]) for _ in range(m)]}
        else:
            op["f"] = "bad"
    elif kind == "resample":
        op["inplace"] = rng.chance(0.5)
        op["axes"] = gen_axes(rng, ndim)
        axl = axes_list(op["axes"], ndim)
        n = len(axl)
        r = rng.random()
        if r < 0.03:
            op["arg"] = "both"
        elif r < 0.06:
            op["arg"] = "neither"
        elif r < 0.55:
            m = n if not rng.chance(0.06) else max(0, n + rng.choice([-1, 1]))
            op["arg"] = {"out": [max(0 if rng.chance(0.04) else 1, (shape[a % ndim] if -ndim <= a < ndim else 3) + rng.randint(-3, 3))
                                 for a in (axl + [0] * 8)[:m]]}
        elif r < 0.75:
            op["arg"] = {"f1": fj(Fraction(rng.choice([1, 2, 3, 4, 5, 6, 7, 8, 12]), 4))}
        else:
            m = n if not rng.chance(0.06) else max(0, n + rng.choice([-1, 1]))
            op["arg"] = {"fs": [fj(Fraction(rng.choice([1, 2, 3, 4, 5, 6, 7, 8, 10, 12]), 4)) for _ in range(m)]}
    elif kind == "getitem":
        op["ix"] = gen_index(rng, shape)
        if len(op["ix"]) == 1 and rng.chance(0.5):
            op["bare"] = True                 # ds[x] instead of ds[x,]
    elif kind == "copy":
        if rng.chance(0.3):
            op["custom"] = False              # copy(copy_custom_attributes=False)
    if kind in ("copy", "pad", "crop", "bin", "resample", "getitem") and not op.get("inplace"):
        op["follow"] = rng.chance(0.6)
    return op


# ------------------------------------------------------------------------------------------
# running one operation on the real object

def ndinfo_py(v):
    if v is None:
        return None
    if v.get("int"):        # integer-typed route
        if "s" in v:
            return int(v["s"])
        return tuple(int(x) for x in v["l"]) if v["int"] == "tuple" else np.array([int(x) for x in v["l"]], dtype=np.int64)
    f = v.get("form")
    if f == "bool":
        return True                     # np.isscalar, but np.full(ndim, True) is not numeric -> ValueError
    if f == "str":
        return "1.0"                    # a string is np.isscalar as well -> ValueError
    if f == "ragged":
        return [[1.0, 2.0], [3.0]]      # np.array raises -> TypeError
    if f == "nonnum":
        return [True] * int(v["len"]) if v.get("alt") else ["a"] * int(v["len"])
    if f == "nested":
        rows = [[float(jf(x)) for x in r] for r in v["rows"]]
        return np.array(rows) if v.get("alt") else rows
    if "s" in v:
        return np.float64(float(jf(v["s"]))) if v.get("alt") else float(jf(v["s"]))
    if "l" in v:
        out = [float(jf(x)) for x in v["l"]]
        return tuple(out) if v.get("alt") else out
    return {"not": "numeric"} if not v.get("alt") else {1.0, 2.0}          # TypeError branch (dict / set)


def units_py(v):
    if v is None:
        return None
    if "s" in v:
        return v["s"]
    if "l" in v:
        return tuple(v["l"]) if v.get("alt") else list(v["l"])      # entries may be ints: str() is applied
    return 5                           # TypeError branch


def axes_py(a):
    if a is None:
        return None
    if "one" in a:
        return a["one"] if isinstance(a["one"], bool) else int(a["one"])
    if "onef" in a:
        return float(jf(a["onef"]))          # isinstance(axes, int | float): goes through int()
    if "np" in a:
        return np.int64(a["np"])             # not an int, not iterable
    if "manyf" in a:
        return [float(jf(x)) for x in a["manyf"]]
    return list(int(x) for x in a["many"]) if a.get("alt") else tuple(int(x) for x in a["many"])


LAYOUTS = ["C", "F", "T", "perm", "flip", "step", "ro"]


def gen_layout(rng):
    """memory-layout class of an array handed to the code (the logical values never depend on it)"""
    return rng.weighted([("C", 4), ("F", 2), ("T", 2), ("perm", 1.5), ("flip", 1.5), ("step", 1.5), ("ro", 1)])


def apply_layout(a, layout):
    """the same logical array in another memory layout: Fortran order, transposed / permuted views, negative strides (np.flip),
    step-sliced view of a larger buffer, read-only"""
    a = np.ascontiguousarray(a)
    if layout in (None, "C") or a.ndim == 0:
        return a
    if layout == "F":
        return np.asfortranarray(a)
    if layout == "T":                                   # fully transposed stack: a view whose .T is C-contiguous
        return np.ascontiguousarray(a.T).T
    if layout == "perm":                                # permuted (swapaxes-like) view of a C buffer
        perm = list(range(a.ndim))
        perm = perm[1:] + perm[:1]
        inv = np.argsort(perm)
        return np.ascontiguousarray(a.transpose(perm)).transpose(inv)
    if layout == "flip":                                # negative strides on every axis
        return np.flip(np.ascontiguousarray(np.flip(a)))
    if layout == "step":                                # every second element of a larger buffer along every axis
        big = np.zeros([2 * n for n in a.shape], dtype=a.dtype)
        sl = tuple(slice(None, None, 2) for _ in a.shape)
        big[sl] = a
        return big[sl]
    if layout == "ro":
        b = a.copy()
        b.setflags(write=False)
        return b
    return a


def array_py(aj, dtype):
    form = aj.get("form")
    if form == "scalar":
        return int(jf(aj["re"][0]))
    if form == "bad":
        return [[1, 2], [3]] if aj.get("alt") else ["a", "b"]
    if form == "seq":
        z = array_py({k: v for k, v in aj.items() if k not in ("form", "layout")}, dtype)
        t = z.tolist()
        return tuple(t) if aj.get("alt") else t
    re = np.array([float(jf(x)) for x in aj["re"]], dtype=float)
    if aj.get("im") is not None:
        z = re + 1j * np.array([float(jf(x)) for x in aj["im"]], dtype=float)
    else:
        z = re
    return apply_layout(z.reshape(aj["shape"]).astype(dtype), aj.get("layout"))


def make_new(req):
    cls = cls_of(req["cls"])
    if req.get("from_shape") is not None:
        fs = req["from_shape"]
        return cls.from_shape(tuple(fs["shape"]), fill_value=float(jf(fs["fill"])), origin=ndinfo_py(req["origin"]),
                              sampling=ndinfo_py(req["sampling"]), units=units_py(req["units"]))
    a = array_py(req["array"], req["dtype"])
    return cls.from_array(a, origin=ndinfo_py(req["origin"]), sampling=ndinfo_py(req["sampling"]), units=units_py(req["units"]))


def op_kwargs(op, inplace):
    k = op["op"]
    if k == "pad":
        a = op["arg"]
        if a == "both":
            return dict(pad_width=1, output_shape=(3,), modify_in_place=inplace)
        if a == "neither":
            return dict(modify_in_place=inplace)
        if "all" in a:
            return dict(pad_width=int(a["all"]), modify_in_place=inplace)
        if "pair" in a:
            return dict(pad_width=tuple(a["pair"]), modify_in_place=inplace)
        if "per" in a:
            return dict(pad_width=tuple(tuple(p) for p in a["per"]), modify_in_place=inplace)
        return dict(output_shape=tuple(a["out"]), modify_in_place=inplace)
    if k == "crop":
        return dict(crop_widths=tuple(tuple(w) for w in op["widths"]), axes=axes_py(op["axes"]), modify_in_place=inplace)
    if k == "bin":
        f = op["f"]
        if f == "bad":
            bf = 2.0
        elif "one" in f:
            bf = int(f["one"])
        else:
            bf = tuple(2.5 if x is None else int(x) for x in f["many"])
        red = "median" if op.get("bad_reducer") else ("mean" if op.get("mean") else "sum")
        return dict(bin_factors=bf, axes=axes_py(op["axes"]), modify_in_place=inplace, reducer=red)
    if k == "resample":
        a = op["arg"]
        kw = dict(axes=axes_py(op["axes"]), modify_in_place=inplace)
        if a == "both":
            kw.update(out_shape=(2,), factors=2.0)
        elif a == "neither":
            pass
        elif "out" in a:
            kw.update(out_shape=tuple(a["out"]))
        elif "f1" in a:
            kw.update(factors=float(jf(a["f1"])))
        else:
            kw.update(factors=tuple(float(jf(x)) for x in a["fs"]))
        return kw
    raise KeyError(k)


METHOD = {"pad": "pad", "crop": "crop", "bin": "bin", "resample": "fourier_resample"}


def apply_op(ds, op, inplace=None):
    """returns (returned dataset or None).  raises what the real code raises."""
    k = op["op"]
    if k == "copy":
        return ds.copy() if op.get("custom", True) else ds.copy(copy_custom_attributes=False)
    if k == "read":
        # the read-only public surface (summaries, derived properties, reductions): modelled as a call that changes nothing
        repr(ds), str(ds), ds.dtype, ds.device, ds.metadata, ds.file_path, ds.name, ds.signal_units, ds.shape, ds.ndim
        if ds.array.size:
            with np.errstate(all="ignore"):
                ds.mean(), ds.mean(axes=0), ds.mean(axes=tuple(range(ds.ndim)))
                if ds.array.dtype.kind != "c":
                    ds.min(), ds.max(), ds.min(axes=-1), ds.max(axes=(0,))
        return None
    if k == "touch":
        ds.name = "renamed"
        ds.signal_units = "counts"
        return None
    if k == "set_origin":
        ds.origin = ndinfo_py(op["v"])
        return None
    if k == "set_sampling":
        ds.sampling = ndinfo_py(op["v"])
        return None
    if k == "set_units":
        ds.units = units_py(op["v"])
        return None
    if k == "set_array":
        ds.array = array_py(op["array"], op["dtype"])
        return None
    if k == "getitem":
        ix = py_index(op["ix"])
        return ds[ix[0]] if len(ix) == 1 and op.get("bare") else ds[ix]
    if k == "elem":
        w = op["what"]
        if w == "sampling*=2":
            ds.sampling *= 2
        elif w == "origin+=1":
            ds.origin += 1
        elif w == "origin[0]=3":
            ds.origin[0] = 3
        elif w == "sampling[:]=rev":
            ds.sampling[:] = ds.sampling[::-1].copy()
        else:
            ds.array[(0,) * ds.array.ndim] = 7
        return None
    if k == "dp":
        return getattr(ds, "get_dp_" + op["kind"])(attach=bool(op.get("attach")))
    if k == "vimg":
        m = np.array(op["mask"]["re"], dtype=np.uint8).reshape(op["mask"]["shape"])     # uint8: never changes the dtype kind of array*mask
        return ds.get_virtual_image(mask=m, attach=bool(op.get("attach")), name="vi")
    if k == "frame":
        return ds.to_dataset2d()[int(op["k"])]
    ip = op.get("inplace", False) if inplace is None else inplace
    return getattr(ds, METHOD[k])(**op_kwargs(op, ip))


# ------------------------------------------------------------------------------------------
# independent oracles for the predicate

def _is_int(x):
    return isinstance(x, (int, np.integer)) and not isinstance(x, bool)


def _is_list(x):
    return isinstance(x, (list, np.ndarray))


def expected_axes(ix, ndim):
    """source axis (and slice step) of every result axis of a[ix] by NumPy's documented rule; at most one list."""
    ix = list(ix)
    adv0 = [i for i, x in enumerate(ix) if _is_int(x) or _is_list(x)]      # positions in the expression as written:
    separated = bool(adv0) and adv0[-1] - adv0[0] + 1 != len(adv0)          # an Ellipsis separates even if it is empty
    if any(x is Ellipsis for x in ix):
        p = [i for i, x in enumerate(ix) if x is Ellipsis][0]
        ix = ix[:p] + [slice(None)] * (ndim - (len(ix) - 1)) + ix[p + 1:]
    ix = ix + [slice(None)] * (ndim - len(ix))
    lists = [i for i, x in enumerate(ix) if _is_list(x)]
    kept = [i for i, x in enumerate(ix) if not _is_int(x)]
    if lists and separated:
        kept = lists + [i for i in kept if i not in lists]
    return [(a, (ix[a].step if isinstance(ix[a], slice) and ix[a].step is not None else 1)) for a in kept]


def numpy_axis_probe(shape, ix):
    """which source axis varies along each result axis, read off NumPy itself (None where undecidable)"""
    res = []
    grids = np.indices(shape) if int(np.prod(shape)) > 0 else None
    if grids is None:
        return None
    rs = [g[ix] for g in grids]
    out_ndim = rs[0].ndim
    for k in range(out_ndim):
        if rs[0].shape[k] < 2 or rs[0].size == 0:
            res.append(None)
            continue
        cand = [a for a, r in enumerate(rs) if np.any(np.diff(r, axis=k) != 0)]
        res.append(cand[0] if len(cand) == 1 else None)
    return res


def check_coherent(ctx, ds, case, who):
    nd = ds.array.ndim
    name = type(ds).__name__
    o, s, u = np.asarray(ds.origin), np.asarray(ds.sampling), ds.units
    bad = []
    if o.ndim != 1 or len(o) != nd:
        bad.append(f"origin has {o.shape} entries for ndim {nd}")
    if s.ndim != 1 or len(s) != nd:
        bad.append(f"sampling has {s.shape} entries for ndim {nd}")
    if not isinstance(u, list) or len(u) != nd:
        bad.append(f"units has {len(u)} entries for ndim {nd}")
    if name not in REQ or (REQ[name] is not None and REQ[name] != nd):
        bad.append(f"class {name} with ndim {nd}")
    if ds.shape != ds.array.shape or ds.ndim != nd:
        bad.append("shape/ndim attributes disagree with the array")
    if bad:
        ctx.pred_fail(f"incoherent-after-{case['ops'][-1]['op']}", f"{who}: " + "; ".join(bad), case,
                      observed={"cls": name, "shape": list(ds.array.shape), "origin": o.tolist(), "sampling": s.tolist(), "units": list(u)},
                      required="one origin/sampling/units entry per axis and class matching ndim")


def check_getitem(ctx, src_arr, src_cal, ret, op, case):
    ix = py_index(op["ix"])
    nlists = sum(1 for x in ix if _is_list(x))
    if nlists > 1:
        return
    want = src_arr[ix]
    got = ret.array
    if not (isinstance(want, np.ndarray) and got.shape == want.shape and got.dtype == want.dtype and np.array_equal(got, want)):
        ctx.pred_fail("getitem-data", "ds[ix].array differs from ds.array[ix]", case,
                      observed={"shape": list(got.shape), "dtype": str(got.dtype)}, required={"shape": list(np.shape(want))})
        return
    exp = expected_axes(ix, src_arr.ndim)
    probe = numpy_axis_probe(src_arr.shape, ix)
    if probe is not None:
        for k, a in enumerate(probe):
            if a is not None and (k >= len(exp) or exp[k][0] != a):
                ctx.pred_fail("oracle-self-check", "harness axis-order oracle disagrees with NumPy", case, observed=probe, required=[e[0] for e in exp])
                return
    o, s, u = src_cal
    if not (len(o) == len(s) == len(u) == src_arr.ndim):
        return          # the source itself is incoherent (already reported by check_coherent): no calibration to carry over
    req_o = [o[a] for a, _ in exp]
    req_s = [fr(float(s[a]) * st) for a, st in exp]      # the float product, as the statement is about float calibration
    req_u = [u[a] for a, _ in exp]
    got_o = [fr(float(x)) for x in np.asarray(ret.origin).ravel()]
    got_s = [fr(float(x)) for x in np.asarray(ret.sampling).ravel()]
    if got_o != req_o or got_s != req_s or list(ret.units) != req_u:
        adv_sep = [e[0] for e in exp] != sorted(e[0] for e in exp)
        key = "getitem-calib-order-int-slice-list" if adv_sep else "getitem-calib"
        ctx.pred_fail(key, "calibration of ds[ix] does not describe the returned axes (kept axes in result order, sampling*step)", case,
                      observed={"origin": [str(x) for x in got_o], "sampling": [str(x) for x in got_s], "units": list(ret.units)},
                      required={"origin": [str(x) for x in req_o], "sampling": [str(x) for x in req_s], "units": req_u,
                                "result_axes_from_source_axes": [e[0] for e in exp]})


def check_derived(ctx, src_arr, src_cal, ret, op, case):
    """datasets derived from a Dataset4dstem / Dataset3d: class, data (NumPy oracle) and the calibration of the axes they keep"""
    o, s, u = src_cal
    if not (len(o) == len(s) == len(u) == src_arr.ndim):
        return
    k = op["op"]
    with np.errstate(all="ignore"):
        if k == "dp":
            want = {"mean": np.mean, "max": np.max, "median": np.median}[op["kind"]](src_arr, axis=(0, 1))
            axes = [2, 3]
        elif k == "vimg":
            m = np.array(op["mask"]["re"], dtype=np.int64).reshape(op["mask"]["shape"])
            want = np.einsum("abcd,cd->ab", src_arr.astype(np.complex128 if np.iscomplexobj(src_arr) else np.float64), m.astype(np.float64))
            axes = [0, 1]
        else:
            want = src_arr[int(op["k"])]
            axes = [1, 2]
    got = ret.array
    if k != "vimg" and not (k == "dp" and op["kind"] == "mean" and got.dtype.kind in "fc"):
        same = got.shape == want.shape and np.array_equal(got, want, equal_nan=True)
    else:       # sums of float data: the summation order depends on the memory layout       # float data (after fourier_resample): summation order differs from the oracle's; tolerance rule, exact on integer data
        tol = 0.0 if got.dtype.kind in "iu" else (5e-4 if got.dtype.itemsize // (2 if got.dtype.kind == "c" else 1) < 8 else 1e-9)
        same = got.shape == want.shape and (got.size == 0 or float(np.max(np.abs(got - want))) <= tol * max(1.0, float(np.max(np.abs(want)))))
    if type(ret).__name__ != "Dataset2d" or not same:
        ctx.pred_fail(f"derived-{k}-data", f"{k}: returned dataset is not the Dataset2d holding the reduced data", case,
                      observed={"cls": type(ret).__name__, "shape": list(got.shape)}, required={"cls": "Dataset2d", "shape": list(want.shape)})
        return
    got_cal = cal_of(ret)
    req = ([o[a] for a in axes], [s[a] for a in axes], [u[a] for a in axes])
    if got_cal != req:
        ctx.pred_fail(f"derived-{k}-calib", f"{k}: returned dataset does not carry the calibration of source axes {axes}", case,
                      observed=[[str(x) for x in got_cal[0]], [str(x) for x in got_cal[1]], got_cal[2]],
                      required=[[str(x) for x in req[0]], [str(x) for x in req[1]], req[2]])


def check_attached(ctx, ds, case):
    """a Dataset4dstem container stays coherent as a whole: the mean/max/median diffraction patterns it hands out
    (`dp_mean`, `dp_max`, `dp_median` properties; cached by get_dp_*(attach=True)) describe its *current* diffraction axes"""
    if ds.array.ndim != 4 or ds.array.size == 0 or not (len(ds.origin) == len(ds.sampling) == len(ds.units) == 4):
        return      # reductions of empty arrays (nan / NumPy ValueError in np.median) are outside the stream
    o, s, u = cal_of(ds)
    for nm in ("mean", "max", "median"):
        if not hasattr(ds, "_dp_" + nm):
            continue
        try:
            with np.errstate(all="ignore"):
                d2 = getattr(ds, "dp_" + nm)
        except Exception as e:  # noqa
            ctx.pred_fail("dp-property-raises", f"ds.dp_{nm} raised {err_name(e)} on a non-empty dataset", case, observed=str(e)[:100], required="Dataset2d")
            return
        c = cal_of(d2)
        if tuple(d2.shape) != tuple(ds.shape[-2:]) or c != (o[2:], s[2:], u[2:]):
            ctx.pred_fail("dp-cache-stale", f"ds.dp_{nm} (attached by get_dp_{nm}) no longer describes the dataset's diffraction axes "
                          f"after {case['ops'][-1]['op']}", case,
                          observed={"shape": list(d2.shape), "sampling": [str(x) for x in c[1]], "origin": [str(x) for x in c[0]], "units": c[2]},
                          required={"shape": list(ds.shape[-2:]), "sampling": [str(x) for x in s[2:]], "origin": [str(x) for x in o[2:]], "units": u[2:]})
            return


def root_id(a):
    """identity of the buffer an array is (a view of)"""
    a = np.asarray(a) if not isinstance(a, np.ndarray) else a
    while isinstance(getattr(a, "base", None), np.ndarray):
        a = a.base
    return id(a)


HEAP_NAME = {"pad": "pad", "crop": "crop", "bin": "bin", "resample": "resample"}


def heap_ops_for(op, idx):
    """the reference-level description of a successful operation (Model/DatasetHeap.lean)"""
    k = op["op"]
    if k in HEAP_NAME:
        return [[HEAP_NAME[k] + ("Ip" if op.get("inplace") else "Cp"), idx]]
    if k == "copy":
        return [["copy", idx]]
    if k == "getitem":
        return [["getitemCopy" if any(isinstance(it, dict) and "l" in it for it in op["ix"]) else "getitemView", idx]]
    if k == "frame":
        return [["getitemView", idx]]
    if k in ("dp", "vimg"):
        return [["derived", idx]]
    if k == "set_origin":
        return [["setOrigin", idx]]
    if k == "set_sampling":
        return [["setSampling", idx]]
    if k == "set_array":
        return [["setArray", idx]]
    if k == "elem":
        w = op["what"]
        if w == "sampling*=2":          # augmented assignment on a property: in-place write, then the setter stores a new array
            return [["writeSampling", idx], ["setSampling", idx]]
        if w == "origin+=1":
            return [["writeOrigin", idx], ["setOrigin", idx]]
        if w == "origin[0]=3":
            return [["writeOrigin", idx]]
        if w == "sampling[:]=rev":
            return [["writeSampling", idx]]
        return [["writeArray", idx]]
    return []


def cal_of(ds):
    return ([fr(float(x)) for x in np.asarray(ds.origin).ravel()], [fr(float(x)) for x in np.asarray(ds.sampling).ravel()], list(ds.units))


def same_result(a, b):
    """array and calibration of two datasets bit-identical"""
    sa, sb = snapshot(a), snapshot(b)
    return [n for n in snap_diff(sa, sb) if n != "class"] + ([] if type(a) is type(b) else ["class"])


# ------------------------------------------------------------------------------------------
# mirror history: the same history run with the OTHER variant (in place <-> copying) of every pad / crop / bin /
# fourier_resample call, rejected calls included

def mirror_step(ctx, shadow, cur, ret, op, res, case):
    """advance the mirror object by the same public call in the other variant and compare it with the object the history
    continues on.  Returns the next mirror object (None: mirroring ends)."""
    kind = op["op"]
    ip = bool(op.get("inplace"))
    sret = None
    try:
        if kind in METHOD:
            if ip:                       # history ran in place: the mirror runs the copying variant and continues on what it returns
                sret = apply_op(shadow, op, inplace=False)
            elif op.get("follow"):       # history continues on the returned copy: the mirror modifies itself in place
                apply_op(shadow, op, inplace=True)
            else:                        # the returned copy is dropped by the history: the very same call on the mirror
                apply_op(shadow, op, inplace=False)
        else:
            if kind == "elem" and op.get("what") == "array[0]=7" and not shadow.array.flags.writeable:
                shadow.array = np.array(shadow.array)       # same values in a writable buffer (public array setter)
            sret = apply_op(shadow, op)
        serr = None
    except Exception as e:  # noqa
        serr = err_name(e)
    if (serr is None) != ("err" not in res):
        return None         # different outcome on equal states: reported by the per-call twin check (inplace-vs-copy-outcome-*)
    if serr is None:
        if kind in METHOD:
            if ip:
                shadow = sret
        elif sret is not None and op.get("follow"):
            shadow = sret
    nxt = ret if (ret is not None and op.get("follow")) else cur
    if shadow is None or nxt is None:
        return None
    try:
        d = same_result(nxt, shadow)
        if d == ["array bytes"] and nxt.array.dtype.kind in "fc":
            # float data only: copy() normalises the memory layout (C order) while the in-place run keeps the layout the earlier
            # operations produced, and the summation order of np.sum / np.mean / the FFT follows the layout -- the two runs may
            # differ in the last bits.  Tolerance rule of DESIGN section 3 (float64 1e-9, float32 5e-4); integer data stay exact.
            a, b = nxt.array, shadow.array
            comp = a.dtype.itemsize // (2 if a.dtype.kind == "c" else 1)
            tol = 5e-4 if comp < 8 else 1e-9
            with np.errstate(all="ignore"):
                fin = np.isfinite(a) & np.isfinite(b)
                same_special = np.array_equal(np.isfinite(a), np.isfinite(b)) and np.array_equal(a[~fin], b[~fin], equal_nan=True)
                dist = float(np.max(np.abs(a[fin] - b[fin]))) / max(1.0, float(np.max(np.abs(b[fin])))) if fin.any() else 0.0
            if same_special and dist <= tol:
                ctx.stat_max("mirror_float_data_rel_distance", dist)
                d = []
    except Exception as e:  # noqa
        d = [f"unreadable: {type(e).__name__}"]
    ctx.dist["mirror:compared"] += 1
    if "err" in res:
        ctx.dist["mirror:compared-after-rejected:" + kind + (":inplace" if ip else "")] += 1
    if d:
        what = ("a rejected call left one of the two objects changed" if "err" in res else "the two histories produce different array/calibration")
        ctx.pred_fail("inplace-vs-copy-history", "the same history of public calls run with the in-place and with the copying variants "
                      f"(rejected calls included) disagrees after step {len(case['ops'])} ({kind}): {what}", case,
                      observed={"differs": d, "history": safe_cal(nxt), "mirror": safe_cal(shadow)},
                      required="bit-identical array and calibration in both runs")
        return None
    return shadow


def safe_cal(ds):
    try:
        return {"shape": list(ds.array.shape), "dtype": str(ds.array.dtype), "origin": [str(x) for x in cal_of(ds)[0]],
                "sampling": [str(x) for x in cal_of(ds)[1]], "units": list(ds.units)}
    except Exception as e:  # noqa
        return {"unreadable": type(e).__name__}


# ------------------------------------------------------------------------------------------
# one history

def compare_view(ctx, stream, case, m, iv, flags, what):
    """m: model ds json, iv: impl view.  returns True when they agree"""
    if m is None or iv is None:
        if m is not iv:
            ctx.disagree(stream, case, m, iv, note=what)
            return False
        return True
    for k in ("cls", "shape", "kind", "units"):
        if m[k] != iv[k]:
            ctx.disagree(stream, case, {k: m[k]}, {k: iv[k]}, note=f"{what}: {k}")
            return False
    for k in ("origin", "sampling"):
        eq, d = num_close(m[k], iv[k], 0)
        if not eq:
            if flags["meta_inexact"] and d <= 1e-10:
                ctx.stat_max("calibration_rel_distance_after_resample", d)
            else:
                ctx.disagree(stream, case, {k: m[k]}, {k: iv[k]}, note=f"{what}: {k}")
                return False
    if m["re"] is not None:
        for k in ("re", "im"):
            if m[k] is None:
                continue
            eq, d = num_close(m[k], iv[k], 0)
            if not eq:
                tol = 5e-4 if flags.get("f32") else 1e-9
                if flags["data_inexact"] and d <= tol:
                    ctx.stat_max("data_rel_distance_after_inexact_mean", d)
                else:
                    ctx.disagree(stream, case, {k: m[k]}, {k: iv[k]}, note=f"{what}: data {k}")
                    return False
    return True


def pow2(n):
    return n > 0 and (n & (n - 1)) == 0


def run_history(ctx, drv, new_req, ops_or_gen, stream="history", max_ops=12):
    """ops_or_gen: list of ops, or callable(rng-free) (ds) -> op generating the next op from the current real object."""
    warnings.simplefilter("ignore")
    reqs = [dict(new_req)]
    records = []     # per request: dict(impl result, views …)
    flags = {"meta_inexact": False, "data_inexact": False, "f32": False, "untracked": False}
    is_view = False      # the current object's array is (a view of) a view handed out by __getitem__
    case_ops = []
    # ---- implementation side
    try:
        cur = make_new(new_req)
        res0 = {"ok": None}
    except Exception as e:  # noqa
        cur = None
        res0 = {"err": err_name(e)}
    records.append({"res": res0, "recv": safe_view(cur), "ret": None, "flags": dict(flags)})
    ctx.dist["new:" + new_req["cls"] + ":" + (res0.get("err") or "ok")] += 1
    if cur is not None:
        ctx.dist[f"ndim:{cur.ndim}"] += 1
        ctx.dist["dtype:" + str(cur.array.dtype)] += 1
        ctx.dist["layout:" + str(new_req["array"].get("layout", "C"))] += 1
        ctx.dist["new-form:" + ("from_shape" if new_req.get("from_shape") else str(new_req["array"].get("form", "ndarray")))] += 1
        check_coherent(ctx, cur, {"new": new_req, "ops": [{"op": "new"}]}, "constructed dataset")
    shadow = None    # mirror object: same construction, every later call in the other variant (see mirror_step)
    if cur is not None:
        try:
            shadow = make_new(new_req)
        except Exception:  # noqa
            shadow = None
    live = []        # (object, snapshot) of every other dataset created in this history
    heap_objs = [cur] if cur is not None else []      # every dataset object of the history, in creation order
    heap_ops = [["new"]] if cur is not None else []
    prev_kind = "new"
    i = 0
    while cur is not None and i < max_ops and cur.array.size <= 6000:
        if callable(ops_or_gen):
            op = ops_or_gen(cur)
        else:
            if i >= len(ops_or_gen):
                break
            op = ops_or_gen[i]
        i += 1
        case_ops.append(op)
        case = {"new": new_req, "ops": list(case_ops)}
        kind = op["op"]
        before = snapshot(cur)
        src_arr = cur.array.copy()
        src_cal = cal_of(cur)
        if kind == "elem":
            # element writes into the data only where the contract is "a new dataset": results of __getitem__ are NumPy
            # views of the source by NumPy's own semantics (the statement says "the NumPy-indexed data") and are excluded
            if op["what"] == "array[0]=7" and (is_view or cur.array.size == 0 or flags.get("untracked") or not cur.array.flags.writeable):
                op["what"] = "origin+=1"
            o_, s_, _u = src_cal
            w = op["what"]
            if w == "sampling*=2":
                op["model"] = {"op": "set_sampling", "v": {"l": [fj(2 * x) for x in s_]}}
            elif w == "origin+=1":
                op["model"] = {"op": "set_origin", "v": {"l": [fj(x + 1) for x in o_]}}
            elif w == "origin[0]=3":
                op["model"] = {"op": "set_origin", "v": {"l": [fj(3)] + [fj(x) for x in o_[1:]]}}
            elif w == "sampling[:]=rev":
                op["model"] = {"op": "set_sampling", "v": {"l": [fj(x) for x in s_[::-1]]}}
            else:
                a2 = src_arr.copy()
                a2[(0,) * a2.ndim] = 7
                op["model"] = {"op": "set_array", "array": arr_json(a2)}
        has_ip = kind in METHOD
        twin = copy.deepcopy(cur) if has_ip else None
        ret = None
        try:
            ret = apply_op(cur, op)
            res = {"ok": None}
        except Exception as e:  # noqa
            res = {"err": err_name(e)}
        ip = bool(op.get("inplace"))
        if "err" not in res:
            heap_ops += heap_ops_for(op, [k for k, o_ in enumerate(heap_objs) if o_ is cur][0])
            if ret is not None:
                heap_objs.append(ret)
        if ret is not None and ret.ndim == 0:
            op["follow"] = False      # 0-d result (ds[i, ...]): outside the quantifier, compared but not continued
        # bookkeeping of inexactness (for the comparison with the exact model only)
        if "err" not in res:
            if kind == "resample":
                flags["meta_inexact"] = True
                flags["untracked"] = True
            if kind == "set_array":
                flags["untracked"] = False
            if (kind in ("pad", "bin", "resample") and ip) or kind == "set_array":
                is_view = False       # the array was rebound to a fresh one
            if (kind == "bin" and op.get("mean")) or (kind == "dp" and op.get("kind") == "mean"):
                flags["data_inexact"] = True
            if kind == "set_array":
                flags["data_inexact"] = False
        tgt = ret if ret is not None else cur
        flags["f32"] = tgt.array.dtype.itemsize // (2 if tgt.array.dtype.kind == "c" else 1) < 8 and tgt.array.dtype.kind in "fc"
        records.append({"res": res, "recv": safe_view(cur), "ret": safe_view(ret), "flags": dict(flags)})
        reqs.append({k: v for k, v in op.get("model", op).items() if k not in ("dtype", "attach", "model")})
        ctx.count()
        ctx.dist[f"op:{kind}" + (":inplace" if ip else "")] += 1
        ctx.dist["outcome:" + (res.get("err") or "ok")] += 1
        if i >= 2 or True:
            ctx.mark((kind, ip, res.get("err") or "ok", len(src_arr.shape), before[0], prev_kind))
        prev_kind = kind
        # ---------------- property predicate on the implementation ----------------
        after = snapshot(cur)
        if "err" in res:
            if kind == "getitem":
                ix = py_index(op["ix"])
                try:
                    want = src_arr[ix]
                    valid = isinstance(want, np.ndarray) and want.ndim >= 1 and sum(1 for x in ix if _is_list(x)) <= 1
                except Exception:  # noqa
                    valid = False
                if valid:
                    ctx.pred_fail("getitem-raises", f"ds[ix] raised {res['err']} although ds.array[ix] is a valid index leaving at least one axis",
                                  case, observed=res, required={"shape": list(want.shape)})
            # a raising operation is still part of the history: the receiver must stay coherent (whether it stayed
            # *unchanged* is a model/implementation correspondence matter, compared below)
            check_coherent(ctx, cur, case, "receiver after a raising operation")
            # an operation whose contract is "returns a new dataset, source bit-identical" keeps that contract when it is
            # rejected instead of returning (copying variants, copy, indexing, derived datasets).  Rejected IN-PLACE calls are
            # covered by the mirror history (in-place run == copying run), rejected setters by the correspondence.
            if kind in ("copy", "getitem", "dp", "vimg", "frame") or (kind in METHOD and not op.get("inplace")):
                if after != before:
                    ctx.pred_fail(f"source-changed-by-rejected-{kind}", f"{kind} (a call that returns a new dataset) was rejected with {res['err']} "
                                  "and left the source changed", case, observed=snap_diff(before, after), required="source bit-identical (data and calibration)")
        else:
            check_coherent(ctx, cur, case, "receiver")
            if ret is not None:
                check_coherent(ctx, ret, case, "returned dataset")
                # (a) operations that return a new dataset leave the source bit-identical
                if after != before:
                    ctx.pred_fail(f"source-changed-{kind}", f"{kind} returned a new dataset but changed the source", case,
                                  observed=snap_diff(before, after), required="source bit-identical (data and calibration)")
            if kind == "getitem":
                check_getitem(ctx, src_arr, src_cal, ret, op, case)
            if kind in ("dp", "vimg", "frame") and ret is not None:
                check_derived(ctx, src_arr, src_cal, ret, op, case)
            if before[0] == "Dataset4dstem" and type(cur).__name__ == "Dataset4dstem":
                check_attached(ctx, cur, case)
            if ret is not None and type(ret).__name__ == "Dataset4dstem":
                check_attached(ctx, ret, case)
        # (b) every other live dataset of the history stays bit-identical (aliasing)
        for obj, snap in live:
            now = snapshot(obj)
            if now != snap:
                ctx.pred_fail(f"alias-changed-by-{kind}", f"{kind} on one dataset changed another dataset of the history", case,
                              observed=snap_diff(snap, now), required="bit-identical")
                break
        # (c) in-place variant == copying variant (twin execution on a deep copy)
        if has_ip:
            tret = None
            try:
                tret = apply_op(twin, op, inplace=not ip)
                tres = {"ok": None}
            except Exception as e:  # noqa
                tres = {"err": err_name(e)}
            if ("err" in res) != ("err" in tres) or res.get("err") != tres.get("err"):
                ctx.pred_fail(f"inplace-vs-copy-outcome-{kind}", "in-place and copying variants differ in outcome", case,
                              observed={"inplace" if ip else "copy": res, "copy" if ip else "inplace": tres}, required="same outcome")
            elif "err" not in res:
                a_obj = cur if ip else ret        # result of the variant actually run
                b_obj = tret if ip else twin      # result of the other variant
                d = same_result(a_obj, b_obj) if a_obj is not None and b_obj is not None else ["missing result"]
                if d:
                    ctx.pred_fail(f"inplace-vs-copy-{kind}", "in-place and copying variants produce different array/calibration", case,
                                  observed=d, required="bit-identical array and calibration")
        # (d) mirror history: in-place calls <-> copying calls over the whole history, rejected calls included
        if shadow is not None:
            shadow = mirror_step(ctx, shadow, cur, ret, op, res, case)
        # continue on the returned dataset or on the receiver
        if ret is not None:
            if op.get("follow"):
                live.append((cur, snapshot(cur)))
                cur = ret
                is_view = kind in ("getitem", "frame")      # every other returning operation hands out a dataset with its own array
                if kind in ("dp", "vimg"):
                    flags["untracked"] = kind == "dp" and op.get("kind") != "mean"
            else:
                live.append((ret, snapshot(ret)))
                if kind in ("getitem", "frame"):
                    is_view = True        # a view of the current array is alive: element writes into it would show there (NumPy semantics)
        live = live[-6:]
        if "err" in res and kind != "getitem" and res["err"].startswith("Other"):
            break
    # ---- reference bookkeeping: which objects hold the same buffer / calibration arrays (heap layer of the model)
    if heap_objs and len(heap_objs) >= 2:
        hm = drv.ask({"op": "heap", "ops": heap_ops})
        if "driver" in str(hm.get("err", "")):
            raise RuntimeError(f"driver error {hm}")
        rb = [root_id(o_.array) for o_ in heap_objs]
        rc = [(root_id(o_.origin), root_id(o_.sampling)) for o_ in heap_objs]
        ibuf = [[a == b for b in rb] for a in rb]
        ical = [[bool(set(a) & set(b)) for b in rc] for a in rc]
        ctx.dist["heap:histories"] += 1
        if hm["buf"] != ibuf or hm["cal"] != ical:
            ctx.disagree("heap", {"new": new_req, "ops": list(case_ops)}, {"buf": hm["buf"], "cal": hm["cal"]}, {"buf": ibuf, "cal": ical},
                         note="which datasets of the history share array buffers / calibration arrays")
    # ---- model side
    answers = drv.ask_many(reqs)
    for j, (rq, ans, rec) in enumerate(zip(reqs, answers, records)):
        if "driver" in str(ans.get("err", "")):
            raise RuntimeError(f"driver error {ans} on {json.dumps(rq)[:300]}")
        case = {"new": new_req, "ops": case_ops[:j]}
        mres = ans["r"]
        ires = rec["res"]
        if rq.get("op") == "getitem" and sum(1 for it in rq["ix"] if isinstance(it, dict) and "l" in it) >= 2 and "err" in mres and "err" in ires:
            # two or more lists: outside the property's quantifier (pointwise indexing, no axis calibration exists); both sides
            # must raise, the *kind* of NumPy's error (IndexError vs the later ValueError) depends on NumPy-internal check order
            ctx.dist["getitem:multi-list-raises"] += 1
            continue
        if ("err" in mres) != ("err" in ires) or mres.get("err") != ires.get("err"):
            ctx.disagree(stream, case, {"r": {"err": mres.get("err")} if "err" in mres else "ok"},
                         {"r": {"err": ires.get("err")} if "err" in ires else "ok"}, note=f"step {j} {rq['op']}: outcome")
            break
        mrecv = ans.get("st") if j == 0 else ans.get("recv")
        if not compare_view(ctx, stream, case, mrecv, rec["recv"], rec["flags"], f"step {j} {rq['op']}: receiver"):
            break
        if "err" not in mres:
            if not compare_view(ctx, stream, case, mres.get("ok"), rec["ret"], rec["flags"], f"step {j} {rq['op']}: returned"):
                break
    if len(case_ops) >= 2:
        ctx.sample({"new": {k: (v if k != "array" else {"shape": v["shape"], "kind": v["kind"]}) for k, v in new_req.items()},
                    "ops": [{k: v for k, v in o.items() if k != "array"} for o in case_ops[:5]]}, limit=3)


# ------------------------------------------------------------------------------------------
# systematic alphabet (bounded-exhaustive depth 2 / 3)

def alphabet(shape):
    nd = len(shape)
    full = {"s": [None, None, None]}
    ops = [
        {"op": "copy", "follow": True},
        {"op": "set_sampling", "v": {"s": "1/2"}},
        {"op": "set_units", "v": {"s": "nm"}},
        {"op": "pad", "arg": {"out": [n + 1 for n in shape]}, "inplace": True},
        {"op": "pad", "arg": {"pair": [1, 0]}, "inplace": False, "follow": True},
        {"op": "crop", "widths": [[1, 0]], "axes": {"one": -1}, "inplace": True},
        {"op": "crop", "widths": [[0, -1]] * nd, "axes": None, "inplace": False, "follow": True},
        {"op": "bin", "f": {"one": 2}, "axes": None, "mean": False, "inplace": True},
        {"op": "bin", "f": {"many": [2]}, "axes": {"many": [nd - 1]}, "mean": True, "inplace": False, "follow": True},
        {"op": "resample", "arg": {"f1": "3/2"}, "axes": {"one": 0}, "inplace": True},
        {"op": "resample", "arg": {"out": [3]}, "axes": {"many": [-1]}, "inplace": False, "follow": True},
        {"op": "getitem", "ix": [{"s": [None, None, 2]}], "follow": True},
        {"op": "getitem", "ix": ["e", {"s": [1, None, -1]}], "follow": True},
    ]
    ops.append({"op": "elem", "what": "sampling*=2"})        # element-wise updates on whatever dataset the history continues on
    ops.append({"op": "elem", "what": "origin+=1"})
    if nd >= 2:
        ops.append({"op": "getitem", "ix": [{"i": 0}], "follow": True})
        ops.append({"op": "getitem", "ix": [full, {"l": [0, 0]}], "follow": True})
    if nd >= 3:
        ops.append({"op": "getitem", "ix": [{"i": 0}, full, {"l": [1, 0]}], "follow": True})
    if nd == 3:       # the 3-D base dataset of the systematic stream is a Dataset3d
        ops.append({"op": "frame", "k": 1, "follow": False})
    if nd == 4:       # … the 4-D one a Dataset4dstem: attach the mean pattern, so that later letters act on a container with a cache
        ops.append({"op": "dp", "kind": "mean", "attach": True, "follow": False})
        ops.append({"op": "vimg", "mask": arr_json(np.ones(shape[-2:], dtype=np.int64)), "attach": True, "follow": False})
    return ops


def run_systematic(ctx, drv, depth):
    import itertools
    base = [("Dataset", [5]), ("Dataset2d", [4, 5]), ("Dataset3d", [3, 4, 4]), ("Dataset4dstem", [2, 3, 4, 4]), ("Dataset", [2, 2, 3, 2, 3])]
    if depth >= 3:
        base = [base[2]]
    for cls, shape in base:
        a = np.arange(int(np.prod(shape)), dtype=np.int32).reshape(shape) % 7
        new = {"op": "new", "cls": cls, "array": dict(arr_json(a), layout=LAYOUTS[(len(shape) + depth) % len(LAYOUTS)]), "dtype": "int32",
               "origin": {"l": [fj(Fraction(k, 2)) for k in range(len(shape))]},
               "sampling": {"l": [fj(Fraction(k + 1, 4)) for k in range(len(shape))]}, "units": {"l": [UNITS[k] for k in range(len(shape))]}}
        al = alphabet(shape)
        n = 0
        for combo in itertools.product(range(len(al)), repeat=depth):
            # the alphabet of step k is rebuilt for the shape at hand by index only; ops that no longer fit raise (also compared)
            run_history(ctx, drv, new, [copy.deepcopy(al[c]) for c in combo], stream=f"systematic-depth{depth}", max_ops=depth)
            n += 1
        ctx.dist[f"systematic:depth{depth}:{cls}"] += n


def index_expressions(shape):
    """bounded-exhaustive index alphabet: per axis one of {integer, full slice, stepped slice, list} (at most one list), every
    prefix length, and an Ellipsis inserted at EVERY position — including where it stands for zero axes"""
    nd = len(shape)
    per_axis = lambda n: [{"i": n - 1}, {"s": [None, None, None]}, {"s": [None, None, 2]}, {"l": [0, n - 1]}]  # noqa
    out = []
    for L in range(1, nd + 1):
        for combo in itertools.product(*[per_axis(shape[k]) for k in range(L)]):
            if sum(1 for it in combo if "l" in it) > 1:
                continue
            items = list(combo)
            out.append(items)
            for pos in range(L + 1):
                out.append(items[:pos] + ["e"] + items[pos:])
    # expressions whose items address the trailing axes (Ellipsis first, fewer items than axes)
    return out


def run_index_exhaustive(ctx, drv):
    """every expression of `index_expressions` on datasets whose axes have pairwise different length, origin, sampling and units"""
    bases = [("Dataset3d", [3, 4, 5])] + ([("Dataset4dstem", [2, 3, 4, 5]), ("Dataset", [3, 4])] if ctx.thorough() else [("Dataset2d", [3, 4])])
    n = 0
    for cls, shape in bases:
        a = (np.arange(int(np.prod(shape)), dtype=np.int32).reshape(shape) * 3) % 11
        nd = len(shape)
        new = {"op": "new", "cls": cls, "array": dict(arr_json(a), layout="F" if nd == 3 else "perm"), "dtype": "int32",
               "origin": {"l": [fj(Fraction(2 * k + 1, 2)) for k in range(nd)]},
               "sampling": {"l": [fj(Fraction(k + 2, 4)) for k in range(nd)]}, "units": {"l": [UNITS[k] for k in range(nd)]}}
        for items in index_expressions(shape):
            items = copy.deepcopy(items)
            if n % 3 == 1:          # every third expression with NumPy integers / integer arrays instead of ints / lists
                for it in items:
                    if isinstance(it, dict) and ("i" in it or "l" in it):
                        it["np"] = True
            gop = {"op": "getitem", "ix": items, "follow": False}
            if len(items) == 1 and n % 2 == 0:
                gop["bare"] = True   # ds[x] rather than ds[x,]
            run_history(ctx, drv, new, [gop], stream="index-exhaustive", max_ops=1)
            n += 1
    ctx.dist["index-exhaustive:expressions"] += n
    ctx.extra["index_exhaustive"] = ("per axis {int, ':', '::2', [0, n-1]} with at most one list, every prefix length, an Ellipsis at every position "
                                     "(also where it expands to zero axes); bases " + ", ".join(f"{c}{tuple(sh)}" for c, sh in bases))


def run_expand(ctx, drv):
    """every container class x data 1, 2, 3 axes short x (scalar-broadcast | per-axis | default) calibration, through
    `from_array` and through the `array` setter (also on base Datasets of ndim 2..5): the coherence clause is evaluated on the
    resulting object (run_history does it after every step) and the state is compared with the model's expand-dims branch."""
    n = 0
    for cls in CLASSES[1:] + ["Dataset"]:
        reqs = [REQ[cls]] if REQ[cls] is not None else [2, 3, 4, 5]
        for nd in reqs:
            for short in (1, 2, 3):
                if nd - short < 1:
                    continue
                small = [2, 3, 2, 3, 2][: nd - short]
                full = [2, 3, 2, 2, 3][:nd]
                a_small = (np.arange(int(np.prod(small)), dtype=np.int16).reshape(small) % 5)
                a_full = (np.arange(int(np.prod(full)), dtype=np.float32).reshape(full) % 7)
                for style in ("scalar", "list", "default"):
                    if style == "scalar":
                        cal = {"origin": {"s": 1}, "sampling": {"s": "1/2"}, "units": {"s": "nm"}}
                    elif style == "list":
                        cal = {"origin": {"l": [fj(Fraction(k, 2)) for k in range(nd)]}, "sampling": {"l": [fj(Fraction(k + 1, 4)) for k in range(nd)]},
                               "units": {"l": [UNITS[k] for k in range(nd)]}}
                    else:
                        cal = {"origin": None, "sampling": None, "units": None}
                    lay = LAYOUTS[(n + short) % len(LAYOUTS)]
                    setter = {"op": "set_array", "array": dict(arr_json(a_small), layout=lay), "dtype": "int16"}
                    if REQ[cls] is not None:      # construction from data that are `short` axes short, then an op on the result
                        new = dict({"op": "new", "cls": cls, "array": dict(arr_json(a_small), layout=lay), "dtype": "int16"}, **cal)
                        run_history(ctx, drv, new, [{"op": "getitem", "ix": [{"s": [None, None, None]}], "follow": True}, copy.deepcopy(setter)],
                                    stream="expand-dims", max_ops=2)
                        n += 1
                    new = dict({"op": "new", "cls": cls, "array": dict(arr_json(a_full), layout=lay), "dtype": "float32"}, **cal)
                    run_history(ctx, drv, new, [copy.deepcopy(setter), {"op": "copy", "follow": True}, {"op": "bin", "f": {"one": 1}, "axes": None, "mean": False, "inplace": True}],
                                stream="expand-dims", max_ops=3)
                    n += 1
    ctx.dist["expand-dims:histories"] += n


def rejected_calls(shape):
    """one call per rejection reason of every public operation.  Multi-component arguments are valid AND effective in every
    component but the LAST one, so that an implementation validating and updating component by component is exposed."""
    nd = len(shape)
    full = {"s": [None, None, None]}
    rng_ax = list(range(nd))
    out = []

    def add(reason, op):
        out.append((reason, op))
    # ---- bin
    add("bin:last-factor-zero", {"op": "bin", "f": {"many": [2] * (nd - 1) + [0]}, "axes": None, "mean": False})
    add("bin:last-factor-negative", {"op": "bin", "f": {"many": [3] * (nd - 1) + [-1]}, "axes": {"many": [a - nd for a in rng_ax]}, "mean": True})
    add("bin:last-factor-not-integral", {"op": "bin", "f": {"many": [2] * (nd - 1) + [None]}, "axes": None, "mean": False})
    add("bin:too-many-factors", {"op": "bin", "f": {"many": [2] * (nd + 1)}, "axes": None, "mean": False})
    add("bin:too-few-factors", {"op": "bin", "f": {"many": [2] * (nd - 1)}, "axes": {"many": rng_ax}, "mean": True})
    add("bin:factor-type", {"op": "bin", "f": "bad", "axes": None, "mean": False})
    add("bin:scalar-zero", {"op": "bin", "f": {"one": 0}, "axes": None, "mean": False})
    add("bin:scalar-negative", {"op": "bin", "f": {"one": -2}, "axes": {"one": 0}, "mean": True})
    add("bin:reducer", {"op": "bin", "f": {"many": [2] * nd}, "axes": None, "mean": False, "bad_reducer": True})
    add("bin:last-axis-out-of-range", {"op": "bin", "f": {"many": [2] * nd}, "axes": {"many": rng_ax[:-1] + [nd]}, "mean": False})
    add("bin:axis-out-of-range", {"op": "bin", "f": {"one": 2}, "axes": {"one": -nd - 1}, "mean": False})
    # ---- crop
    add("crop:too-few-widths", {"op": "crop", "widths": [[1, -1]] * (nd - 1), "axes": None})
    add("crop:too-many-widths", {"op": "crop", "widths": [[1, -1]] * (nd + 1), "axes": None})
    add("crop:last-axis-out-of-range", {"op": "crop", "widths": [[1, -1]] * nd, "axes": {"many": rng_ax[:-1] + [nd]}})
    add("crop:widths-vs-axes", {"op": "crop", "widths": [[1, -1]] * (nd + 1), "axes": {"many": rng_ax}})
    add("crop:no-width-for-axis", {"op": "crop", "widths": [], "axes": {"one": 0}})
    add("crop:axis-out-of-range", {"op": "crop", "widths": [[1, -1]], "axes": {"one": nd}})
    # ---- pad
    add("pad:both", {"op": "pad", "arg": "both"})
    add("pad:neither", {"op": "pad", "arg": "neither"})
    add("pad:negative", {"op": "pad", "arg": {"all": -1}})
    add("pad:pair-negative", {"op": "pad", "arg": {"pair": [1, -1]}})
    add("pad:last-pair-negative", {"op": "pad", "arg": {"per": [[1, 1]] * (nd - 1) + [[1, -1]]}})
    add("pad:pair-count", {"op": "pad", "arg": {"per": [[1, 1]] * (nd + 1)}})
    add("pad:out-too-long", {"op": "pad", "arg": {"out": [n + 2 for n in shape] + [3]}})
    if nd > 1:
        add("pad:out-too-short", {"op": "pad", "arg": {"out": [n + 2 for n in shape][:-1]}})
    # ---- fourier_resample
    add("resample:both", {"op": "resample", "arg": "both", "axes": None})
    add("resample:neither", {"op": "resample", "arg": "neither", "axes": None})
    add("resample:last-length-zero", {"op": "resample", "arg": {"out": [n + 1 for n in shape[:-1]] + [0]}, "axes": None})
    add("resample:last-length-negative", {"op": "resample", "arg": {"out": [n + 1 for n in shape[:-1]] + [-2]}, "axes": {"many": rng_ax}})
    add("resample:out-count", {"op": "resample", "arg": {"out": [n + 1 for n in shape] + [3]}, "axes": None})
    add("resample:factor-count", {"op": "resample", "arg": {"fs": ["1/2"] * (nd + 1)}, "axes": None})
    add("resample:last-axis-out-of-range", {"op": "resample", "arg": {"out": [n + 1 for n in shape]}, "axes": {"many": rng_ax[:-1] + [nd]}})
    add("resample:axis-out-of-range", {"op": "resample", "arg": {"f1": "1/2"}, "axes": {"one": nd}})
    # ---- setters
    add("origin:length", {"op": "set_origin", "v": {"l": [1] * (nd + 1)}})
    add("origin:type", {"op": "set_origin", "v": {"bad": True}})
    add("sampling:length", {"op": "set_sampling", "v": {"l": ["1/2"] * (nd - 1)}})
    add("sampling:type", {"op": "set_sampling", "v": {"bad": True}})
    add("units:length", {"op": "set_units", "v": {"l": ["nm"] * (nd + 1)}})
    add("units:type", {"op": "set_units", "v": {"bad": True}})
    a = np.ones([2] * (nd + 1), dtype=np.int16)
    add("array:too-many-axes", {"op": "set_array", "array": arr_json(a), "dtype": "int16"})
    # ---- indexing
    add("getitem:too-many-indices", {"op": "getitem", "ix": [{"s": [None, None, 2]}] * (nd + 1), "follow": False})
    add("getitem:last-integer-out-of-range", {"op": "getitem", "ix": [{"s": [None, None, 2]}] * (nd - 1) + [{"i": shape[-1]}], "follow": False})
    add("getitem:last-list-out-of-range", {"op": "getitem", "ix": [{"s": [1, None, None]}] * (nd - 1) + [{"l": [0, shape[-1]]}], "follow": False})
    add("getitem:zero-step", {"op": "getitem", "ix": [full] * (nd - 1) + [{"s": [None, None, 0]}], "follow": False})
    add("getitem:two-ellipses", {"op": "getitem", "ix": ["e", {"i": 0}, "e"], "follow": False})
    if nd == 1:
        add("getitem:scalar-result", {"op": "getitem", "ix": [{"i": 0}], "follow": False})
    return out


def followups(shape):
    nd = len(shape)
    return [
        {"op": "bin", "f": {"many": [2] + [3 if n >= 3 else 1 for n in shape[1:]]}, "axes": None, "mean": False},
        {"op": "resample", "arg": {"f1": "1/2"}, "axes": None},
        {"op": "crop", "widths": [[1, -1]] * nd, "axes": None},
        {"op": "pad", "arg": {"pair": [1, 2]}},
        {"op": "bin", "f": {"one": 2}, "axes": {"one": -1}, "mean": True},
        {"op": "resample", "arg": {"out": [n + 1 for n in shape]}, "axes": None},
    ]


def run_reject(ctx, drv):
    """exception safety: every rejection reason of every public operation (in place and copying) inside a history of valid
    calls.  Model side: a rejected call leaves the state (compared after every step).  Implementation side: the clauses of the
    statement on the later valid calls, in particular in-place history == copying history (mirror_step)."""
    bases = [("Dataset", [6], "float64"), ("Dataset2d", [6, 8], "int32"), ("Dataset3d", [4, 6, 5], "uint8"),
             ("Dataset4dstem", [2, 4, 4, 6], "float32")]
    if ctx.thorough():
        bases += [("Dataset4d", [4, 3, 4, 6], "int64"), ("Dataset", [4, 2, 3, 4, 6], "complex128"), ("Dataset", [5, 7], "bool")]
    n = 0
    for cls, shape, dtype in bases:
        nd = len(shape)
        a = ((np.arange(int(np.prod(shape)), dtype=np.int64).reshape(shape) * 5) % 13).astype(dtype)
        new = {"op": "new", "cls": cls, "array": dict(arr_json(a), layout=LAYOUTS[nd % len(LAYOUTS)]), "dtype": dtype,
               "origin": {"l": [fj(Fraction(2 * k + 1, 2)) for k in range(nd)]},
               "sampling": {"l": [fj(Fraction(k + 2, 4)) for k in range(nd)]}, "units": {"l": [UNITS[k] for k in range(nd)]}}
        fus = followups(shape)
        for j, (reason, rej) in enumerate(rejected_calls(shape)):
            variants = (True, False) if rej["op"] in METHOD else (None,)
            for ip in variants:
                r1 = dict(copy.deepcopy(rej))
                if ip is not None:
                    r1["inplace"] = ip
                    r1["follow"] = False
                fu = dict(copy.deepcopy(fus[j % len(fus)]), inplace=bool(ip), follow=True)
                fu2 = dict(copy.deepcopy(fus[(j + 2) % len(fus)]), inplace=not bool(ip), follow=True)
                # rejected call first, then a valid call of the same flavour; and: valid call, rejected call, valid call
                run_history(ctx, drv, new, [r1, fu], stream="reject", max_ops=2)
                run_history(ctx, drv, new, [copy.deepcopy(fu2), copy.deepcopy(r1), {"op": "elem", "what": "sampling*=2"}, copy.deepcopy(fu)],
                            stream="reject", max_ops=4)
                n += 2
                ctx.dist["reject:" + reason] += 2
    ctx.dist["reject:histories"] += n
    ctx.extra["reject_stream"] = ("every rejection reason of bin / crop / pad / fourier_resample (in place and copying), the calibration and array "
                                  "setters and __getitem__, with the invalid component LAST, inside histories of valid calls on "
                                  + ", ".join(f"{c}{tuple(sh)}:{dt}" for c, sh, dt in bases))



# ------------------------------------------------------------------------------------------
# growth 6: fixed blocks (independent of VERIF_SEED) along the round-6 themes

def base_req(cls, shape, dtype, a=None, layout="C"):
    """a dataset with pairwise different per-axis length / origin / sampling / units"""
    nd = len(shape)
    if a is None:
        a = ((np.arange(int(np.prod(shape)), dtype=np.int64).reshape(shape) * 3) % 11).astype(dtype)
    return {"op": "new", "cls": cls, "array": dict(arr_json(a), layout=layout), "dtype": dtype,
            "origin": {"l": [fj(Fraction(2 * k + 1, 2)) for k in range(nd)]},
            "sampling": {"l": [fj(Fraction(k + 2, 4)) for k in range(nd)]}, "units": {"l": [UNITS[k] for k in range(nd)]}}


def signed_items(n):
    """per-axis alphabet of the sign / last-index theme: negative integers, the last index, reversed and negatively stepped
    slices (also with negative bounds, a step of +-length, an empty selection starting AT the length), lists with negative entries"""
    return [{"i": -1}, {"i": -n}, {"i": n - 1},
            {"s": [None, None, -1]}, {"s": [None, None, -2]}, {"s": [-2, None, -1]}, {"s": [None, 0, -1]}, {"s": [1, -1, None]},
            {"s": [-1, None, None]}, {"s": [n, None, None]}, {"s": [None, None, -n]}, {"s": [None, None, n]}, {"s": [-1, -n - 1, -1]},
            {"l": [-1, 0]}, {"l": [n - 1]}, {"l": [-n, -1, -n]}]


def run_signed_index(ctx, drv):
    """negative steps / negative indices / reversed slices / the last index of every axis / index == length, as a fixed
    enumeration: the full product of `signed_items` on a Dataset2d with H > W, one varying axis (others rotating through
    full / -1 / ::-1, an Ellipsis in front, behind or between) on a Dataset3d and on a W > H Dataset2d, and histories that go
    on with a reversed dataset (negative sampling) through a second negative step, bin, crop and fourier_resample"""
    n = 0
    full = {"s": [None, None, None]}

    def one(new, items, follow=False, bare=False, then=()):
        nonlocal n
        gop = {"op": "getitem", "ix": copy.deepcopy(items), "follow": bool(follow or then)}
        if bare and len(items) == 1:
            gop["bare"] = True
        if n % 4 == 3:          # NumPy integer / integer-array forms of the same items
            for it in gop["ix"]:
                if isinstance(it, dict) and ("i" in it or "l" in it):
                    it["np"] = True
        ops = [gop] + [copy.deepcopy(o) for o in then]
        run_history(ctx, drv, new, ops, stream="signed-index", max_ops=len(ops))
        n += 1
    # (a) full product, H > W
    sh = [5, 3]
    new = base_req("Dataset2d", sh, "int32", layout="perm")
    for a in signed_items(sh[0]):
        one(new, [a], bare=True)
        for b in signed_items(sh[1]):
            if "l" in a and "l" in b:
                continue
            if "i" in a and "i" in b:
                continue                    # 0-d result: outside the quantifier
            one(new, [a, b])
    # (b) one axis varies, the others rotate; Ellipsis positions; W > H and 3-D
    rot = [full, {"i": -1}, {"s": [None, None, -1]}]
    for cls, sh, lay in (("Dataset2d", [3, 5], "F"), ("Dataset3d", [3, 4, 5], "T"), ("Dataset", [2, 3, 4, 2], "flip")):
        new = base_req(cls, sh, "int16", layout=lay)
        nd = len(sh)
        k = 0
        for ax in range(nd):
            for it in signed_items(sh[ax]):
                items = [copy.deepcopy(rot[(k + j) % 3]) for j in range(nd)]
                items[ax] = it
                if all(isinstance(x, dict) and "i" in x for x in items):
                    items[(ax + 1) % nd] = full
                k += 1
                one(new, items)
                if k % 3 == 0:              # the trailing axes addressed through an Ellipsis (in front / in the middle)
                    one(new, ["e"] + items[ax:])
                elif k % 3 == 1 and ax + 1 < nd:
                    one(new, items[: ax + 1] + ["e"])
                elif nd >= 3:
                    one(new, items[:1] + ["e"] + items[2:])
    # (c) index == length / one below -length at EVERY axis position (rejected), inside a history that goes on
    new = base_req("Dataset3d", [3, 4, 5], "uint8", layout="step")
    for ax in range(3):
        L = [3, 4, 5][ax]
        for bad in ({"i": L}, {"i": -L - 1}, {"l": [0, L]}, {"l": [-L - 1]}, {"i": L, "np": True}):
            items = [full] * 3
            items[ax] = bad
            one(new, items, then=())
            run_history(ctx, drv, new, [{"op": "getitem", "ix": copy.deepcopy(items), "follow": False},
                                        {"op": "getitem", "ix": [{"s": [None, None, -1]}] * (ax + 1), "follow": True},
                                        {"op": "bin", "f": {"one": 2}, "axes": {"one": ax}, "mean": False, "inplace": True}],
                        stream="signed-index", max_ops=3)
            n += 1
    # (d) going on with a reversed dataset: negative sampling through a second negative step and the calibration formulas
    then_sets = [
        [{"op": "getitem", "ix": [{"s": [None, None, -2]}], "follow": True}, {"op": "bin", "f": {"one": 2}, "axes": {"one": 0}, "mean": False, "inplace": True}],
        [{"op": "bin", "f": {"many": [2, 3]}, "axes": {"many": [-1, 0]}, "mean": True, "inplace": False, "follow": True},
         {"op": "getitem", "ix": ["e", {"s": [None, None, -1]}], "follow": True}],
        [{"op": "crop", "widths": [[1, -1]], "axes": {"one": -1}, "inplace": True}, {"op": "resample", "arg": {"out": [7]}, "axes": {"one": 0}, "inplace": True}],
        [{"op": "pad", "arg": {"pair": [1, 2]}, "inplace": False, "follow": True}, {"op": "resample", "arg": {"f1": "1/2"}, "axes": None, "inplace": False, "follow": True}],
        [{"op": "copy", "follow": True}, {"op": "elem", "what": "sampling*=2"}, {"op": "getitem", "ix": [{"i": -1}], "follow": True}],
        [{"op": "read", "model": {"op": "touch"}}, {"op": "copy", "follow": True}, {"op": "read", "model": {"op": "touch"}}],
    ]
    for cls, sh in (("Dataset2d", [6, 4]), ("Dataset3d", [4, 6, 5])):
        new = base_req(cls, sh, "int32", layout="ro")
        for rev in ([{"s": [None, None, -1]}], [full, {"s": [None, None, -1]}], [{"s": [None, None, -1]}] * len(sh), [{"s": [-2, None, -2]}, "e"]):
            for then in then_sets:
                one(new, rev, then=then)
    # (e) an axis longer than 255 (indices, counts and factors beyond one byte), 1-D so that the model's gathers stay small
    L = 300
    a = (np.arange(L, dtype=np.int64) * 7 % 301).astype("int16")
    new = base_req("Dataset", [L], "int16", a=a)
    for items in ([{"l": [299, 0, 256, -300]}], [{"s": [None, None, -128]}], [{"s": [255, 257, None]}], [{"s": [-257, None, -1]}],
                  [{"s": [None, None, 256]}], [{"i": 300}], [{"l": [300]}], [{"s": [299, None, None]}], [{"s": [None, 127, -1]}]):
        one(new, items, bare=True)
    for ops in ([{"op": "bin", "f": {"one": 150}, "axes": None, "mean": False, "inplace": True}],
                [{"op": "bin", "f": {"many": [128]}, "axes": {"one": -1}, "mean": False, "inplace": False, "follow": True},
                 {"op": "pad", "arg": {"out": [257]}, "inplace": True}],
                [{"op": "crop", "widths": [[128, -129]], "axes": None, "inplace": True}, {"op": "bin", "f": {"one": 43}, "axes": {"one": 0}, "mean": True, "inplace": True}],
                [{"op": "pad", "arg": {"out": [513]}, "inplace": False, "follow": True}, {"op": "getitem", "ix": [{"s": [None, None, -257]}], "follow": True}],
                [{"op": "crop", "widths": [[0, 256]], "axes": {"one": 0}, "inplace": False, "follow": True}, {"op": "bin", "f": {"one": 256}, "axes": None, "mean": False, "inplace": True}]):
        run_history(ctx, drv, new, copy.deepcopy(ops), stream="signed-index", max_ops=len(ops))
        n += 1
    ctx.dist["signed-index:histories"] += n
    ctx.extra["signed_index"] = ("negative / last / == length integers, reversed and negatively stepped slices with negative bounds, step = +-length, "
                                 "lists with negative entries: full product on Dataset2d(5,3), one varying axis + Ellipsis positions on Dataset2d(3,5), "
                                 "Dataset3d(3,4,5), Dataset(2,3,4,2); reversed datasets carried on through bin / crop / pad / resample / a second negative "
                                 "step; a 1-D axis of length 300 (indices, factors, counts beyond one byte)")


NARROW = [("int8", 100, 127, -128), ("uint8", 200, 255, 0), ("int16", 30000, 32767, -32768), ("uint16", 60000, 65535, 0), ("bool", 1, 1, 0)]


def run_narrow(ctx, drv):
    """narrow integer dtypes whose block sums leave the dtype range (np.sum widens; both variants must hand out the wide
    sums): values at the upper (signed: also the lower) end of the range, sum and mean, in place and copying, carried on"""
    n = 0
    for dtype, lo, hi, mn in NARROW:
        for cls, shape in (("Dataset2d", [4, 6]), ("Dataset4dstem", [2, 2, 4, 4])):
            N = int(np.prod(shape))
            vals = np.array([hi - (k % (hi - lo + 1)) for k in range(N)], dtype=np.int64)
            if mn < 0:
                vals[1::3] = mn + (np.arange(len(vals[1::3])) % 5)        # blocks far below the lower end as well
            a = vals.reshape(shape).astype(dtype)
            new = base_req(cls, shape, dtype, a=a, layout=LAYOUTS[n % len(LAYOUTS)])
            nd = len(shape)
            hists = [
                [{"op": "bin", "f": {"one": 2}, "axes": None, "mean": False, "inplace": True},
                 {"op": "bin", "f": {"one": 2}, "axes": {"one": -1}, "mean": False, "inplace": True}],
                [{"op": "bin", "f": {"many": [2, 3]}, "axes": {"many": [nd - 2, nd - 1]}, "mean": False, "inplace": False, "follow": True},
                 {"op": "getitem", "ix": ["e", {"s": [None, None, -1]}], "follow": True}],
                [{"op": "bin", "f": {"one": 4}, "axes": {"one": nd - 2}, "mean": False, "inplace": False, "follow": False},
                 {"op": "bin", "f": {"one": 4}, "axes": {"one": nd - 2}, "mean": True, "inplace": True}],
                [{"op": "pad", "arg": {"pair": [1, 1]}, "inplace": True},
                 {"op": "bin", "f": {"one": 3}, "axes": {"many": [nd - 1, nd - 2]}, "mean": False, "inplace": True},
                 {"op": "copy", "follow": True}],
                [{"op": "crop", "widths": [[0, 4]], "axes": {"one": -1}, "inplace": True},
                 {"op": "bin", "f": {"many": [4]}, "axes": {"one": -1}, "mean": False, "inplace": True}],
            ]
            if cls == "Dataset4dstem":
                hists += [[{"op": "dp", "kind": "mean", "attach": True, "follow": False}, {"op": "dp", "kind": "max", "attach": True, "follow": False},
                           {"op": "vimg", "mask": arr_json(np.ones(shape[-2:], dtype=np.int64)), "attach": False, "follow": True}],
                          [{"op": "bin", "f": {"one": 2}, "axes": {"many": [0, 1]}, "mean": False, "inplace": True},
                           {"op": "dp", "kind": "mean", "attach": False, "follow": True}]]
            for h in hists:
                run_history(ctx, drv, new, copy.deepcopy(h), stream="narrow-dtype", max_ops=len(h))
                n += 1
    ctx.dist["narrow-dtype:histories"] += n
    ctx.extra["narrow_dtype"] = "int8 / uint8 / int16 / uint16 / bool data at the ends of the dtype range: block sums beyond 127 / 255 / 32767 / 65535 (and below -128 / -32768)"


def noop_calls(shape):
    """calls that change nothing: the candidates for a `return self` / keep-the-buffer fast path"""
    nd = len(shape)
    full = {"s": [None, None, None]}
    return [
        ("pad:out==shape", {"op": "pad", "arg": {"out": list(shape)}}),
        ("pad:zero", {"op": "pad", "arg": {"all": 0}}),
        ("pad:zero-pairs", {"op": "pad", "arg": {"per": [[0, 0]] * nd}}),
        ("pad:out<shape", {"op": "pad", "arg": {"out": [max(1, k - 1) for k in shape]}}),
        ("crop:zero", {"op": "crop", "widths": [[0, 0]] * nd, "axes": None}),
        ("crop:0-to-length", {"op": "crop", "widths": [[0, shape[-1]]], "axes": {"one": -1}}),
        ("crop:no-axes", {"op": "crop", "widths": [], "axes": {"many": []}}),
        ("bin:1", {"op": "bin", "f": {"one": 1}, "axes": None, "mean": False}),
        ("bin:1-mean", {"op": "bin", "f": {"many": [1] * nd}, "axes": None, "mean": True}),
        ("bin:no-axes", {"op": "bin", "f": {"many": []}, "axes": {"many": []}, "mean": False}),
        ("resample:out==shape", {"op": "resample", "arg": {"out": list(shape)}, "axes": None}),
        ("resample:factor-1", {"op": "resample", "arg": {"f1": 1}, "axes": None}),
        ("copy", {"op": "copy"}),
        ("copy:plain", {"op": "copy", "custom": False}),
        ("getitem:list-all", {"op": "getitem", "ix": [{"l": list(range(shape[0]))}]}),
        ("read", {"op": "read", "model": {"op": "touch"}}),
    ]


def fresh_probe(ctx, new_req, reason, op):
    """the result of a call that "returns a new dataset" is a distinct object sharing nothing with the source: every way of
    changing the result in place (element writes, augmented assignments, in-place operations) leaves the source bit-identical,
    and every such change of the SOURCE leaves the result bit-identical.  Directly on the real objects (no model: values after
    fourier_resample are not tracked there)."""
    warnings.simplefilter("ignore")
    case = {"new": new_req, "ops": [dict(op, inplace=False, follow=True)], "probe": reason}
    for direction in ("write-result", "write-source"):
        try:
            src = make_new(new_req)
            ret = apply_op(src, dict(op), inplace=False) if op["op"] in METHOD else apply_op(src, dict(op))
        except Exception as e:  # noqa
            ctx.pred_fail("noop-call-raises", f"{reason}: a call that changes nothing raised {err_name(e)}", case, observed=str(e)[:100], required="a new dataset")
            return
        ctx.count()
        ctx.dist["fresh-probe:" + reason] += 1
        if ret is None or ret is src:
            ctx.pred_fail("result-is-source", f"{reason}: the copying variant did not return a NEW dataset", case,
                          observed="None" if ret is None else "the receiver itself", required="a distinct dataset object")
            return
        victim, actor = (src, ret) if direction == "write-result" else (ret, src)
        before = snapshot(victim)
        u_before = list(victim.units)
        steps = []
        try:
            if actor.array.size and actor.array.flags.writeable:
                actor.array[(0,) * actor.array.ndim] = 7
                steps.append("array[0,...]=7")
            if actor.array.size and actor.array.flags.writeable:
                actor.array[(-1,) * actor.array.ndim] += 1
                steps.append("array[-1,...]+=1")
            actor.origin[0] = 3
            actor.sampling *= 2
            actor.origin[-1] += 1
            steps.append("origin/sampling element writes")
            actor.units[-1] = "zz"
            steps.append("units[-1]='zz'")
            actor.bin(1, modify_in_place=True)
            actor.pad(0, modify_in_place=True)
            actor.crop(((0, 0),) * actor.ndim, modify_in_place=True)
            if actor.array.size and actor.array.flags.writeable:
                actor.array[(0,) * actor.array.ndim] = 5
            steps.append("in-place bin(1) / pad(0) / crop(0), then array[0,...]=5")
        except Exception as e:  # noqa
            steps.append(f"({err_name(e)} while changing the other object)")
        after = snapshot(victim)
        if after != before or list(victim.units) != u_before:
            ctx.pred_fail("noop-result-shares-source", f"{reason}: the dataset returned by a call that changes nothing shares state with its source "
                          f"({direction}: {', '.join(steps)})", case, observed=snap_diff(before, after) or ["units"],
                          required="source and returned dataset independent: bit-identical after changes to the other one")
            return


def run_noop(ctx, drv):
    """performance-shortcut theme: calls whose result equals the receiver (pad to the current shape, crop by 0, bin by 1,
    resample to the same shape, copies).  (1) inside histories compared with the model, the result retained / followed and then
    changed in place, (2) `fresh_probe` on the real objects."""
    bases = [("Dataset2d", [4, 6], "int32", "F"), ("Dataset4dstem", [2, 2, 4, 4], "float32", "C"), ("Dataset", [6], "float64", "flip")]
    n = 0
    for cls, shape, dtype, lay in bases:
        new = base_req(cls, shape, dtype, layout=lay)
        for reason, op in noop_calls(shape):
            has_ip = op["op"] in METHOD
            # the result is followed and changed; the source is watched (alias predicate, heap layer, model)
            h1 = [dict(copy.deepcopy(op), follow=True, **({"inplace": False} if has_ip else {})),
                  {"op": "elem", "what": "array[0]=7"}, {"op": "elem", "what": "origin[0]=3"}, {"op": "elem", "what": "sampling[:]=rev"}]
            # the result is kept aside; the source is changed in place by the same no-op call, then element-wise
            h2 = [dict(copy.deepcopy(op), follow=False, **({"inplace": False} if has_ip else {}))]
            if has_ip:
                h2.append(dict(copy.deepcopy(op), inplace=True))
            h2 += [{"op": "elem", "what": "array[0]=7"}, {"op": "elem", "what": "sampling*=2"}]
            for h in (h1, h2):
                run_history(ctx, drv, new, h, stream="noop", max_ops=len(h))
                n += 1
            if reason != "read":
                fresh_probe(ctx, new, reason, op)
    ctx.dist["noop:histories"] += n


def run_two_live(ctx):
    """caches with two datasets alive: Dataset4dstem containers A and B of equal shape and calibration but different data,
    `get_dp_*(attach=True)` interleaved; a container's attached pattern must be ITS pattern (shape, calibration of its
    diffraction axes, values - no element write happens between attaching and reading), also after a copy got new data of the
    same shape and after an in-place operation on one of the two."""
    warnings.simplefilter("ignore")
    import quantem.core.datastructures as qd
    shape = (2, 3, 4, 4)
    N = int(np.prod(shape))
    case = {"new": {"cls": "Dataset4dstem", "shape": list(shape)}, "ops": [{"op": "dp"}], "probe": "two-live"}

    def mk(mult, dtype):
        a = ((np.arange(N, dtype=np.int64) * mult) % 13).reshape(shape).astype(dtype)
        return qd.Dataset4dstem.from_array(a, origin=[0.5, 1.5, 2.5, 3.5], sampling=[0.5, 0.75, 1.0, 1.25], units=["nm", "A", "mrad", "s"])

    def check(ds, who, nm):
        ctx.count()
        ctx.dist["two-live:checks"] += 1
        want = {"mean": np.mean, "max": np.max, "median": np.median}[nm](ds.array, axis=(0, 1))
        for how, d2 in (("get", getattr(ds, "get_dp_" + nm)(attach=True)), ("property", getattr(ds, "dp_" + nm))):
            o, s, u = cal_of(ds)
            ok_cal = tuple(d2.shape) == tuple(ds.shape[-2:]) and cal_of(d2) == (o[2:], s[2:], u[2:])
            ok_val = d2.array.shape == want.shape and np.allclose(d2.array, want, rtol=1e-6, atol=0)
            if not (ok_cal and ok_val and type(d2).__name__ == "Dataset2d"):
                ctx.pred_fail("dp-cache-wrong-owner", f"{who}.dp_{nm} ({how}) is not the {nm} diffraction pattern of {who} "
                              "while another Dataset4dstem of equal shape and calibration is alive", dict(case, who=who, kind=nm),
                              observed={"shape": list(d2.shape), "calibration_ok": ok_cal, "values_ok": bool(ok_val)},
                              required="the pattern of the dataset asked")
                return False
        return True
    try:
        for dtype in ("int32", "float64"):
            A, B = mk(5, dtype), mk(7, dtype)
            for nm in ("mean", "max", "median"):
                if not (check(A, "A", nm) and check(B, "B", nm) and check(A, "A", nm)):
                    return
            C = A.copy()
            C.array = np.array(B.array)              # same shape, other values
            for nm in ("mean", "max", "median"):
                if not (check(C, "C=A.copy() with new data", nm) and check(A, "A", nm)):
                    return
            D = B.copy()
            D.bin(2, axes=(2, 3), modify_in_place=True)
            B.crop(((1, 0),), axes=(3,), modify_in_place=True)
            for nm in ("mean", "max", "median"):
                if not (check(D, "D=B.copy() binned in place", nm) and check(B, "B cropped in place", nm) and check(A, "A", nm)):
                    return
            E = D[:, ::-1]
            for nm in ("mean", "max"):
                if not (check(E, "E=D[:, ::-1]", nm) and check(D, "D", nm)):
                    return
    except Exception as e:  # noqa
        ctx.pred_fail("dp-property-raises", f"attached diffraction patterns with two live datasets: {err_name(e)}", case, observed=str(e)[:120], required="Dataset2d")


PINNED = {
    # what the model takes for granted about the public entry points: parameter names, order and defaults
    "Dataset.from_array": [("array", "<req>"), ("name", None), ("origin", None), ("sampling", None), ("units", None), ("signal_units", "arb. units")],
    "Dataset.copy": [("copy_custom_attributes", True)],
    "Dataset.pad": [("pad_width", None), ("output_shape", None), ("modify_in_place", False), ("kwargs", "<var>")],
    "Dataset.crop": [("crop_widths", "<req>"), ("axes", None), ("modify_in_place", False)],
    "Dataset.bin": [("bin_factors", "<req>"), ("axes", None), ("modify_in_place", False), ("reducer", "sum")],
    "Dataset.fourier_resample": [("out_shape", None), ("factors", None), ("axes", None), ("modify_in_place", False)],
    "Dataset.__getitem__": [("index", "<req>")],
    "Dataset2d.from_shape": [("shape", "<req>"), ("name", "constant 2D dataset"), ("fill_value", 0.0), ("origin", None), ("sampling", None), ("units", None)],
    "Dataset3d.from_shape": [("shape", "<req>"), ("name", "constant 3D dataset"), ("fill_value", 0.0), ("origin", None), ("sampling", None), ("units", None)],
    "Dataset4d.from_shape": [("shape", "<req>"), ("name", "constant 4D dataset"), ("fill_value", 0.0), ("origin", None), ("sampling", None), ("units", None)],
    "Dataset4dstem.get_dp_mean": [("attach", True)],
    "Dataset4dstem.get_dp_max": [("attach", True)],
    "Dataset4dstem.get_dp_median": [("attach", True)],
    "validators.ensure_valid_array": [("array", "<req>"), ("dtype", None), ("ndim", None)],
    "validators.validate_ndinfo": [("value", "<req>"), ("ndim", "<req>"), ("name", "<req>"), ("dtype", None)],
    "validators.validate_units": [("value", "<req>"), ("ndim", "<req>")],
}


def stream_signatures(ctx):
    """public signatures / defaults the model relies on (extra optional parameters are tolerated), the calibration / array
    attributes being properties with setters, and the ndim -> class registry"""
    import inspect
    import quantem.core.datastructures as qd
    from quantem.core.utils import validators

    def desc(f):
        out = []
        for name, prm in inspect.signature(f).parameters.items():
            if name in ("self", "cls"):
                continue
            d = "<var>" if prm.kind in (prm.VAR_POSITIONAL, prm.VAR_KEYWORD) else ("<req>" if prm.default is prm.empty else prm.default)
            out.append((name, d))
        return out
    for name, want in PINNED.items():
        ctx.count()
        try:
            owner, attr = name.split(".")
            obj = getattr(validators if owner == "validators" else getattr(qd, owner), attr)
            have = desc(obj)
        except Exception as e:  # noqa
            have = f"<{type(e).__name__}>"
        ok = isinstance(have, list) and all(w in have for w in want) \
            and [h for h in have if h in want] == want and all(d != "<req>" for (n_, d) in have if (n_, d) not in want)
        if not ok:
            ctx.disagree("signature", {"function": name}, [list(w) for w in want], json.loads(json.dumps(have, default=str)),
                         note="public signature / default the model relies on has changed")
    for attr in ("array", "origin", "sampling", "units", "name", "signal_units"):
        ctx.count()
        prop = getattr(qd.Dataset, attr, None)
        if not (isinstance(prop, property) and prop.fset is not None):
            ctx.disagree("signature", {"attribute": attr}, "property with setter", str(type(prop).__name__), note="public attribute is no longer a validated property")
    # construction that bypasses from_array: either refused, or the object is coherent like any other
    for cname, shp in (("Dataset", (3,)), ("Dataset2d", (2, 3)), ("Dataset3d", (2, 3, 2)), ("Dataset4d", (2, 1, 2, 3)), ("Dataset4dstem", (1, 2, 2, 3))):
        ctx.count()
        try:
            with warnings.catch_warnings():
                warnings.simplefilter("ignore")
                obj = getattr(qd, cname)(np.zeros(shp), "direct", 0.0, 1.0, "pixels")
        except Exception:  # noqa
            ctx.dist["signature:direct-constructor-refused"] += 1
            continue
        ctx.dist["signature:direct-constructor-accepted"] += 1
        check_coherent(ctx, obj, {"new": {"cls": cname, "direct": list(shp)}, "ops": [{"op": "new"}], "probe": "direct-constructor"}, "directly constructed dataset")
    ctx.count()
    reg = {int(k): v.__name__ for k, v in qd.Dataset._registry.items()}
    if reg != {2: "Dataset2d", 3: "Dataset3d", 4: "Dataset4d"}:
        ctx.disagree("signature", {"attribute": "_registry"}, {"2": "Dataset2d", "3": "Dataset3d", "4": "Dataset4d"}, {str(k): v for k, v in reg.items()},
                     note="ndim -> class registry differs from the model's `registry`")
    ctx.dist["signature:pins"] += len(PINNED) + 7


def run(ctx):
    from qv.driver import Driver
    drv = Driver("C03")
    try:
        if not ctx.search_mode:
            import time
            timing = {}
            for nm, fn in (("signatures", lambda: stream_signatures(ctx)), ("expand", lambda: run_expand(ctx, drv)), ("reject", lambda: run_reject(ctx, drv)),
                           ("index-exhaustive", lambda: run_index_exhaustive(ctx, drv)), ("signed-index", lambda: run_signed_index(ctx, drv)),
                           ("narrow-dtype", lambda: run_narrow(ctx, drv)), ("noop", lambda: run_noop(ctx, drv)), ("two-live", lambda: run_two_live(ctx)),
                           ("systematic-2", lambda: run_systematic(ctx, drv, 2))):
                t0 = time.time()
                fn()
                timing[nm] = round(time.time() - t0, 2)
            ctx.extra["fixed_block_seconds"] = timing
            import os, sys
            if os.environ.get("C03_TIMING"):
                print("C03 fixed blocks (s):", timing, {k: v for k, v in ctx.dist.items() if "histories" in k or k.startswith("two-live")}, file=sys.stderr)
            if ctx.thorough():
                run_systematic(ctx, drv, 3)
            ctx.extra["bounded_exhaustive"] = ("all sequences of length 2 over a 13-16 letter operation alphabet on 5 base datasets"
                                               + ("; length 3 on the 3-D base dataset" if ctx.thorough() else ""))
        nseq = ctx.n(900, 25000)
        maxd = 40 if ctx.thorough() else 12
        for s in range(nseq):
            rng = ctx.rng.fork(s)
            new = gen_new(rng)
            depth = rng.randint(2, maxd if rng.chance(0.15) else 12)
            run_history(ctx, drv, new, (lambda ds, rng=rng: gen_op(rng, ds)), stream="history", max_ops=depth)
    finally:
        drv.close()


def replay(ctx, rep):
    from qv.driver import Driver
    case = rep.get("case") or (rep.get("correspondence_disagreements") or rep.get("disagreements") or [{}])[0].get("case")
    if not case:
        return True
    if case.get("probe") == "direct-constructor":
        stream_signatures(ctx)
        return True
    if case.get("probe") == "two-live":
        run_two_live(ctx)
        return True
    if case.get("probe"):
        fresh_probe(ctx, case["new"], case["probe"], {k: v for k, v in case["ops"][0].items() if k not in ("inplace", "follow")})
        return True
    drv = Driver("C03")
    try:
        run_history(ctx, drv, case["new"], case["ops"], stream="replay", max_ops=len(case["ops"]))
    finally:
        drv.close()
    return True
