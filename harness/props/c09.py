"""C09 — mini-batch scheduling: exact partition, batch invariance, seeded determinism.

Streams
  batcher     exact   real SimpleBatcher (own NumPy generator) vs Model/Batcher.lean `split/epoch/…`
                      (the permutations the generator draws are reproduced with a twin generator
                      and handed to the model as inputs)
  user        exact   SimpleBatcher(train_indices=…, val_indices=…): partitions (sorted / unsorted), overlapping, incomplete,
                      only one list given — vs model `initSplit`; the partition predicate applies when the user's lists
                      are a partition
  subdivide   exact   subdivide_batches / generate_batches vs model
  numeric     float32 a tiny real Ptychography problem: per-batch losses recorded inside the real
                      `reconstruct` loop vs the model's batch-fraction scaling (binary64), for every
                      divisor batch size (and some non-divisors), all five loss types; the batches
                      visited inside `reconstruct` vs the model's schedule
  determinism bitwise same seed twice / same object after `reset=True` → identical iter_losses
  (history)           every later reset of a history is requested through one of the public routes — reconstruct(reset=True),
                      reset_recon() then reconstruct(), Ptychography.from_ptychography(pt) then reconstruct() on the clone —
                      and the settings reach the object through alternative entry points (rng by constructor or setter,
                      val_ratio/val_mode by preprocess() or attributes, batch size by argument or attribute); all must
                      reproduce the first run and a canonically built fresh object
  history     bitwise seeds: small, >= 2**32, >= 2**64, 128-bit, as int / np.random.Generator / torch.Generator; first run of
                      a fresh object with AND without reset;
                      one object: run(reset=True); continue without reset (1 and 2 iterations); run(reset=True)
                      again → identical iter_losses AND identical batch schedule, also vs a fresh same-seed object;
                      every call of the history is replayed through the model's `reconstruct`/`reset_recon` state
                      machine (generator position, reset-before-batcher order, epoch loss = mean over the yielded
                      batches, validation-loss recording) and compared bit for bit
  rejected    bitwise exception safety: twin objects make a valid run; one then makes a REJECTED configuration call (invalid
                      batch_size by assignment or through reconstruct(), val_ratio, val_mode, rng, loss_type — exception
                      caught); the next reconstruct(batch_size=None) must visit every training pattern exactly once per
                      epoch in ceil(n_train/b) batches and be bit-identical to the twin that never made the call; the
                      accept/reject decision is tied to the model's `applyCall`
  aborted     bitwise exception safety of the LOOP: one object makes a valid run, then a reconstruct() call that is interrupted by an exception
                      from a callee in the middle of an epoch (training batch j >= 1 / 0 of iteration i, before or after the loss of the
                      batch was computed; a validation batch; after the iteration was recorded; RuntimeError / MemoryError /
                      FloatingPointError / KeyboardInterrupt; with or without reset; its own batch size), caught by the caller; then a
                      valid reconstruct() WITHOUT reset and a reset run through one of the public routes.  Schedule clauses and
                      "recorded loss = mean over the batches yielded in THAT epoch" on every later call, frozen variant: recorded
                      loss of divisor batch sizes = full-batch loss; the reset run reproduces the first run and a fresh object bit for
                      bit; every call — also what the interrupted call leaves behind — is tied to the model's `reconstructF`, the
                      object's NumPy generator (its state) to the modelled number of draws
  empty-train exact   random split that takes every pattern: ZeroDivisionError branch of reconstruct vs model (no verdict)
  rngset      exact   RNGMixin.rng = <int 0/1/True/small/2**32±/2**64+/128 bit/negative | np Generator fresh or used | torch Generator |
                      float | str | list | None>, then _reset_rng(): accept/reject, generator state, torch seed vs model `rngSet`/`resetRngFull`
  cfgseq      exact   sequences of batch_size / val_ratio / val_mode assignments (None, 0, -0.0, 0.4, 0.5, 2.5, 3.5, True, "3", [3], …) on one
                      object vs the model session after every call; then a run whose schedule must be that of the STORED settings
  signature   exact   names and defaults of the property's parameters of SimpleBatcher / reconstruct / subdivide_batches / generate_batches
  big / twins / rerun  growth round 6, see props/c09_g6.py: fixed blocks of sizes around 100/127/255/1000/32768/65537/2**24 with batch sizes that divide the training set
                      exactly / leave a remainder of one / equal / exceed it, grid split on both sides of 0.5 for n <= 110; several batchers / objects alive at once;
                      the same object reconstructed three times with reset=True and unchanged settings; every call of the aborted stream also vs the closed-form
                      specification `specCall` (Model/BatcherSpec.lean); numeric stream: remainder-one batch sizes, recorded loss = sum / batches yielded for every b
The batcher stream draws seeds from {0, 1, 2**32+5, random}, the seed as int or np.random.Generator, batch sizes None / 0 / NEGATIVE (model
`iterPy`/`lenPy`/`valLenPy`), int val_ratio, and in 12 % of the cases abandons an epoch after 1–3 batches before the recorded epochs.
Seed 0 (falsy) is generated in every stream, in every form.  The history stream lets continuations use another batch size than the reset
runs, applies the schedule clauses to EVERY call and compares the generator state after every call.
The numeric stream also compares every way of asking for "one batch holding the whole training set" (batch_size = n_train,
num_gpts, > num_gpts, default) — with a validation split these differ — for equal loss / recorded loss / gradients.
The property predicate (partition, exactly-once, len, mean-of-batches = full batch, identical
histories) is evaluated on the real code with plain Python/NumPy oracles that do not use the model.
"""
import math

LEVEL = "proof"
EXTRA_PROPS = ["QuantemModel.Props.C09Ext"]   # growth 6: whole calls / histories (aborted epochs included) = closed-form specification
MANIFEST_ENTRY = {
    "category": "proof",
    "text": "Lean 4 theorems over an executable model of SimpleBatcher / subdivide_batches / the batch-fraction scaling of error_estimate (the RNG's permutations are inputs, so all shuffles are covered): train/val split is a partition for every n, n_val, grid step, mode and permutation; every epoch yields each training index exactly once for every batch size >= 1; number of batches yielded = ceil(|train|/b) = __len__; i-th batch = order[i*b:(i+1)*b]; validation pass likewise; subdivide_batches sizes sum to n, differ by <= 1, respect max_batch, generate_batches ranges tile [start,start+n); over R the mean of batch losses (and, over any field/vector space, of any additive per-pattern quantity such as gradients) equals the full-batch value when b | n, with a counterexample for b not dividing n; user supplied train/val lists that are a partition satisfy every schedule clause (only one list given raises); a state-machine model of reconstruct/reset_recon/_reset_rng (generator = seed + call position with an arbitrary draw oracle, arbitrary numerical step function): every recorded epoch loss is the sum over the yielded batches divided by their number for every b >= 1 (also non-dividing), validation losses are recorded once per iteration iff the validation set is non-empty, and reconstruct(reset=True) after ANY history of calls on a seeded object returns exactly the state, loss history and schedule of the fresh object (same_seed_same_run, reset_run_independent_of_history); every entry point of a reset is the same operation (reset_routes_agree: reconstruct(reset=True) = reset_recon(); reconstruct(reset=False), also after any history); a session model of the validating setters (batch_size, val_ratio, val_mode, rng): a rejected configuration call stores nothing and the next run is the run the object would have made without it (rejected_call_is_noop, run_after_rejected_call). Growth round 5: SimpleBatcher with Python integers (batch_size None / 0 / negative, shuffle flag, rng setter): len = number yielded whenever both are reported, for EVERY integer batch size (len_eq_yielded_every_int_batch_size), batch_size None or >= n is one batch holding the whole training set (whole_set_batch); exactly-once at the level of whole reconstruct calls for every object state and configuration (reconstruct_epochs_visit_once); a model of reconstruct calls that do NOT return (exception from a callee in training batch j / validation batch k of iteration i / after the record; ZeroDivisionError on an empty training set): an interrupted epoch leaves nothing in the loss histories (interrupted_call_keeps_completed_epochs_only), reconstruct(reset=True) after ANY history including calls that raised reproduces the fresh object (reset_run_after_interrupted_calls), a run without reset after interrupted calls records honest means (run_after_interrupted_calls_records_means), the fault model refines the plain one (reconstructF_refines_reconstruct); every accepted form of seed — 0 included — is replayed by _reset_rng, idempotently, and equals the state after construction for int / torch / unused NumPy generators (reset_replays_every_seed_form). Growth round 6 (Props/C09Ext.lean, Model/BatcherSpec.lean): a closed-form specification of a whole reconstruct call (iteration i = the slices of the i-th draw after the batcher was built; an interrupted call = the completed epochs plus the first j+1 batches of the aborted one; generator advanced by the number of started epochs; number of recorded losses) — the loop model with or without fault IS that specification for every state/configuration/fault (reconstruct_call_refines_spec), and so is every history of calls, raising ones included (history_refines_spec); every epoch of every call of every history visits each training pattern exactly once, an aborted epoch at most once, no validation pattern ever (every_epoch_of_every_history_visits_once); with identical per-pattern errors the recorded epoch loss equals the full-batch loss for EVERY batch size >= 1 (epochLoss_identical_patterns_every_batch_size). Tied to the code on every run by exact enumeration of the real SimpleBatcher/subdivide_batches, by per-batch losses/gradients recorded inside the real Ptychography.reconstruct loop on tiny problems, by interrupted-call histories with injected exceptions and by the generator state after every call.",
    "note": "Proved: partition, exactly-once (also per whole reconstruct call and per history incl. aborted epochs), counts (every integer batch size), contiguity, loss/gradient scaling algebra, reset/interrupted-call/seed-form state machine, loop model = closed-form call specification. Measured only (real runs, tiny problems, autograd=True, CPU float32): equality of mean per-batch loss/gradients with the full batch for every divisor batch size and all five loss types, and bitwise identical loss histories for equal seeds / after reset=True. Trusted: NumPy Generator determinism (twin generator reproduces the drawn permutations), torch autograd. The analytic-gradient path (autograd=False) normalises each batch by its own probe overlap and is only measured, not judged.",
    "technique": "Lean 4 proof (induction over batches, permutation/partition lemmas, field algebra, refinement of the loop model to a closed-form specification) + model-vs-implementation correspondence",
}
RULE = ("batcher stream: one case = one SimpleBatcher (n, batch size, val_ratio, mode, seed, shuffle) iterated for two epochs + validation pass; "
        "distinct non-trivial = distinct (n, b, n_val, mode, shuffle) with n >= 2; subdivide stream: distinct (n, num_batches|max_batch); "
        "numeric/determinism streams: distinct (scan, roi, loss type, batch size, val split, probes); aborted stream: one case = one history (valid run, interrupted call, run without reset, "
        "reset run, fresh object) + one model-tie evaluation per call, distinct (scan, loss, batch sizes, split, fault kind/iteration/batch/raise point, exception class, reset flag, frozen); "
        "rngset: distinct (form, seed, draws consumed); cfgseq: distinct call sequences; growth 6: fixed batcher blocks count like batcher cases; big: distinct (n, b, split); twins: distinct (n, b, ratio, mode, second batch size); "
        "rerun: distinct (scan, loss, b, split, probes) — one case = five or six whole reset runs on two live objects + a fresh one")
TRUSTED = ["exception injection: instance-level wrappers around dset.forward / backward / step_schedulers raise the exception; a real failure of a callee is assumed to leave the same Python-level state behind as the injected one at the same point",
           "the model's generator is (seed, number of draws); what a draw returns is an oracle of (generator, list) — the real generator's state also depends on the LENGTHS drawn before; the harness replays the real sequence with a twin generator and compares its state with the object's after every call",
           "NumPy Generator determinism: np.random.default_rng(seed) reproduces the permutations SimpleBatcher draws",
           "torch autograd / optimizers (gradient invariance and determinism of real runs are measured, not proved)",
           "Lean Float = IEEE binary64 (n_val = round(n*ratio) and k = round(1/ratio) are computed in the model exactly as in Python)"]
ASSUMPTIONS = ["growth 6: the 'big' cases (n = 2**24+3, 70001) are judged by the predicate only (no Lean model: the index lists do not fit through the driver); batches are converted to Python ints when they are yielded (a consumer that keeps references to yielded arrays is not modelled); changing SimpleBatcher.batch_size on a live object is a public attribute assignment, the count clause is judged after it",
               "aborted stream: the frozen-parameter comparison with the full-batch loss is judged only when the split is the same in every call (val_ratio 0 or grid mode: in random mode every reconstruct call draws a new split by design); what an interrupted call leaves behind (history length, generator position) is compared with the model only — the property gives no verdict on it; batch sizes < 1, an empty training set (ZeroDivisionError) and val_len() for negative batch sizes are outside the property's quantifier and compared with the model only",
               "a NumPy Generator handed to rng= is fresh (a generator that was already used makes the first run start later in the stream than the run after a reset — modelled in rngSet, not judged)",
               "rejected-call stream: values handed to the setters are ints, floats, strings, lists; string val_ratio values are non-numeric; a call that is accepted (e.g. batch_size=2.5 is rounded, val_ratio=1.0 is stored) carries no claim; a reconstruct() call that fails on its loss_type has already installed optimizers ('zz') or advanced the generator ('l3_amplitude', rejected inside the first batch) — only the reset clause is judged after it",
               "invariance of losses/gradients is judged for autograd=True (the default); with autograd=False the 'gradient' is an overlap-normalised update direction whose normalisation depends on the batch — its deviation is reported under measured.analytic_grad_rel_dev, no verdict",
               "'same seed' means every rng= argument (Ptychography, object model, probe model) receives the same seed, each in the same form (int, fresh np.random.Generator, fresh torch.Generator); unseeded objects (rng=None) carry no determinism claim and are not generated",
               "user supplied train_indices/val_indices are not validated by the code: the partition clauses are judged only when the supplied lists are a partition (other inputs are compared with the model only)",
               "gradient/loss comparison tolerance 5e-4 relative to the full-batch magnitude (float32 path); parameters are frozen (optimizer step skipped) while batches are recorded"]
EXPLANATION = ("Theorems in Props/C09.lean are about Model/Batcher.lean; each run enumerates the real SimpleBatcher and subdivide_batches against the "
               "model exactly and records per-batch losses/gradients inside the real reconstruct loop of tiny problems.")



class HarnessError(RuntimeError):
    """a fault of the harness/driver itself (never swallowed)"""


RATIOS_EXTRA = [0.1, 0.2, 0.3, 0.7, 0.9, 0.99, 1.0 / 3.0, 0.05, 0.45, 0.55]
RATIOS_BAD = [-0.25, 1.0, 1.5, -0.0]
LOSS_TYPES = ["l2_amplitude", "l1_amplitude", "l2_intensity", "l1_intensity", "poisson"]
TOL32 = 5e-4


# ---------------------------------------------------------------------------------------
# stream (a): the batcher, exactly

def py_nval(n, ratio):
    r = 0.0 if (ratio < 0 or ratio >= 1) else ratio
    return int(round(n * r))


def py_split(n, ratio, mode, perm):
    """independent re-statement of the split (used to replay the generator calls of a run with a twin generator)"""
    r = 0.0 if (ratio < 0 or ratio >= 1) else ratio
    nv = int(round(n * r))
    idx = list(range(n))
    if nv <= 0:
        return idx, []
    if mode == "random":
        val = list(perm[:nv])
        return [i for i in idx if i not in set(val)], val
    k, inv = (max(1, int(round(1.0 / r))), False) if r <= 0.5 else (max(1, int(round(1.0 / (1.0 - r)))), True)
    sel = idx[::k][:nv]
    rest = [i for i in idx if i not in set(sel)]
    return (sel, rest) if inv else (rest, sel)


class EndlessIterator(RuntimeError):
    """an epoch / validation pass that yields more batches than there are patterns (a harness guard: never iterate forever)"""


def capped(it, cap):
    out = []
    for x in it:
        out.append([int(i) for i in x])
        if len(out) > cap:
            raise EndlessIterator(f"more than {cap} batches")
    return out


def _attempt(f):
    try:
        return f()
    except Exception as e:  # noqa
        return type(e).__name__


def batcher_case(ctx, drv_reqs, case):
    """run the real SimpleBatcher for `case`; returns (impl_view, request for the model).  Every observable is either its
    value or the name of the exception it raised (batch_size 0 / negative reach range() and the len() builtin).
    `rng_form`: the seed as int or as a fresh np.random.Generator; `abandon` = j: before the recorded epochs one epoch is
    started, j batches are taken and the iterator is dropped (the epochs after it must be complete all the same)."""
    import numpy as np
    from quantem.diffractive_imaging.ptycho_utils import SimpleBatcher
    from qv.driver import f2b
    n, b, ratio, mode, seed, shuffle = case["n"], case["b"], case["ratio"], case["mode"], case["seed"], case["shuffle"]
    rng_arg = np.random.default_rng(seed) if case.get("rng_form") == "np_generator" else seed
    B = SimpleBatcher(n, b, shuffle=shuffle, rng=rng_arg, val_ratio=ratio, val_mode=mode)
    train = [int(x) for x in B.train_indices]
    val = [int(x) for x in B.val_indices]
    view = {"train": train, "val": val}
    # twin generator: same seed, same calls
    g = np.random.default_rng(seed)
    perm = []
    if py_nval(n, ratio) > 0 and mode == "random":
        perm = [int(x) for x in g.permutation(np.arange(n))]
    orders = []
    if case.get("abandon"):
        it = iter(B)
        for _ in range(case["abandon"]):
            if next(it, None) is None:
                break
        it.close()
        if shuffle:
            g.permutation(B.train_indices)       # the abandoned epoch drew its permutation at the first next()
    epochs = []
    for _ in range(2):
        orders.append([int(x) for x in g.permutation(B.train_indices)] if shuffle else list(train))
        try:
            ep = capped(iter(B), 2 * n + 8)     # (list(B) would call __len__ first as a length hint)
        except Exception as e:  # noqa
            epochs = type(e).__name__
            break
        epochs.append(ep)
    view["epochs"] = epochs
    view["len"] = _attempt(lambda: len(B))
    view["val_batches"] = _attempt(lambda: capped(B.iter_val(), 2 * n + 8))
    view["val_len"] = _attempt(lambda: int(B.val_len()))
    view["has_validation"] = bool(B.has_validation)
    req = {"op": "batcher_py", "n": n, "ratio": f2b(ratio), "mode": mode, "perm": perm, "b": b, "orders": orders}
    return view, req


def batcher_predicate(ctx, case, view):
    """the property itself on the real SimpleBatcher's outputs (no model involved)"""
    n, b = case["n"], case["b"]
    train, val = view["train"], view["val"]
    if sorted(train + val) != list(range(n)):
        both = sorted(set(train) & set(val))
        ctx.pred_fail("split-not-partition", "train and validation indices are not a partition of range(n)", case,
                      observed={"train": train, "val": val, "in_both": both,
                                "missing": sorted(set(range(n)) - set(train) - set(val))},
                      required="disjoint, duplicate free, union = 0..n-1")
    eff_b = n if b is None else b
    if "EndlessIterator" in (view["epochs"], view["val_batches"]):
        ctx.extra["endless_iterator"] = True
        if eff_b >= 1:
            ctx.pred_fail("epoch-not-exactly-once", "an epoch (or the validation pass) yields more batches than there are patterns", case,
                          observed="iteration stopped by the harness after 2n+8 batches", required="ceil(n_train / b) batches")
        return
    if eff_b < 1 or not isinstance(view["epochs"], list):
        return          # batch sizes < 1 are outside the property's quantifier (compared with the model only)
    for ep in view["epochs"]:
        flat = [x for batch in ep for x in batch]
        if sorted(flat) != sorted(train):
            ctx.pred_fail("epoch-not-exactly-once", "an epoch does not visit every training index exactly once", case,
                          observed={"visited": flat, "train": train}, required="a permutation of train")
        if len(ep) != view["len"]:
            ctx.pred_fail("len-vs-yielded", "len(batcher) differs from the number of batches yielded", case,
                          observed={"len": view["len"], "yielded": len(ep)}, required="equal")
        if any(len(batch) == 0 or len(batch) > eff_b for batch in ep):
            ctx.pred_fail("batch-size-bounds", "a yielded batch is empty or larger than batch_size", case,
                          observed=[len(x) for x in ep], required=f"1..{eff_b}")
    vflat = [x for batch in view["val_batches"] for x in batch]
    if sorted(vflat) != sorted(val) or len(view["val_batches"]) != view["val_len"]:
        ctx.pred_fail("val-pass", "validation pass does not visit every validation index exactly once / val_len wrong", case,
                      observed={"visited": vflat, "val": val, "val_len": view["val_len"], "yielded": len(view["val_batches"])},
                      required="each validation index once; val_len = number yielded")
    if view["has_validation"] != (len(val) > 0):
        ctx.pred_fail("has-validation", "has_validation inconsistent with val_indices", case, observed=view["has_validation"], required=len(val) > 0)


def bseed(rng):
    """seed of a batcher case: 0 (falsy!), 1, a value >= 2**32, or a random 30-bit value"""
    return rng.weighted([(0, 3), (1, 1), ((1 << 32) + 5, 1), (rng.below(1 << 30), 25)])


def decorate_batcher_case(rng, c):
    """input-form classes with the logical case unchanged: seed as int / np.random.Generator; an abandoned epoch first"""
    if rng.chance(0.15):
        c["rng_form"] = "np_generator"
    if rng.chance(0.12):
        c["abandon"] = rng.randint(1, 3)
    return c


def gen_batcher_cases(ctx):
    """every (n <= 40, b <= 45, ratio k/16, mode) in both tiers (seed and shuffle flag drawn per case);
    plus sampled larger n (quick) / every (n <= 200, b <= n+5) with sampled ratios (thorough)"""
    rng = ctx.rng.fork(1)
    cases = []
    dy = [k / 16.0 for k in range(0, 16)]
    for n in range(0, 41):
        for b in range(1, 46):
            for r in dy:
                for mode in ("grid", "random"):
                    cases.append(decorate_batcher_case(rng, {"n": n, "b": b, "ratio": r, "mode": mode, "seed": bseed(rng), "shuffle": rng.chance(0.85)}))
    for n in range(0, 41):      # non-dyadic ratios (n*ratio is rounded in binary64 before round-half-even)
        for r in RATIOS_EXTRA + [rng.random(), rng.random()]:
            cases.append(decorate_batcher_case(rng, {"n": n, "b": rng.randint(1, 45), "ratio": r, "mode": rng.choice(["grid", "random"]),
                                                     "seed": bseed(rng), "shuffle": rng.chance(0.85)}))
    if ctx.thorough():
        for n in range(41, 201):
            for b in range(1, n + 6):
                for r in rng.sample(dy + RATIOS_EXTRA, 2) + [rng.random()]:
                    cases.append({"n": n, "b": b, "ratio": r, "mode": rng.choice(["grid", "random"]),
                                  "seed": bseed(rng), "shuffle": rng.chance(0.8)})
    else:
        for _ in range(ctx.n(300, 0)):
            n = rng.randint(41, 200)
            b = rng.choice([1, 2, 7, rng.randint(1, n), n - 1, n, n + 1])
            cases.append(decorate_batcher_case(rng, {"n": n, "b": max(1, b), "ratio": rng.choice(dy + RATIOS_EXTRA + [rng.random()]), "mode": rng.choice(["grid", "random"]),
                                                     "seed": bseed(rng), "shuffle": rng.chance(0.8)}))
    # malformed / edge stream: ratios outside [0,1), batch_size None, batch_size 0, unknown mode string
    for _ in range(ctx.n(120, 600)):
        n = rng.randint(0, 30)
        kind = rng.weighted([("bad_ratio", 3), ("none_batch", 3), ("zero_batch", 1), ("neg_batch", 2), ("odd_mode", 2), ("int_ratio", 1)])
        c = {"n": n, "b": rng.randint(1, 12), "ratio": rng.choice(dy), "mode": rng.choice(["grid", "random"]),
             "seed": rng.below(1 << 30), "shuffle": rng.chance(0.8), "kind": kind}
        if kind == "bad_ratio":
            c["ratio"] = rng.choice(RATIOS_BAD)
        elif kind == "none_batch":
            c["b"] = None
        elif kind == "zero_batch":
            c["b"] = 0
        elif kind == "neg_batch":       # range(0, n, b) is empty; ceil(n / b) <= 0: len() raises unless it is 0; val_len() is negative
            c["b"] = -rng.choice([1, 2, 3, 7, n + 1, max(1, n)])
        elif kind == "int_ratio":       # val_ratio handed over as an int / bool (0, 1, False, True)
            c["ratio"] = rng.choice([0, 1])
        else:
            c["mode"] = rng.choice(["Grid", "RANDOM", "regular", ""])
        cases.append(c)
    # growth 6: FIXED blocks (input classes independent of VERIF_SEED): grid split on both sides of 0.5 for n = 41..110, sizes around
    # 100 / 127 / 255 / 1000 / 32768 / 65537 with batch sizes that divide exactly / leave a remainder of one / equal / exceed the set
    from props import c09_g6
    cases += c09_g6.fixed_batcher_cases()
    return cases


def ask_batched(drv, reqs, budget=12000):
    """pipeline requests in groups small enough for the OS pipe buffers (Driver.ask_many writes 256
    requests before reading any answer, which deadlocks once requests + answers exceed ~128 kB)"""
    import json
    out, group, size = [], [], 0
    for r in reqs:
        k = len(json.dumps(r, separators=(",", ":"))) + 1
        if group and size + k > budget:
            out += drv.ask_many(group)
            group, size = [], 0
        group.append(r)
        size += k
    if group:
        out += drv.ask_many(group)
    return out


def run_batcher_stream(ctx, drv, cases):
    views, reqs = [], []
    for c in cases:
        v, r = batcher_case(ctx, None, c)
        views.append(v)
        reqs.append(r)
    answers = ask_batched(drv, reqs)
    for c, v, m in zip(cases, views, answers):
        ctx.count()
        n, b = c["n"], c["b"]
        kind = c.get("kind", "regular")
        ctx.dist[f"batcher:{kind}"] += 1
        ctx.dist[f"batcher:mode={c['mode'] if c['mode'] in ('grid', 'random') else 'other'}"] += 1
        nval = len(v["val"])
        ctx.dist["batcher:n_val=" + ("0" if nval == 0 else "all" if nval == n else "part")] += 1
        if c.get("rng_form") or c.get("abandon") or c["seed"] == 0:
            ctx.dist["batcher:" + ("seed=0 " if c["seed"] == 0 else "") + ("generator-form " if c.get("rng_form") else "") + ("abandoned-epoch-first" if c.get("abandon") else "")] += 1
        if b is not None and b > 0 and n > 0:
            ctx.dist["batcher:b " + ("=1" if b == 1 else ">n_train" if b > len(v["train"]) else "divides" if len(v["train"]) % b == 0 else "non-dividing")] += 1
        if n >= 2:
            ctx.mark(("batcher", n, b, nval, c["mode"], c["shuffle"]))
        if "driver" in str(m.get("err", "")):
            raise HarnessError(f"driver error {m}")
        mv = m.get("ok", m)
        mcmp = {k: mv.get(k) for k in v}
        if mcmp != v:
            ctx.disagree("batcher", c, mcmp, v, note=f"n={n} b={b} ratio={c['ratio']} mode={c['mode']}")
        batcher_predicate(ctx, c, v)
        if kind == "regular" and n >= 6 and nval > 0 and b and 1 < b < n:
            ctx.sample({"stream": "batcher", "case": c, "train": v["train"], "val": v["val"], "first_epoch": v["epochs"][0], "len": v["len"]}, limit=2)


# ---------------------------------------------------------------------------------------
# stream (a1): user supplied train_indices / val_indices

def gen_user_cases(ctx):
    rng = ctx.rng.fork(7)
    cases = []
    for _ in range(ctx.n(400, 4000)):
        n = rng.randint(1, 30)
        kind = rng.weighted([("partition", 6), ("partition_unsorted", 3), ("overlap", 1), ("missing", 1), ("only_train", 1), ("only_val", 1)])
        idx = rng.shuffle(list(range(n)))
        nv = rng.randint(0, n)
        val, train = idx[:nv], idx[nv:]
        if kind == "partition":
            val, train = sorted(val), sorted(train)
        elif kind == "overlap" and train:
            val = val + [train[0]]
        elif kind == "missing" and train:
            train = train[1:]
        c = {"stream": "user", "n": n, "b": rng.choice([1, 2, 3, rng.randint(1, n + 2)]), "ratio": rng.choice([0.0, 0.25, 0.5]), "mode": rng.choice(["grid", "random"]),
             "seed": rng.below(1 << 30), "shuffle": rng.chance(0.8), "kind": kind,
             "train": None if kind == "only_val" else train, "val": None if kind == "only_train" else val}
        cases.append(c)
    return cases


def run_user_stream(ctx, drv, cases):
    import numpy as np
    from quantem.diffractive_imaging.ptycho_utils import SimpleBatcher
    from qv.driver import f2b
    reqs, views = [], []
    for c in cases:
        n, b = c["n"], c["b"]
        g = np.random.default_rng(c["seed"])
        orders = []
        try:
            B = SimpleBatcher(n, b, shuffle=c["shuffle"], rng=c["seed"], val_ratio=c["ratio"], val_mode=c["mode"],
                              train_indices=None if c["train"] is None else np.array(c["train"], dtype=int),
                              val_indices=None if c["val"] is None else np.array(c["val"], dtype=int))
            train = [int(x) for x in B.train_indices]
            view = {"train": train, "val": [int(x) for x in B.val_indices], "epochs": []}
            for _ in range(2):
                view["epochs"].append(capped(iter(B), 2 * n + 8))
                orders.append([int(x) for x in g.permutation(B.train_indices)] if c["shuffle"] else list(train))
            view.update({"len": len(B), "val_batches": capped(B.iter_val(), 2 * n + 8), "val_len": B.val_len(),
                         "has_validation": bool(B.has_validation)})
            view = {"ok": view}
        except Exception as e:  # noqa
            view = {"err": type(e).__name__}
        views.append(view)
        reqs.append({"op": "init_user", "n": n, "ratio": f2b(c["ratio"]), "mode": c["mode"], "perm": [], "b": b, "orders": orders,
                     "train": c["train"], "val": c["val"]})
    for c, v, m in zip(cases, views, ask_batched(drv, reqs)):
        ctx.count()
        ctx.dist[f"user:{c['kind']}"] += 1
        ctx.mark(("user", c["n"], c["b"], c["kind"], c["shuffle"]))
        if "driver" in str(m.get("err", "")):
            raise HarnessError(f"driver error {m}")
        if m != v:
            ctx.disagree("user-indices", c, m, v, note=f"kind={c['kind']}")
        if c["kind"] in ("only_train", "only_val"):
            if "ok" in v:      # (the error kind is compared with the model only)
                ctx.pred_fail("user-indices-one-missing", "SimpleBatcher accepted train_indices without val_indices (or vice versa)", c, observed=v, required="an exception")
        elif "ok" in v:
            if v["ok"]["train"] != c["train"] or v["ok"]["val"] != c["val"]:
                ctx.pred_fail("user-indices-altered", "SimpleBatcher does not use the user's train/val indices as given", c,
                              observed={"train": v["ok"]["train"], "val": v["ok"]["val"]}, required={"train": c["train"], "val": c["val"]})
            if c["kind"] in ("partition", "partition_unsorted"):
                batcher_predicate(ctx, c, v["ok"])       # the user's lists are a partition: every clause applies
        else:
            ctx.pred_fail("user-indices-raises", f"SimpleBatcher raised {v['err']} on user supplied indices", c, observed=v, required="a batcher")


# ---------------------------------------------------------------------------------------
# stream (a2): subdivide_batches / generate_batches

def subdivide_impl(n, nb, mb, start):
    from quantem.core.utils.utils import generate_batches, subdivide_batches
    try:
        sizes = [int(x) for x in subdivide_batches(n, nb, mb)]
        ranges = [[int(a), int(b)] for a, b in generate_batches(n, nb, mb, start)]
        return {"ok": {"sizes": sizes, "ranges": ranges}}
    except Exception as e:  # noqa
        return {"err": type(e).__name__}


def run_subdivide_stream(ctx, drv):
    nmax = 60 if ctx.thorough() else 32
    cases = []
    for n in range(0, nmax + 1):
        for nb in range(0, n + 3):
            cases.append({"n": n, "nb": nb, "mb": None, "start": 0 if (n + nb) % 2 else 7})
        for mb in range(0, nmax + 6):
            cases.append({"n": n, "nb": None, "mb": mb, "start": 0 if (n + mb) % 3 else 11})
    cases += [{"n": 5, "nb": 2, "mb": 3, "start": 0}, {"n": 5, "nb": None, "mb": None, "start": 0}]
    answers = ask_batched(drv, [{"op": "subdivide", **c} for c in cases])
    for c, m in zip(cases, answers):
        ctx.count()
        impl = subdivide_impl(c["n"], c["nb"], c["mb"], c["start"])
        ctx.dist["subdivide:" + (impl.get("err") or "ok")] += 1
        if c["n"] >= 2:
            ctx.mark(("subdivide", c["n"], c["nb"], c["mb"]))
        if m != impl:
            ctx.disagree("subdivide", c, m, impl)
        if "ok" in impl:
            sizes, ranges = impl["ok"]["sizes"], impl["ok"]["ranges"]
            n = c["n"]
            covered = [i for a, b in ranges for i in range(a, b)]
            bad = None
            if sum(sizes) != n:
                bad = "sizes do not sum to num_items"
            elif covered != list(range(c["start"], c["start"] + n)):
                bad = "ranges are not contiguous / do not tile [start, start+n)"
            elif sizes and max(sizes) - min(sizes) > 1:
                bad = "sizes differ by more than one"
            elif c["mb"] is not None and sizes and max(sizes) > c["mb"]:
                bad = "a batch exceeds max_batch"
            elif c["nb"] is not None and len(sizes) != c["nb"]:
                bad = "number of batches differs from num_batches"
            elif [b - a for a, b in ranges] != sizes:
                bad = "ranges do not have the subdivide_batches sizes"
            if bad:
                ctx.pred_fail("subdivide-batches", bad, {"stream": "subdivide", **c}, observed=impl["ok"], required="contiguous balanced tiling")
    ctx.sample({"stream": "subdivide", "case": {"n": 10, "mb": 4, "start": 5}, "impl": subdivide_impl(10, None, 4, 5)}, limit=5)


# ---------------------------------------------------------------------------------------
# stream (b): numeric invariance on a tiny real problem

def divisors(n):
    return [d for d in range(1, n + 1) if n % d == 0]


def pick_seed(rng):
    """(seed, form): 0, small ints, values >= 2**32, >= 2**64 and 128-bit entropies, through every form rng= accepts"""
    form = rng.weighted([("int", 4), ("np_generator", 3), ("torch_generator", 2)])
    size = rng.weighted([("zero", 2), ("small", 3), ("ge32", 3), ("ge64", 2 if form != "torch_generator" else 0), ("bits128", 2 if form != "torch_generator" else 0)])
    if size == "zero":
        seed = 0            # a legitimate seed that is falsy (`if seed:` / `seed or default` would treat it as "no seed")
    elif size == "small":
        seed = rng.below(1 << 20)
    elif size == "ge32":
        seed = (1 << rng.randint(32, 62)) + rng.below(1 << 20)
    elif size == "ge64":
        seed = (1 << rng.randint(64, 100)) + rng.below(1 << 30)
    else:
        seed = (rng.next() << 64) | rng.next() | (1 << 127)
    return seed, form, size


def gen_numeric_cfg(rng, i):
    scan = rng.choice([(4, 3), (3, 4), (4, 4), (5, 3), (3, 5), (5, 4), (6, 4), (4, 5), (6, 5), (6, 6), (2, 6), (6, 3)])
    roi = rng.choice([(8, 8), (8, 10), (10, 8), (10, 10), (12, 12), (9, 9), (8, 12), (11, 8)])
    val = rng.weighted([((0.0, "grid"), 4), ((0.25, "grid"), 2), ((0.25, "random"), 1), ((0.2, "random"), 1), ((0.5, "grid"), 1), ((0.5, "random"), 1), ((0.75, "grid"), 1)])
    sd, form, size = pick_seed(rng)
    return {"scan": list(scan), "roi": list(roi), "seed": rng.below(1000), "rng_seed": sd, "rng_form": form, "seed_size": size,
            "loss_type": LOSS_TYPES[i % len(LOSS_TYPES)] if i < 2 * len(LOSS_TYPES) else rng.choice(LOSS_TYPES),
            "obj_init": rng.choice(["uniform", "random", "random"]), "num_probes": rng.weighted([(1, 3), (2, 1)]),
            "val_ratio": val[0], "val_mode": val[1], "obj_type": rng.weighted([("complex", 3), ("pure_phase", 1), ("potential", 1)])}


def build(cfg, canonical=False):
    """the object of a configuration.  Alternative entry points of the same settings (unless `canonical`):
    rng_route "setter": built with another seed, then `p.rng = <seed in its form>`; val_route "attribute": preprocessed with
    val_ratio 0, then `p.val_ratio = …; p.val_mode = …`.  All must behave like constructor / preprocess arguments."""
    from props import ptycho_tiny as pt
    rng_route = "constructor" if canonical else cfg.get("rng_route", "constructor")
    val_route = "preprocess" if canonical else cfg.get("val_route", "preprocess")
    p = pt.make_ptycho(scan=tuple(cfg["scan"]), roi=tuple(cfg["roi"]), seed=cfg["seed"], rng_seed=cfg["rng_seed"], rng_form=cfg.get("rng_form", "int"),
                       num_probes=cfg["num_probes"], obj_type=cfg["obj_type"], obj_init=cfg["obj_init"],
                       val_ratio=cfg["val_ratio"] if val_route == "preprocess" else 0.0, val_mode=cfg["val_mode"] if val_route == "preprocess" else "grid",
                       ptycho_rng_seed=None if rng_route == "constructor" else (cfg["rng_seed"] ^ 0x5A5A) + 1)
    if rng_route == "setter":
        p.rng = pt.make_rng(cfg["rng_seed"], cfg.get("rng_form", "int"))
    if val_route == "attribute":
        p.val_ratio = cfg["val_ratio"]
        p.val_mode = cfg["val_mode"]
    return p


def params_snapshot(p):
    return [p.obj_model._obj.detach().clone(), p.probe_model._probe.detach().clone()]


def twin_schedule(cfg, n_total, train, b, epochs):
    """the batches the model says `reconstruct` visits: twin generator seeded like the run"""
    import numpy as np
    g = np.random.default_rng(cfg["rng_seed"])
    perm = []
    if py_nval(n_total, cfg["val_ratio"]) > 0 and cfg["val_mode"] == "random":
        perm = [int(x) for x in g.permutation(np.arange(n_total))]
    orders = [[int(x) for x in g.permutation(np.asarray(train))] for _ in range(epochs)]
    return perm, orders


def numeric_case(ctx, drv, cfg, only_b=None):
    import numpy as np
    import torch
    from props import ptycho_tiny as pt
    from qv.driver import b2f, f2b
    lt = cfg["loss_type"]
    p = build(cfg)
    N = int(p.dset.num_gpts)
    key_cfg = (tuple(cfg["scan"]), tuple(cfg["roi"]), lt, cfg["val_ratio"], cfg["val_mode"], cfg["num_probes"], cfg["obj_type"])
    with pt.no_gc():
        # --- per-pattern run (b = 1): gives the per-pattern loss terms and the split
        ones = pt.record_batches(p, 1, loss_type=lt)
        snap = params_snapshot(p)
        tr1 = [e for e in ones if not e["val"]]
        va1 = [e for e in ones if e["val"]]
        train = sorted(e["indices"][0] for e in tr1)
        val = [e["indices"][0] for e in va1]
        n = len(train)
        ell = [0.0] * N      # ell_i / mu  (model is asked with mu = 1)
        for e in ones:
            ell[e["indices"][0]] = e["loss"] / N      # L_i = ell_i / (1/N) / mu
        ctx.dist[f"numeric:loss={lt}"] += 1
        ctx.dist[f"numeric:n_train={n}"] += 1
        ctx.dist[f"numeric:val={cfg['val_ratio']}/{cfg['val_mode']}"] += 1
        ctx.dist[f"numeric:probes={cfg['num_probes']},obj={cfg['obj_type']},{cfg['obj_init']}"] += 1
        if sorted(train + val) != list(range(N)):
            ctx.pred_fail("reconstruct-split-not-partition", "patterns visited by reconstruct (train + validation pass) are not a partition of all patterns",
                          {"stream": "numeric", "cfg": cfg}, observed={"train": train, "val": val}, required=f"partition of range({N})")
        # --- full batch
        full = pt.record_batches(p, n, loss_type=lt)
        ftr = [e for e in full if not e["val"]]
        if len(ftr) == 1 and len(ftr[0]["indices"]) == n and sorted(ftr[0]["indices"]) != train:
            ctx.pred_fail("split-changed-after-reset", "after reset=True the same seeded object trains on a different training set than in its previous run",
                          {"stream": "numeric", "cfg": cfg}, observed={"after_reset": sorted(ftr[0]["indices"])}, required={"first_run": train})
            return
        if len(ftr) != 1 or sorted(ftr[0]["indices"]) != train:
            ctx.pred_fail("full-batch-not-single", "batch_size = |train| does not give exactly one batch holding every training pattern",
                          {"stream": "numeric", "cfg": cfg}, observed=[e["indices"] for e in ftr], required=train)
            return
        Lf, Gf = ftr[0]["loss"], ftr[0]["grads"]
        Lf_recorded = float(p.iter_losses[-1])      # what reconstruct itself records for the full-batch epoch
        # ---- "one batch holding the whole training set" in every way the library allows: batch_size = n_train (above),
        # = num_gpts, > num_gpts, and the default (None on a fresh object → num_gpts).  With a validation split these differ
        # from n_train; loss and gradients (the library's own scaling) must be the same for all of them.
        if only_b is None or only_b in ("default", N, N + 3):
            for wb in (["default", N, N + 3] if only_b is None else [only_b]):
                ctx.count()
                ctx.dist[f"numeric:whole-set b={'default' if wb == 'default' else 'N' if wb == N else 'N+3'}"] += 1
                ctx.mark(("numeric-whole",) + key_cfg + (str(wb),))
                pw = build(cfg) if wb == "default" else p
                rw = [e for e in pt.record_batches(pw, None if wb == "default" else wb, loss_type=lt) if not e["val"]]
                wcase = {"stream": "numeric", "cfg": cfg, "b": wb}
                if len(rw) != 1 or sorted(rw[0]["indices"]) != train:
                    ctx.pred_fail("whole-set-batch-not-single", f"batch_size={wb} (>= number of training patterns) does not give exactly one batch holding every training pattern", wcase,
                                  observed=[e["indices"] for e in rw], required=train)
                    continue
                dl = abs(rw[0]["loss"] - Lf) / max(abs(Lf), 1e-6)
                ctx.stat_max("invariance_whole_set_loss_rel_dev", dl)
                if dl > TOL32:
                    ctx.pred_fail("invariance-whole-set-batch-size", f"the loss of the single batch holding the whole training set depends on the batch size it was requested with (loss_type={lt})", wcase,
                                  observed={"batch_size": wb if wb != "default" else f"default ({N})", "loss": rw[0]["loss"], "ratio": rw[0]["loss"] / Lf if Lf else None,
                                            "n_train": n, "num_gpts": N}, required={"batch_size": n, "loss": Lf})
                rl = float(pw.iter_losses[-1])
                if abs(rl - Lf_recorded) / max(abs(Lf_recorded), 1e-6) > TOL32:
                    ctx.pred_fail("invariance-whole-set-batch-size", f"the recorded iter_losses entry of a whole-set epoch depends on the requested batch size (loss_type={lt})", wcase,
                                  observed={"batch_size": str(wb), "iter_loss": rl}, required={"batch_size": n, "iter_loss": Lf_recorded})
                for which in ("object", "probe"):
                    gf, gw = Gf[which], rw[0]["grads"][which]
                    if gf is None or gw is None:
                        continue
                    gs = float(np.abs(gf).max())
                    dg = float(np.abs(gw - gf).max()) / max(gs, 1e-30)
                    ctx.stat_max("invariance_whole_set_grad_rel_dev", dg)
                    if gs > 0 and dg > TOL32:
                        ctx.pred_fail("invariance-whole-set-batch-size", f"the {which} gradient of the single batch holding the whole training set depends on the requested batch size (loss_type={lt})", wcase,
                                      observed={"batch_size": str(wb), "max_abs_dev_rel_to_full": dg, "n_train": n, "num_gpts": N}, required="equal to float32 accuracy (5e-4 relative)")
            if only_b is not None:
                return
        bs = divisors(n)
        nondiv = [b for b in range(2, n + 3) if n % b != 0]
        rng = ctx.rng.fork(cfg["seed"] * 7919 + n)
        extra = rng.sample(nondiv, min(2, len(nondiv)))
        rem1 = [b for b in nondiv if b < n and n % b == 1]          # growth 6: the last batch holds ONE pattern (smallest and largest such b), fixed
        extra = extra + [b for b in dict.fromkeys(rem1[:1] + rem1[-1:]) if b not in extra]
        todo = [b for b in bs if b != n] + extra
        if only_b is not None:
            todo = [only_b]
        for b in todo:
            rec = pt.record_batches(p, b, loss_type=lt)
            now = params_snapshot(p)
            if not all(torch.equal(a, c) for a, c in zip(snap, now)):
                raise HarnessError("harness: parameters changed although the optimizer step was skipped")
            tr = [e for e in rec if not e["val"]]
            case = {"stream": "numeric", "cfg": cfg, "b": b}
            ctx.count()
            ctx.mark(("numeric",) + key_cfg + (b,))
            ctx.dist["numeric:b " + ("=1" if b == 1 else "divides" if n % b == 0 else "remainder-one" if n % b == 1 else "non-dividing")] += 1
            # ---- correspondence 1: the schedule inside reconstruct = the model's schedule
            perm, orders = twin_schedule(cfg, N, train, b, 1)
            m = drv.ask({"op": "batcher", "n": N, "ratio": f2b(cfg["val_ratio"]), "mode": cfg["val_mode"], "perm": perm, "b": b, "orders": orders})
            mv = m.get("ok", m)
            impl_sched = {"train": train, "val": val, "epochs": [[e["indices"] for e in tr]], "len": len(tr),
                          "val_batches": [e["indices"] for e in rec if e["val"]]}
            if {k: mv.get(k) for k in impl_sched} != impl_sched:
                ctx.disagree("reconstruct-schedule", case, {k: mv.get(k) for k in impl_sched}, impl_sched, note="batches visited inside reconstruct")
            # ---- correspondence 2: batch-fraction scaling (model at binary64, mu = 1)
            order = [i for e in tr for i in e["indices"]]
            m2 = drv.ask({"op": "losses", "N": N, "mu": f2b(1.0), "b": b, "order": order, "ell": [f2b(x) for x in ell]})
            if "ok" not in m2:
                raise HarnessError(f"driver error {m2}")
            mb_ = [b2f(x) for x in m2["ok"]["batch"]]
            impl_b = [e["loss"] for e in tr]
            scale = max(1.0, max(abs(x) for x in mb_))
            dev = max(abs(a - c) for a, c in zip(mb_, impl_b)) / scale if len(mb_) == len(impl_b) else float("inf")
            ctx.stat_max("loss_scaling_model_vs_impl_rel", dev)
            if dev > TOL32:
                ctx.disagree("loss-scaling", case, mb_, impl_b, note=f"per-batch loss vs model batchLoss, rel dev {dev:.3g}")
            ep_model = b2f(m2["ok"]["epoch"])
            ep_impl = float(p.iter_losses[-1])
            dev = abs(ep_model - ep_impl) / max(1.0, abs(ep_model))
            ctx.stat_max("epoch_loss_model_vs_impl_rel", dev)
            if dev > TOL32:
                ctx.disagree("epoch-loss", case, ep_model, ep_impl, note="iter_losses[-1] vs model epochLoss")
            # ---- property predicate (every batch size): the number of batches reconstruct REPORTS (it divides the summed batch losses by
            # len(batcher)) is the number it was handed — parameters are frozen, so the recorded entry must be sum / yielded
            if tr:
                want = sum(e["loss"] for e in tr) / len(tr)
                if abs(ep_impl - want) > 1e-9 * max(1.0, abs(want)):
                    ctx.pred_fail("reconstruct-len-vs-yielded", f"the iter_losses entry of an epoch is not the sum of the losses of the {len(tr)} batches yielded in it divided by their number "
                                  "(the reported number of batches differs from the number yielded)", case,
                                  observed={"iter_loss": ep_impl, "sum_of_batch_losses": want * len(tr), "implied_number_of_batches": (want * len(tr) / ep_impl) if ep_impl else None, "b": b, "n_train": n},
                                  required={"batches_yielded": len(tr), "mean_of_batch_losses": want})
            # ---- property predicate: mean of per-batch losses / gradients = full batch (divisors only)
            if n % b == 0:
                ml = float(np.mean([e["loss"] for e in tr]))
                dl = abs(ml - Lf) / max(abs(Lf), 1e-6)
                ctx.stat_max("invariance_loss_rel_dev", dl)
                fail_key = f"invariance-{lt}"
                if dl > TOL32:
                    ctx.pred_fail(fail_key, f"mean of per-batch losses differs from the full-batch loss (loss_type={lt})", case,
                                  observed={"mean_batch_loss": ml, "ratio_to_full": ml / Lf if Lf else None, "b": b, "n_train": n},
                                  required={"full_batch_loss": Lf})
                rec_b = float(p.iter_losses[-1])     # the mean as computed and recorded by reconstruct
                dr = abs(rec_b - Lf_recorded) / max(abs(Lf_recorded), 1e-6)
                ctx.stat_max("invariance_recorded_iter_loss_rel_dev", dr)
                if dr > TOL32:
                    ctx.pred_fail("invariance-recorded-loss", f"iter_losses entry of a divisor batch size differs from the full-batch entry (loss_type={lt})", case,
                                  observed={"iter_loss": rec_b, "b": b, "n_train": n}, required={"full_batch_iter_loss": Lf_recorded})
                for which in ("object", "probe"):
                    gf = Gf[which]
                    if gf is None:
                        continue
                    mg = np.mean([e["grads"][which] for e in tr], axis=0)
                    gs = float(np.abs(gf).max())
                    dg = float(np.abs(mg - gf).max()) / max(gs, 1e-30)
                    ctx.stat_max("invariance_grad_rel_dev", dg)
                    if gs > 0 and dg > TOL32:
                        ctx.pred_fail(fail_key, f"mean of per-batch {which} gradients differs from the full-batch gradient (loss_type={lt})", case,
                                      observed={"max_abs_dev_rel_to_full": dg, "b": b, "n_train": n}, required="equal to float32 accuracy (5e-4 relative)")
        # ---- analytic path: measured only
        if only_b is None and lt == "l2_amplitude" and cfg["obj_type"] != "potential":
            try:
                fa = [e for e in pt.record_batches(p, n, loss_type=lt, autograd=False) if not e["val"]]
                b = [d for d in bs if 1 < d < n][:1]
                if b and fa and fa[0]["grads"]["object"] is not None:
                    ra = [e for e in pt.record_batches(p, b[0], loss_type=lt, autograd=False) if not e["val"]]
                    mg = np.mean([e["grads"]["object"] for e in ra], axis=0)
                    gf = fa[0]["grads"]["object"]
                    ctx.stat_max("analytic_grad_rel_dev", float(np.abs(mg - gf).max() / max(np.abs(gf).max(), 1e-30)))
            except Exception as e:  # noqa  (not judged)
                ctx.dist["numeric:analytic-path-error:" + type(e).__name__] += 1
    ctx.sample({"stream": "numeric", "cfg": cfg, "n_train": n, "batch_sizes": todo, "full_batch_loss": Lf}, limit=4)


# ---------------------------------------------------------------------------------------
# stream (c): seeded determinism

def gen_det_cfg(rng):
    c = gen_numeric_cfg(rng, 99)
    c["loss_type"] = rng.choice(LOSS_TYPES[:4])
    c["iters"] = rng.randint(2, 4)
    c["lr"] = rng.choice([0.05, 0.1, 0.2])
    return c


def determinism_case(ctx, cfg, b):
    import numpy as np
    from props import ptycho_tiny as pt

    def go(p, reset=True):
        p.reconstruct(num_iters=cfg["iters"], reset=reset, batch_size=b, loss_type=cfg["loss_type"],
                      optimizer_params=pt.sgd_params(cfg["lr"], cfg["lr"]), constraints={})
        return [float(x) for x in p.iter_losses], [float(x) for x in p.val_iter_losses]
    case = {"stream": "determinism", "cfg": cfg, "b": b}
    with pt.no_gc():
        p1, p2 = build(cfg), build(cfg)
        a, av = go(p1)
        c, cv = go(p2)
        r, rv = go(p1)       # the same run after a reset
    ctx.count()
    ctx.mark(("determinism", tuple(cfg["scan"]), tuple(cfg["roi"]), cfg["loss_type"], b, cfg["val_ratio"], cfg["val_mode"], cfg["num_probes"]))
    ctx.dist["determinism:cases"] += 1
    ctx.dist[f"determinism:seed={cfg.get('seed_size')}/{cfg.get('rng_form')}"] += 1
    if len(a) != cfg["iters"] or not all(math.isfinite(x) for x in a):
        ctx.pred_fail("loss-history-shape", "iter_losses does not hold one finite value per iteration", case, observed=a, required=f"{cfg['iters']} finite values")
    if a != c or av != cv:
        ctx.pred_fail("determinism-same-seed", "two runs started from the same seed produced different loss histories", case,
                      observed={"run1": a, "run2": c, "val1": av, "val2": cv}, required="bit-identical")
    if a != r or av != rv:
        ctx.pred_fail("determinism-after-reset", "the same run after reset=True produced a different loss history", case,
                      observed={"first": a, "after_reset": r, "val_first": av, "val_after_reset": rv}, required="bit-identical")
    ctx.extra.setdefault("determinism_examples", [])
    if len(ctx.extra["determinism_examples"]) < 2:
        ctx.extra["determinism_examples"].append({"cfg": cfg, "b": b, "iter_losses": a})
    ctx.stat_max("determinism_loss_decrease_seen", 1.0 if a[-1] < a[0] else 0.0)


def run_schedule_predicate(ctx, case, N, bb, sched, vals, what, key="epoch-not-exactly-once-in-reconstruct"):
    """the schedule clauses on ONE reconstruct call of the real code: `sched[k]` = training batches of its k-th iteration,
    `vals[k]` = validation batches.  (Every call builds a new batcher — in random mode a new split — so the reference sets are
    those of this very call.)  First epoch + validation pass partition all patterns; every epoch visits the training set
    exactly once, in ceil(n_train/b) non-empty batches of at most b patterns."""
    if not sched:
        return True
    train = sorted(i for batch in sched[0] for i in batch)
    val = [i for batch in (vals[0] if vals else []) for i in batch]
    if sorted(train + val) != list(range(N)):
        ctx.pred_fail(key, f"{what}: the first epoch and the validation pass do not partition all patterns", case,
                      observed={"train_visited": train, "val_visited": val}, required=f"a partition of range({N})")
        return False
    nb = -(-len(train) // bb)
    for k, ep in enumerate(sched):
        flat = [i for batch in ep for i in batch]
        if sorted(flat) != train or len(ep) != nb or any(len(x) == 0 or len(x) > bb for x in ep):
            ctx.pred_fail(key, f"{what}: an epoch does not visit every training pattern exactly once in ceil(n_train/b) batches", dict(case, epoch=k),
                          observed={"batches": ep}, required={"train": train, "number_of_batches": nb, "batch_size": bb})
            return False
        if vals and k < len(vals) and sorted(i for batch in vals[k] for i in batch) != sorted(val):
            ctx.pred_fail(key, f"{what}: a validation pass does not visit every validation pattern exactly once", dict(case, epoch=k),
                          observed={"val_batches": vals[k]}, required={"val": val})
            return False
    return True


def history_case(ctx, drv, cfg, b):
    """multi-step history on ONE object: run(reset=True) = A; continue WITHOUT reset for k iterations;
    run(reset=True) = C; for two continuation lengths.  "The same run after a reset produces an identical
    loss history": C == A bit for bit, with the identical batch schedule, and both equal a fresh object
    built with the same seed.  (Catches state that survives reset_recon only after the generator has been
    advanced by an un-reset run, e.g. a batcher constructed before the reset.)"""
    from props import ptycho_tiny as pt
    from qv.driver import b2f, f2b
    iters = cfg["iters"]

    log = []      # every reconstruct call made on the history object, for the model tie

    routes = list(cfg.get("reset_routes", []))     # how each later reset of the history is requested
    b_attr = cfg.get("b_route", "argument") == "attribute"

    def reset_and_go(p, n_it):
        """one reset run through the next route: reconstruct(reset=True) | reset_recon() then reconstruct() |
        Ptychography.from_ptychography(p) then reconstruct() on the returned object.  Returns (object to go on with, result)."""
        from quantem.diffractive_imaging.ptychography import Ptychography
        route = routes.pop(0) if routes else "arg"
        ctx.dist[f"history:reset route={route}"] += 1
        if route == "method":
            p.reset_recon()
        elif route == "classmethod":
            p = Ptychography.from_ptychography(p)
        r = go(p, route == "arg", n_it, keep=True, first=True, route=route)
        r["route"] = route
        return p, r

    def go(p, reset, n_it, keep=False, first=False, route=None, bb=None):
        bb = b if bb is None else bb      # (continuations may use another batch size than the reset runs)
        if b_attr:
            p.batch_size = bb         # batch size through the attribute, reconstruct(batch_size=None)
        rec = pt.record_batches(p, None if b_attr else bb, num_iters=n_it, freeze=False, reset=reset, loss_type=cfg["loss_type"],
                                optimizer_params=pt.sgd_params(cfg["lr"], cfg["lr"]), keep_optimizers=(not reset) and not first)
        sched = [(e["iter"], e["val"], e["indices"]) for e in rec]
        n_hist = len(p.iter_losses)
        its = sorted({e["iter"] for e in rec})
        run_schedule_predicate(ctx, dict(case, call=len(log), call_b=bb, call_reset=reset, call_route=route or "arg"), int(p.dset.num_gpts), bb,
                               [[e["indices"] for e in rec if not e["val"] and e["iter"] == t] for t in its],
                               [[e["indices"] for e in rec if e["val"] and e["iter"] == t] for t in its],
                               f"call #{len(log)} of the history (reset={reset}, batch_size={bb})")
        if keep:
            consumed, vals = 0, []
            for e in rec:
                if e["val"]:
                    vals.append([consumed, e["indices"][0], f2b(e["loss"])])
                else:
                    consumed += 1
            it0 = min([e["iter"] for e in rec], default=0)
            log.append({"reset": reset, "route": route or "arg", "iters": n_it, "b": bb, "gen_state": p.rng.bit_generator.state["state"], "train_losses": [f2b(e["loss"]) for e in rec if not e["val"]], "val": vals,
                        "impl": {"schedule": [[e["indices"] for e in rec if not e["val"] and e["iter"] == it0 + k] for k in range(n_it)],
                                 "iter_losses": [float(x) for x in p.iter_losses], "val_losses": [float(x) for x in p.val_iter_losses]}})
        return {"losses": [float(x) for x in p.iter_losses][n_hist - n_it:], "val": [float(x) for x in p.val_iter_losses][-n_it:] if len(p.val_iter_losses) else [],
                "sched": [[it, v, idx] for it, v, idx in sched], "n_hist": n_hist}
    case = {"stream": "history", "cfg": cfg, "b": b}
    cont_b = cfg.get("cont_b")
    with pt.no_gc():
        p = build(cfg)
        first_reset = cfg.get("first_reset", True)       # False: the very first run on the fresh object is made WITHOUT reset
        A = go(p, first_reset, iters, keep=True, first=True)
        runs = []
        if not first_reset:
            p, r = reset_and_go(p, iters)                     # fresh object → run → reset run: must equal the first run
            runs.append((0, r))
        for k in cfg.get("cont", [1, 2]):
            cont = go(p, False, k, keep=True, bb=cont_b)
            if cont["n_hist"] != iters + k:
                ctx.pred_fail("continue-history-length", "continuing without reset does not append to the loss history", dict(case, k=k),
                              observed=cont["n_hist"], required=iters + k)
            p, r = reset_and_go(p, iters)
            runs.append((k, r))
        b_attr = False
        F = go(build(cfg, canonical=True), rng_first_reset(cfg), iters, first=True)   # constructor seed, preprocess split, batch size by argument
    N = int(p.dset.num_gpts)
    for k, C in runs:
        ctx.count()
        ctx.mark(("history", tuple(cfg["scan"]), tuple(cfg["roi"]), cfg["loss_type"], b, cfg["val_ratio"], cfg["val_mode"], k, cfg.get("rng_form"), cfg.get("seed_size"), cfg.get("first_reset", True)))
        ctx.dist[f"history:val={'0' if cfg['val_ratio'] == 0 else cfg['val_mode']},cont={k}"] += 1
        ctx.dist[f"history:seed={cfg.get('seed_size')}/{cfg.get('rng_form')},first_reset={cfg.get('first_reset', True)}"] += 1
        ck = dict(case, k=k, reset_route=C.get("route", "arg"))
        if k == 0 and (C["losses"] != A["losses"] or C["val"] != A["val"] or C["sched"] != A["sched"]):
            ctx.pred_fail("determinism-reset-after-first-run", f"fresh seeded object: run WITHOUT reset, then a reset run [{RESET_ROUTES[C.get('route', 'arg')]}]: its loss history / batch schedule differs from the first run", ck,
                          observed={"first": A["losses"], "after_reset": C["losses"], "first_batches": A["sched"][:1], "after_reset_batches": C["sched"][:1],
                                    "rng_seed": cfg["rng_seed"], "rng_form": cfg.get("rng_form")}, required="bit-identical")
            continue
        if C["losses"] != A["losses"] or C["val"] != A["val"]:
            ctx.pred_fail("determinism-reset-after-continue", f"run(reset={cfg.get('first_reset', True)}), continue {k} iteration(s) without reset, reset run [{RESET_ROUTES[C.get('route', 'arg')]}]: its loss history differs from the first run", ck,
                          observed={"first": A["losses"], "after_continue_and_reset": C["losses"], "val_first": A["val"], "val_after": C["val"]}, required="bit-identical")
        if C["sched"] != A["sched"]:
            i = next((j for j, (x, y) in enumerate(zip(A["sched"], C["sched"])) if x != y), min(len(A["sched"]), len(C["sched"])))
            ctx.pred_fail("schedule-reset-after-continue", f"after continuing {k} iteration(s) and resetting [{RESET_ROUTES[C.get('route', 'arg')]}], the batch schedule of the run differs from that of the first run", ck,
                          observed={"first_differing_batch": i, "first_run": A["sched"][i:i + 1], "after_reset": C["sched"][i:i + 1]}, required="identical batches in identical order")
        if C["losses"] != F["losses"] or C["sched"] != F["sched"]:
            ctx.pred_fail("determinism-fresh-vs-history", f"an object after (run, continue {k}, reset [{RESET_ROUTES[C.get('route', 'arg')]}]) does not reproduce a fresh object built with the same seed (constructor seed, preprocess split, batch size by argument)", ck,
                          observed={"after_history": C["losses"], "fresh": F["losses"]}, required="bit-identical losses and schedule")
    if A["losses"] != F["losses"] or A["sched"] != F["sched"]:
        ctx.pred_fail("determinism-same-seed", "two objects built with the same seed produced different loss histories / schedules", case,
                      observed={"run1": A["losses"], "run2": F["losses"]}, required="bit-identical")
    # correspondence: the schedule of the last reset run is the model's schedule for the seed
    train = sorted(i for it, v, idx in A["sched"] if not v and it == 0 for i in idx)
    perm, orders = twin_schedule(cfg, N, train, b, iters)
    m = drv.ask({"op": "batcher", "n": N, "ratio": f2b(cfg["val_ratio"]), "mode": cfg["val_mode"], "perm": perm, "b": b, "orders": orders})
    mv = m.get("ok", m)
    if "epochs" not in mv:
        raise HarnessError(f"driver error {m}")
    last = runs[-1][1] if runs else A
    impl_epochs = [[idx for it, v, idx in last["sched"] if not v and it == e] for e in range(iters)]
    if mv["epochs"] != impl_epochs:
        ctx.disagree("reconstruct-schedule-after-history", case, mv["epochs"], impl_epochs, note="batches of the reset run after (run, continue, reset) vs model schedule for the seed")
    # correspondence with the reconstruct / reset_recon state machine of the model (Model/Batcher.lean `reconstruct`):
    # the generator's draws are reproduced with a twin generator (table indexed by call position), the per-batch
    # losses are those recorded above; the model does reset, schedule, epoch-loss and validation-loss bookkeeping
    import numpy as np
    table, twin, pos = {}, None, 0
    for r in log:
        if twin is None or r["reset"] or r.get("route", "arg") != "arg":
            twin, pos = np.random.default_rng(cfg["rng_seed"]), 0
        perm = []
        if py_nval(N, cfg["val_ratio"]) > 0 and cfg["val_mode"] == "random":
            perm = [int(x) for x in twin.permutation(np.arange(N))]
            table.setdefault(pos, perm)
            pos += 1
        tr, _va = py_split(N, cfg["val_ratio"], cfg["val_mode"], perm)
        for _ in range(r["iters"]):
            table.setdefault(pos, [int(x) for x in twin.permutation(np.asarray(tr, dtype=int))])
            pos += 1
        # internal stage: the object's NumPy generator after the call is exactly where the modelled number of draws leaves it
        if twin.bit_generator.state["state"] != r["gen_state"]:
            ctx.disagree("generator-state", dict(case, run=log.index(r)), "state after the modelled draws (split draw + one permutation per iteration)",
                         "a different generator state", note=f"call #{log.index(r)} (reset={r['reset']}, route={r.get('route')}): p.rng is not where the model's draw count leaves a twin generator")
    m = drv.ask({"op": "history", "n": N, "ratio": f2b(cfg["val_ratio"]), "mode": cfg["val_mode"], "seed": 1,
                 "table": [table[i] for i in range(len(table))], "runs": [{k: v for k, v in r.items() if k not in ("impl", "gen_state")} for r in log]})
    if "ok" not in m:
        raise HarnessError(f"driver error {m}")
    for j, (r, mo) in enumerate(zip(log, m["ok"])):
        ctx.count()
        ctx.dist["history:model-tie reset=" + str(r["reset"])] += 1
        mv = {"schedule": mo["schedule"], "iter_losses": [b2f(x) for x in mo["iter_losses"]], "val_losses": [b2f(x) for x in mo["val_losses"]]}
        if mv != r["impl"]:
            ctx.disagree("reconstruct-state-machine", dict(case, run=j), mv, r["impl"],
                         note=f"call #{j} (reset={r['reset']}, iters={r['iters']}): schedule / iter_losses / val_iter_losses after the call")
        # the property's bookkeeping clause on the implementation itself: recorded epoch loss = mean over the yielded batches
        tl = [b2f(x) for x in r["train_losses"]]
        per = len(tl) // max(1, r["iters"])
        for k in range(r["iters"]):
            want = sum(tl[k * per:(k + 1) * per]) / max(1, per)
            got = r["impl"]["iter_losses"][len(r["impl"]["iter_losses"]) - r["iters"] + k]
            if abs(got - want) > 1e-12 * max(1.0, abs(want)):
                ctx.pred_fail("recorded-loss-not-mean", "an iter_losses entry is not the mean of the losses of the batches yielded in that iteration",
                              dict(case, run=j, iteration=k), observed=got, required=want)
    ctx.sample({"stream": "history", "cfg": cfg, "b": b, "losses_first_run": A["losses"], "continuations": cfg.get("cont", [1, 2])}, limit=6)


# ---------------------------------------------------------------------------------------
# stream (e): exception safety — a rejected configuration call must leave the schedule untouched

REJECTS = [("batch_size", -1), ("batch_size", 0), ("batch_size", -7), ("batch_size", "a"), ("batch_size", [3]),
           ("reconstruct_batch_size", -1), ("reconstruct_batch_size", 0), ("reconstruct_batch_size", "b"),
           ("val_ratio", 1.5), ("val_ratio", -0.25), ("val_ratio", "x"), ("val_mode", "Grid"), ("val_mode", ""), ("val_mode", 3),
           ("rng", "abc"), ("rng", 1.5), ("rng", -3), ("rng", [1, 2]), ("reconstruct_loss_type", "zz"), ("reconstruct_loss_type", "l3_amplitude")]


def do_call(p, kind, value, b):
    from props import ptycho_tiny as pt
    if kind == "reconstruct_batch_size":
        p.reconstruct(num_iters=1, batch_size=value, optimizer_params=pt.sgd_params())
    elif kind == "reconstruct_loss_type":
        p.reconstruct(num_iters=1, batch_size=b, loss_type=value, optimizer_params=pt.sgd_params())
    else:
        setattr(p, kind, value)


def rejected_case(ctx, drv, cfg, b, rej, follow_reset):
    """twin objects: both make a valid run; one then makes a configuration call that is REJECTED (exception caught by
    the user); both then call reconstruct(batch_size=None).  The follow-up run of the first object must visit every
    training pattern exactly once per epoch with len = batches yielded, and be bit-identical to the twin's."""
    from props import ptycho_tiny as pt
    kind, value = rej
    iters = 2
    if kind == "reconstruct_loss_type":
        # reconstruct() checks loss_type late: 'zz' is rejected by dset._set_targets after the optimizers of the call were
        # installed, 'l3_amplitude' ("amplitude" in it) only by error_estimate inside the first batch, after the batcher has
        # drawn from the generator.  A run that failed half-way is not a rejected *configuration* call; the property only
        # promises that a RESET afterwards reproduces the run
        follow_reset = True
    case = {"stream": "rejected", "cfg": cfg, "b": b, "rej": [kind, value], "follow_reset": follow_reset}

    def go(p, bb, reset, first=False):
        rec = pt.record_batches(p, bb, num_iters=iters, freeze=False, reset=reset, loss_type=cfg["loss_type"],
                                optimizer_params=pt.sgd_params(cfg["lr"], cfg["lr"]), keep_optimizers=(not reset) and not first)
        it0 = min([e["iter"] for e in rec], default=0)
        return {"sched": [[e["indices"] for e in rec if not e["val"] and e["iter"] == it0 + k] for k in range(iters)],
                "val": [[e["indices"] for e in rec if e["val"] and e["iter"] == it0 + k] for k in range(iters)],
                "losses": [float(x) for x in p.iter_losses], "val_losses": [float(x) for x in p.val_iter_losses]}
    with pt.no_gc():
        p, q = build(cfg), build(cfg)
        a1, a2 = go(p, b, True, first=True), go(q, b, True, first=True)
        try:
            do_call(p, kind, value, b)
            outcome = "accepted"
        except Exception as e:  # noqa
            outcome = type(e).__name__
        ctx.count()
        ctx.dist[f"rejected:{kind}={value!r} -> {outcome}"] += 1
        ctx.mark(("rejected", kind, repr(value), b, cfg["val_ratio"], cfg["val_mode"], follow_reset))
        # the model's accept/reject decision for this call (Model/Batcher.lean `applyCall`)
        if kind in ("batch_size", "reconstruct_batch_size", "val_ratio", "val_mode", "rng"):
            m = drv.ask({"op": "cfg_call", "kind": "batch_size" if kind == "reconstruct_batch_size" else kind, "value": value})
            if "ok" not in m:
                raise HarnessError(f"driver error {m}")
            if m["ok"]["rejected"] != (outcome != "accepted"):
                ctx.disagree("config-call-accept-reject", case, m["ok"], {"rejected": outcome != "accepted", "outcome": outcome})
        if outcome == "accepted":
            return          # not a rejected call: no claim
        if a1 != a2:
            ctx.pred_fail("determinism-same-seed", "two objects built with the same seed produced different first runs", case, observed=a1["losses"], required=a2["losses"])
        try:
            r1 = go(p, None, follow_reset)
        except Exception as e:  # noqa
            ctx.pred_fail("run-after-rejected-call-raises", f"after the rejected call {kind}={value!r} ({outcome}, caught) the next reconstruct(batch_size=None, reset={follow_reset}) raises "
                          f"{type(e).__name__}: {str(e)[:120]}", case, observed=f"{type(e).__name__}: {e}"[:300], required="a run identical to that of an object that never made the rejected call")
            return
        r2 = go(q, None, follow_reset)
    # (every reconstruct call builds a new batcher — in random mode a new split — so the reference sets are those of
    # this very run: its first epoch and its validation pass must partition all patterns)
    N = cfg["scan"][0] * cfg["scan"][1]
    train = sorted(i for batch in r1["sched"][0] for i in batch)
    val = [i for batch in r1["val"][0] for i in batch]
    if sorted(train + val) != list(range(N)):
        ctx.pred_fail("epoch-not-exactly-once-after-rejected-call", f"after the rejected call {kind}={value!r} the first epoch and the validation pass of the next run do not partition all patterns",
                      case, observed={"train_visited": train, "val_visited": val}, required=f"a partition of range({N})")
    nb = -(-len(train) // b)
    for k, ep in enumerate(r1["sched"]):
        flat = [i for batch in ep for i in batch]
        if sorted(flat) != train or len(ep) != nb or any(len(x) == 0 or len(x) > b for x in ep):
            ctx.pred_fail("epoch-not-exactly-once-after-rejected-call", f"after the rejected call {kind}={value!r} an epoch of the next run does not visit every training pattern exactly once in ceil(n_train/b) batches",
                          dict(case, epoch=k), observed={"batches": ep}, required={"train": train, "number_of_batches": nb, "batch_size": b})
            break
    if r1 != r2:
        what = next(k for k in r1 if r1[k] != r2[k])
        ctx.pred_fail("rejected-call-changes-next-run", f"the run after the rejected call {kind}={value!r} differs from the run of a twin object that never made it ({what})", case,
                      observed={what: r1[what]}, required={what: r2[what]})
    ctx.sample({"stream": "rejected", "rejected_call": [kind, value], "outcome": outcome, "b": b, "follow_reset": follow_reset, "next_run_first_epoch": r1["sched"][0]}, limit=8)


# ---------------------------------------------------------------------------------------
# stream (f): exception safety of the loop itself — a reconstruct() call interrupted in the MIDDLE of an epoch

EXC_KINDS = {"RuntimeError": RuntimeError, "KeyboardInterrupt": KeyboardInterrupt, "MemoryError": MemoryError, "FloatingPointError": FloatingPointError}


class Instrument:
    """instance-level wrappers (nothing in /repo is changed) around callees of `reconstruct`: `dset.forward` (records the
    indices of every batch that was yielded; raises at the chosen training / validation batch), `error_estimate` (records the
    loss), `backward` (alternative raise point: after the loss of the batch was computed), `step_optimizers` (skipped when
    `freeze`), `step_schedulers` (raise point after the iteration was recorded).  Unlike ptycho_tiny.record_batches the record
    survives an exception."""

    def __init__(self, p, fault=None, exc="RuntimeError", freeze=False):
        self.p, self.fault, self.freeze = p, fault, freeze
        self.exc = EXC_KINDS[exc](f"injected by the C09 harness ({exc})")
        self.rec, self.base, self.cur = [], None, None
        self.it, self.tc, self.vc = -1, 0, 0

    def _hit(self, kind, it, pos, where):
        f = self.fault
        return f is not None and f["kind"] == kind and f["iter"] == it and f.get("pos", 0) == pos and f.get("where", "forward") == where

    def __enter__(self):
        import torch
        p = self.p
        real_fwd, real_err, real_bwd, real_step, real_sched = p.dset.forward, p.error_estimate, p.backward, p.step_optimizers, p.step_schedulers

        def fwd(batch_indices, *a, **k):
            if self.base is None:
                self.base = len(p.iter_losses)          # (after the reset of this very call, if any)
            it = len(p.iter_losses) - self.base
            if it != self.it:
                self.it, self.tc, self.vc = it, 0, 0
            is_val = not torch.is_grad_enabled()
            pos = self.vc if is_val else self.tc
            e = {"iter": it, "val": is_val, "indices": [int(x) for x in batch_indices], "loss": None, "done": False}
            self.rec.append(e)
            self.cur = (e, it, pos, is_val)
            if is_val:
                self.vc += 1
            else:
                self.tc += 1
            if self._hit("val" if is_val else "train", it, pos, "forward"):
                raise self.exc
            return real_fwd(batch_indices, *a, **k)

        def err(pred, batch_indices, loss_type="l2_amplitude"):
            loss, targets = real_err(pred, batch_indices, loss_type=loss_type)
            e = self.cur[0]
            e["loss"] = float(loss.detach().double().item())
            if self.cur[3]:
                e["done"] = True
            return loss, targets

        def bwd(*a, **k):
            _e, it, pos, is_val = self.cur
            if self._hit("train", it, pos, "backward"):
                raise self.exc
            return real_bwd(*a, **k)

        def step():
            if not self.freeze:
                real_step()
            self.cur[0]["done"] = True

        def sched(*a, **k):
            if self.base is not None and self._hit("after", len(p.iter_losses) - self.base - 1, 0, "forward"):
                raise self.exc
            return real_sched(*a, **k)
        p.dset.forward, p.error_estimate, p.backward, p.step_optimizers, p.step_schedulers = fwd, err, bwd, step, sched
        return self

    def __exit__(self, *a):
        p = self.p
        del p.dset.forward
        for name in ("error_estimate", "backward", "step_optimizers", "step_schedulers"):
            delattr(p, name)
        return False


def aborted_case(ctx, drv, cfg, b):
    """ONE object: A = a valid run; X = a reconstruct() call that is interrupted by an exception from a callee in the middle
    of an epoch (training batch j >= 0 of iteration i, a validation batch, or after the iteration was recorded; Exception and
    BaseException kinds; with or without reset; its own batch size) — the caller catches it and carries on; C = a valid
    reconstruct() WITHOUT reset; D = a reset run through one of the public routes.
    Property clauses on C and D: every epoch visits every training pattern exactly once, len = batches yielded, every recorded
    loss is the mean over the batches yielded in that epoch (frozen variant: = the full-batch loss for divisor batch sizes);
    D reproduces A and a fresh same-seed object bit for bit.  Every call (also X: what it leaves behind) is tied to the model's
    `reconstructF` (Model/BatcherExt.lean) and the object's NumPy generator to the modelled number of draws."""
    import numpy as np
    from props import ptycho_tiny as pt
    from qv.driver import b2f, f2b
    ab = cfg["abort"]
    frozen, iters, lt = ab["frozen"], cfg["iters"], cfg["loss_type"]
    N = cfg["scan"][0] * cfg["scan"][1]
    case = {"stream": "aborted", "cfg": cfg, "b": b}
    log = []

    def note_run(p, rec, reset, route, n_it, bb, fault=None, raised=False):
        """log entry of one call: what the model needs (losses of the completed batches, validation losses) + the implementation's view"""
        its = sorted({e["iter"] for e in rec})
        consumed, vals, tl = 0, [], []
        for e in rec:
            if e["val"]:
                if e["loss"] is not None:
                    vals.append([consumed, e["indices"][0], f2b(e["loss"])])
            elif e.get("done", True):
                consumed += 1
                tl.append(f2b(e["loss"]))
        sched = [[e["indices"] for e in rec if not e["val"] and e["iter"] == t] for t in its]
        if raised and not rec:
            sched = [[]]
        log.append({"reset": reset, "route": route, "iters": n_it, "b": bb, "ratio": f2b(cfg["val_ratio"]), "mode": cfg["val_mode"], "fault": fault,
                    "train_losses": tl, "val": vals, "gen_state": p.rng.bit_generator.state["state"],
                    "impl": {"schedule": sched, "iter_losses": [float(x) for x in p.iter_losses], "val_losses": [float(x) for x in p.val_iter_losses], "raised": raised}})
        return its, sched, [[e["indices"] for e in rec if e["val"] and e["iter"] == t] for t in its]

    def valid_run(p, reset, n_it, bb, first=False, route="arg", what=""):
        if route == "method":
            p.reset_recon()
        elif route == "classmethod":
            from quantem.diffractive_imaging.ptychography import Ptychography
            p = Ptychography.from_ptychography(p)
        n0 = 0 if (reset or route != "arg") else len(p.iter_losses)
        rec = pt.record_batches(p, bb, num_iters=n_it, freeze=frozen, reset=reset and route == "arg", loss_type=lt,
                                optimizer_params=pt.sgd_params(cfg["lr"], cfg["lr"]), keep_optimizers=(not reset) and route == "arg" and not first)
        for e in rec:
            e["iter"] -= n0
        its, sched, vals = note_run(p, rec, reset and route == "arg", route, n_it, bb)
        ok = run_schedule_predicate(ctx, dict(case, call=what), N, bb, sched, vals, what, key="epoch-not-exactly-once-after-aborted-call" if what[0] in "CD" else "epoch-not-exactly-once-in-reconstruct")
        losses = [float(x) for x in p.iter_losses][-n_it:] if n_it else []
        for k, t in enumerate(its):       # the recorded loss of an epoch is the mean over the batches yielded in that epoch
            bl = [e["loss"] for e in rec if not e["val"] and e["iter"] == t]
            want = sum(bl) / max(1, len(bl))
            if k < len(losses) and abs(losses[k] - want) > 1e-12 * max(1.0, abs(want)):
                ctx.pred_fail("recorded-loss-not-mean", f"{what}: an iter_losses entry is not the mean of the losses of the batches yielded in that iteration", dict(case, call=what, iteration=k),
                              observed={"iter_loss": losses[k], "ratio": losses[k] / want if want else None}, required={"mean_of_batch_losses": want, "batches": len(bl)})
                ok = False
        return p, {"losses": losses, "val": [float(x) for x in p.val_iter_losses][-n_it:] if len(p.val_iter_losses) else [], "sched": sched, "ok": ok,
                   "n_hist": len(p.iter_losses)}

    with pt.no_gc():
        p = build(cfg)
        n_train = N - py_nval(N, cfg["val_ratio"])
        # A: frozen variant = ONE full batch (gives the full-batch loss every later divisor epoch must reproduce)
        bA, itA = (n_train, 1) if frozen else (b, iters)
        p, A = valid_run(p, ab["first_reset"], itA, bA, first=True, what="A (first valid run)")
        # X: the interrupted call
        fault = dict(ab["fault"])
        ins = Instrument(p, fault, ab["exc"], freeze=frozen)
        raised = False
        with ins:
            try:
                p.reconstruct(num_iters=ab["iters"], reset=ab["reset"], batch_size=ab["b"], loss_type=lt, constraints={},
                              optimizer_params=pt.sgd_params(cfg["lr"], cfg["lr"]) if ab["reset"] else None)
            except BaseException as e:  # noqa
                if e is not ins.exc:
                    raise
                raised = True
        note_run(p, ins.rec, ab["reset"], "arg", ab["iters"], ab["b"], fault={k: fault[k] for k in ("iter", "kind", "pos")}, raised=raised)
        ctx.count()
        ctx.mark(("aborted", tuple(cfg["scan"]), lt, b, ab["b"], cfg["val_ratio"], cfg["val_mode"], fault["kind"], fault["iter"], fault["pos"], fault.get("where"), ab["exc"], ab["reset"], frozen))
        ctx.dist[f"aborted:fault={fault['kind']}@{fault.get('where', 'forward')},batch={'0' if fault['pos'] == 0 else '>=1'},exc={ab['exc']}"] += 1
        ctx.dist[f"aborted:frozen={frozen},abort_reset={ab['reset']},val={'0' if cfg['val_ratio'] == 0 else cfg['val_mode']}"] += 1
        # C: the caller carries on WITHOUT reset
        try:
            p, C = valid_run(p, False, 2, b, what="C (valid reconstruct without reset after the interrupted call)")
        except Exception as e:  # noqa
            ctx.pred_fail("run-after-aborted-call-raises", f"after a reconstruct() call interrupted by {ab['exc']} (caught) the next reconstruct(reset=False) raises {type(e).__name__}: {str(e)[:120]}", case,
                          observed=f"{type(e).__name__}: {e}"[:300], required="a completed run")
            return
        same_split = cfg["val_ratio"] == 0 or cfg["val_mode"] != "random"      # (random mode: every call draws a new split — another training set, another full-batch loss)
        if frozen and n_train % b == 0 and C["ok"] and same_split:
            Lf = A["losses"][-1]
            for k, x in enumerate(C["losses"]):
                d = abs(x - Lf) / max(abs(Lf), 1e-6)
                ctx.stat_max("invariance_after_aborted_call_rel_dev", d)
                if d > TOL32:
                    ctx.pred_fail("invariance-recorded-loss-after-aborted-call", f"frozen parameters, batch size {b} divides the {n_train} training patterns: the iter_losses entry of the epoch run after an interrupted call "
                                  f"differs from the full-batch loss (loss_type={lt})", dict(case, iteration=k), observed={"iter_loss": x, "ratio_to_full": x / Lf if Lf else None}, required={"full_batch_iter_loss": Lf})
                    break
        # D: a reset run through the next public route reproduces A
        try:
            p, D = valid_run(p, True, itA, bA, route=ab["route"], what=f"D (reset run [{RESET_ROUTES[ab['route']]}] after the interrupted call)")
        except Exception as e:  # noqa
            ctx.pred_fail("run-after-aborted-call-raises", f"after a reconstruct() call interrupted by {ab['exc']} (caught) the next reset run [{RESET_ROUTES[ab['route']]}] raises {type(e).__name__}: {str(e)[:120]}", case,
                          observed=f"{type(e).__name__}: {e}"[:300], required="the first run again")
            return
        if D["losses"] != A["losses"] or D["val"] != A["val"] or D["sched"] != A["sched"]:
            ctx.pred_fail("determinism-reset-after-aborted-call", f"run, interrupted call ({ab['exc']} in {fault['kind']} batch {fault['pos']} of iteration {fault['iter']}), run, reset run [{RESET_ROUTES[ab['route']]}]: "
                          "the reset run does not reproduce the first run", case, observed={"first": A["losses"], "after_reset": D["losses"], "first_batches": A["sched"][:1], "after_reset_batches": D["sched"][:1]},
                          required="bit-identical losses and batch schedule")
        _q, F = valid_run(build(cfg, canonical=True), True, itA, bA, first=True, what="F (fresh same-seed object)")
        log.pop()           # (F is another object: not part of the history handed to the model)
        if F["losses"] != A["losses"] or F["sched"] != A["sched"]:
            ctx.pred_fail("determinism-same-seed", "two objects built with the same seed produced different loss histories / schedules", case,
                          observed={"run1": A["losses"], "run2": F["losses"]}, required="bit-identical")
    # ---- correspondence with the model's state machine (reconstructF / resetRecon), call by call
    twin = None
    for r in log:
        if twin is None or r["reset"] or r["route"] != "arg":
            twin = np.random.default_rng(cfg["rng_seed"])
        draws, perm = [], []
        if py_nval(N, cfg["val_ratio"]) > 0 and cfg["val_mode"] == "random":
            perm = [int(x) for x in twin.permutation(np.arange(N))]
            draws.append(perm)
        tr, _va = py_split(N, cfg["val_ratio"], cfg["val_mode"], perm)
        started = r["iters"]
        if r["fault"] is not None and r["impl"]["raised"]:
            started = r["fault"]["iter"] + 1
        for _ in range(started):
            draws.append([int(x) for x in twin.permutation(np.asarray(tr, dtype=int))])
        r["draws"] = draws
        if twin.bit_generator.state["state"] != r["gen_state"]:
            ctx.disagree("generator-state", dict(case, run=log.index(r)), f"state after {len(draws)} draws", "a different generator state",
                         note=f"call #{log.index(r)} (reset={r['reset']}, route={r['route']}, fault={r['fault']}): p.rng is not where the modelled number of draws leaves a twin generator")
    m = drv.ask({"op": "fhistory", "n": N, "seed": 1, "runs": [{k: v for k, v in r.items() if k not in ("impl", "gen_state")} for r in log]})
    if "ok" not in m:
        raise HarnessError(f"driver error {m}")
    for j, (r, mo) in enumerate(zip(log, m["ok"])):
        ctx.count()
        ctx.dist["aborted:model-tie " + ("interrupted call" if r["fault"] else "valid call")] += 1
        mv = {"schedule": mo["schedule"], "iter_losses": [b2f(x) for x in mo["iter_losses"]], "val_losses": [b2f(x) for x in mo["val_losses"]], "raised": mo["raised"]}
        if mv != r["impl"] or mo["draws_used"] != len(r["draws"]):
            ctx.disagree("reconstruct-state-machine-with-faults", dict(case, run=j), dict(mv, draws_used=mo["draws_used"]), dict(r["impl"], draws_used=len(r["draws"])),
                         note=f"call #{j} (reset={r['reset']}, route={r['route']}, iters={r['iters']}, fault={r['fault']}): yielded batches / iter_losses / val_iter_losses / raised / generator draws after the call")
        # growth 6: the same call against the CLOSED-FORM specification (Model/BatcherSpec.lean `specCall`; Props/C09Ext proves reconstructF = specCall)
        sp = mo.get("spec")
        if sp is not None:
            impl_sp = {"schedule": r["impl"]["schedule"], "draws_used": len(r["draws"]), "n_iter_losses": len(r["impl"]["iter_losses"]), "raised": r["impl"]["raised"]}
            ctx.dist["aborted:spec-tie"] += 1
            if sp != impl_sp:
                ctx.disagree("reconstruct-call-vs-spec", dict(case, run=j), sp, impl_sp,
                             note=f"call #{j} (reset={r['reset']}, route={r['route']}, iters={r['iters']}, fault={r['fault']}): batches handed out / generator draws / length of iter_losses / raised vs specCall")
    ctx.sample({"stream": "aborted", "fault": fault, "exception": ab["exc"], "abort_call": {"reset": ab["reset"], "b": ab["b"], "iters": ab["iters"]}, "frozen": frozen, "b": b,
                "history_after_abort": log[1]["impl"]["iter_losses"], "C_losses": C["losses"]}, limit=6)


def empty_train_case(ctx, drv, cfg, b):
    """random split whose validation set takes EVERY pattern (round(n * val_ratio) = n, val_ratio < 1): the training set is
    empty, the batch loop yields nothing, len(batcher) = 0 and `total_loss / len(batcher)` raises ZeroDivisionError in the first
    iteration.  Reported = yielded (0 = 0) holds, so there is no property verdict; what the call leaves behind is compared with
    the model's `reconstructF` (raised, nothing recorded, split draw + one shuffle consumed)."""
    import numpy as np
    from props import ptycho_tiny as pt
    N = cfg["scan"][0] * cfg["scan"][1]
    case = {"stream": "empty-train", "cfg": cfg, "b": b}
    p = build(cfg, canonical=True)
    ins = Instrument(p)
    raised = None
    with pt.no_gc(), ins:
        try:
            p.reconstruct(num_iters=2, reset=True, batch_size=b, loss_type=cfg["loss_type"], constraints={}, optimizer_params=pt.sgd_params())
        except Exception as e:  # noqa
            raised = type(e).__name__
    ctx.count()
    ctx.mark(("empty-train", N, b, cfg["val_ratio"]))
    ctx.dist[f"empty-train:{raised}"] += 1
    from qv.driver import f2b
    twin = np.random.default_rng(cfg["rng_seed"])
    draws = [[int(x) for x in twin.permutation(np.arange(N))], [int(x) for x in twin.permutation(np.asarray([], dtype=int))]]
    impl = {"schedule": [[]] if not ins.rec else [[e["indices"] for e in ins.rec]], "iter_losses": [float(x) for x in p.iter_losses], "val_losses": [float(x) for x in p.val_iter_losses],
            "raised": raised is not None, "gen": p.rng.bit_generator.state["state"] == twin.bit_generator.state["state"]}
    m = drv.ask({"op": "fhistory", "n": N, "seed": 1, "runs": [{"reset": True, "route": "arg", "iters": 2, "b": b, "ratio": f2b(cfg["val_ratio"]), "mode": cfg["val_mode"], "fault": None,
                                                               "draws": draws, "train_losses": [], "val": []}]})
    if "ok" not in m:
        raise HarnessError(f"driver error {m}")
    mo = m["ok"][0]
    mv = {"schedule": mo["schedule"], "iter_losses": mo["iter_losses"], "val_losses": mo["val_losses"], "raised": mo["raised"], "gen": mo["draws_used"] == 2}
    if mv != impl:
        ctx.disagree("reconstruct-empty-training-set", case, mv, dict(impl, exception=raised), note="reconstruct() with an empty training set (model: ZeroDivisionError in iteration 0, nothing recorded)")


def gen_aborted_cfg(rng, i):
    """(cfg, b): the interrupted call hits training batch j of iteration it (mostly j >= 1: some batches of the epoch are already done),
    a validation batch, or the code after the iteration was recorded"""
    c = gen_history_cfg(rng, i)
    c.pop("cont_b", None)
    c["rng_route"], c["val_route"], c["b_route"] = "constructor", "preprocess", "argument"
    N = c["scan"][0] * c["scan"][1]
    n_train = N - py_nval(N, c["val_ratio"])
    n_val = N - n_train
    frozen = (i % 2 == 0)
    if frozen:          # divisor batch sizes with at least two batches per epoch
        divs = [d for d in divisors(n_train) if d < n_train]
        b, b_ab = rng.choice(divs), rng.choice(divs)
    else:
        small = [x for x in (1, 2, 3, 4, 5, 7) if x < n_train] or [1]
        b, b_ab = rng.choice(small), rng.choice(small)
    nb = -(-n_train // b_ab)
    it_ab = rng.randint(1, 3)
    # fixed blocks (coverage of the exposing class must not depend on VERIF_SEED): of every 8 configurations 6 are interrupted in a
    # training batch (5 of them in a batch j >= 1, i.e. after part of the epoch is done), 1 in the validation pass, 1 after the record
    kind = ["train", "train", "train", "val" if n_val > 0 else "train", "train", "train", "after", "train"][i % 8]
    fault = {"iter": rng.below(it_ab), "kind": kind, "pos": 0, "where": "forward"}
    if kind == "train":
        fault["pos"] = rng.randint(1, nb - 1) if (nb > 1 and i % 8 != 4) else 0
        fault["where"] = ["forward", "backward"][(i // 2) % 2]
    elif kind == "val":
        fault["pos"] = rng.below(-(-n_val // b_ab))
    c["abort"] = {"frozen": frozen, "first_reset": i % 3 != 0, "reset": i % 4 == 3, "b": b_ab, "iters": it_ab, "fault": fault,
                  "exc": ["RuntimeError", "KeyboardInterrupt", "MemoryError", "FloatingPointError"][i % 4], "route": ["arg", "method", "classmethod"][i % 3]}
    return c, b


# ---------------------------------------------------------------------------------------
# stream (g): the seed forms of RNGMixin; (h): sequences of configuration calls; (i): pinned signatures

def jsonable_value(v):
    """Python bools are ints for every validator involved (True -> 1)"""
    return int(v) if isinstance(v, bool) else v


def run_rngset_stream(ctx, drv):
    """RNGMixin.rng = <every form of seed> then _reset_rng(), on the mixin itself: accepted / rejected, the NumPy generator
    (compared through its state with a twin built from the modelled (seed, position)), the torch seed — against the model's
    `rngSet` / `resetRngFull`.  Seeds: 0, 1, True, small, 2**32-1, 2**32, 2**32+42, >= 2**64, 128 bit, negative."""
    import numpy as np
    import torch
    from quantem.core.utils.rng import RNGMixin
    rng = ctx.rng.fork(9)
    seeds = [0, 1, True, 7, 2 ** 32 - 1, 2 ** 32, 2 ** 32 + 42, 2 ** 64 + 3, (1 << 127) | 12345, rng.below(1 << 30), rng.below(1 << 62)]
    cases = []
    for sd in seeds:
        cases.append({"form": "int", "seed": sd})
        cases.append({"form": "np_generator", "seed": int(sd), "consumed": 0})
        cases.append({"form": "np_generator", "seed": int(sd), "consumed": rng.randint(1, 3)})
        if int(sd) < 2 ** 64:
            cases.append({"form": "torch_generator", "seed": int(sd)})
    cases += [{"form": "int", "seed": -3}, {"form": "int", "seed": -1}, {"form": "float", "seed": 1.5}, {"form": "float", "seed": 2.0}, {"form": "other", "seed": "abc"},
              {"form": "other", "seed": [1, 2]}, {"form": "none", "seed": None}]

    def twin_state(seed, pos):
        g = np.random.default_rng(seed)
        for _ in range(pos):
            g.permutation(5)
        return g.bit_generator.state["state"]
    for c in cases:
        ctx.count()
        ctx.dist[f"rngset:{c['form']}"] += 1
        ctx.mark(("rngset", c["form"], str(c["seed"]), c.get("consumed")))
        if c["form"] == "np_generator":
            v = np.random.default_rng(c["seed"])
            for _ in range(c["consumed"]):
                v.permutation(5)
        elif c["form"] == "torch_generator":
            v = torch.Generator().manual_seed(c["seed"])
        else:
            v = c["seed"]
        o = RNGMixin(rng=12345)
        before = o.rng.bit_generator.state["state"]
        try:
            o.rng = v
            impl = {"rejected": False}
        except Exception:  # noqa
            impl = {"rejected": True}
        m = drv.ask({"op": "rng_set", "form": c["form"], "seed": jsonable_value(c["seed"]) if c["form"] in ("int", "np_generator", "torch_generator") else 0,
                     "consumed": c.get("consumed", 0)})
        if "ok" not in m:
            raise HarnessError(f"driver error {m}")
        mo = m["ok"]
        case = {"stream": "rngset", **{k: (str(x) if isinstance(x, int) and not isinstance(x, bool) and x >= 2 ** 63 else x) for k, x in c.items()}}
        if mo["rejected"] != impl["rejected"]:
            ctx.disagree("rng-setter-accept-reject", case, mo, impl)
            continue
        if impl["rejected"]:
            if o.rng.bit_generator.state["state"] != before:
                ctx.disagree("rng-setter-rejected-not-noop", case, "generator untouched", "generator changed by a rejected seed")
            o._reset_rng()
            if o.rng.bit_generator.state["state"] != twin_state(12345, 0):
                ctx.disagree("rng-setter-rejected-not-noop", case, "reset replays the previous seed 12345", "a different generator after _reset_rng()")
            continue
        if c["form"] == "none":
            o._reset_rng()          # unseeded: no claim beyond "does not raise"
            continue
        for stage in ("set", "reset"):
            if stage == "reset":
                o._reset_rng()
            mm = mo[stage]
            got = {"gen": o.rng.bit_generator.state["state"] == twin_state(mm["gen_seed"], mm["gen_pos"]),
                   "torch_seed": int(o._rng_torch.initial_seed()) if hasattr(o, "_rng_torch") else mm["torch_seed"]}
            if got != {"gen": True, "torch_seed": mm["torch_seed"]}:
                ctx.disagree("rng-seed-forms", dict(case, stage=stage), {"gen": f"default_rng({mm['gen_seed']}) after {mm['gen_pos']} draws", "torch_seed": mm["torch_seed"]},
                             {"gen": "as modelled" if got["gen"] else "another generator state", "torch_seed": got["torch_seed"]},
                             note=f"RNGMixin.rng = <{c['form']} {c['seed']}>" + ("; _reset_rng()" if stage == "reset" else ""))


CFG_VALUES = {"batch_size": [None, 1, 5, 2.5, 3.5, 0.5, 0.4, -0.0, 0, -1, True, "3", [3], 1000.0, 7, 4.4999, 1.5],
              "val_ratio": [0, 0.0, -0.0, 1, 1.0, 0.5, 0.25, True, False, "x", 1.5, -0.25, None, 0.75, 1e-9],
              "val_mode": ["grid", "random", "Grid", "", 3, None, "random", "grid"]}


def cfgseq_case(ctx, drv, cfg, calls):
    """ONE object, a sequence of configuration calls (accepted and rejected, exceptions caught): after every call the stored
    batch_size / val_ratio / val_mode equal the model session's (`applyCall`); then one reconstruct(batch_size=None): its
    schedule must be the exactly-once schedule of the STORED settings."""
    from props import ptycho_tiny as pt
    from qv.driver import b2f
    case = {"stream": "cfgseq", "cfg": cfg, "calls": calls}
    p = build(cfg, canonical=True)
    N = int(p.dset.num_gpts)
    impl = []
    for kind, value in calls:
        try:
            setattr(p, kind, value)
            rej = False
        except Exception:  # noqa
            rej = True
        impl.append({"rejected": rej, "batch_size": int(p.batch_size), "val_ratio": float(p.val_ratio), "val_mode": p.val_mode})
    m = drv.ask({"op": "cfg_seq", "batch_size": N, "calls": [{"kind": k, "value": jsonable_value(v)} for k, v in calls]})
    if "ok" not in m:
        raise HarnessError(f"driver error {m}")
    # (the model starts from val_ratio 0 / grid / batch_size N: so does the canonical object unless cfg asked for a split)
    ctx.count()
    ctx.mark(("cfgseq", tuple(repr(c) for c in calls)))
    start_ok = cfg["val_ratio"] == 0.0
    for j, (a, mo) in enumerate(zip(impl, m["ok"])):
        ctx.dist[f"cfgseq:{calls[j][0]} " + ("rejected" if a["rejected"] else "accepted")] += 1
        mv = {"rejected": mo["rejected"], "batch_size": mo["batch_size"], "val_ratio": b2f(mo["val_ratio"]), "val_mode": mo["val_mode"]}
        if start_ok and mv != a:
            ctx.disagree("config-call-sequence", dict(case, call=j), mv, a, note=f"after call #{j}: {calls[j][0]} = {calls[j][1]!r}")
            return
    with pt.no_gc():
        rec = pt.record_batches(p, None, num_iters=2, freeze=True, reset=True, loss_type=cfg["loss_type"])
    its = sorted({e["iter"] for e in rec})
    bb = impl[-1]["batch_size"]
    sched = [[e["indices"] for e in rec if not e["val"] and e["iter"] == t] for t in its]
    vals = [[e["indices"] for e in rec if e["val"] and e["iter"] == t] for t in its]
    run_schedule_predicate(ctx, case, N, bb, sched, vals, f"reconstruct(batch_size=None) after the configuration calls (stored batch_size={bb})", key="epoch-not-exactly-once-after-config-calls")
    want_val = py_nval(N, impl[-1]["val_ratio"])
    got_val = len({i for batch in (vals[0] if vals else []) for i in batch})
    if want_val != got_val:
        ctx.disagree("config-call-sequence", dict(case, call="run"), {"n_val": want_val}, {"n_val": got_val}, note="size of the validation set used by the run vs round(n * stored val_ratio)")


def gen_cfgseq(rng):
    calls = []
    for _ in range(rng.randint(4, 9)):
        kind = rng.weighted([("batch_size", 4), ("val_ratio", 3), ("val_mode", 2)])
        calls.append([kind, rng.choice(CFG_VALUES[kind])])
    return calls


PINNED_SIGNATURES = {
    "SimpleBatcher.__init__": {"num": "<required>", "batch_size": "<required>", "shuffle": True, "rng": None, "val_ratio": 0.0, "val_mode": "grid", "train_indices": None, "val_indices": None},
    "Ptychography.reconstruct": {"num_iters": 0, "reset": False, "batch_size": None, "autograd": True, "loss_type": "l2_amplitude"},
    "subdivide_batches": {"num_items": "<required>", "num_batches": None, "max_batch": None},
    "generate_batches": {"num_items": "<required>", "num_batches": None, "max_batch": None, "start_index": 0},
    "RNGMixin.__init__": {"rng": None},
}


def run_signature_stream(ctx):
    """the names and defaults of the parameters the property talks about (further optional parameters may be added freely)"""
    import inspect
    from quantem.core.utils.rng import RNGMixin
    from quantem.core.utils.utils import generate_batches, subdivide_batches
    from quantem.diffractive_imaging.ptycho_utils import SimpleBatcher
    from quantem.diffractive_imaging.ptychography import Ptychography
    fns = {"SimpleBatcher.__init__": SimpleBatcher.__init__, "Ptychography.reconstruct": Ptychography.reconstruct, "subdivide_batches": subdivide_batches,
           "generate_batches": generate_batches, "RNGMixin.__init__": RNGMixin.__init__}
    for name, want in PINNED_SIGNATURES.items():
        ctx.count()
        ctx.dist["signature:pinned"] += 1
        ps = inspect.signature(fns[name]).parameters
        got = {k: ("<missing>" if k not in ps else "<required>" if ps[k].default is inspect.Parameter.empty else ps[k].default) for k in want}
        if got != want:
            ctx.disagree("public-signature", {"stream": "signature", "function": name}, want, got, note=f"parameter names / defaults of {name}")


RESET_ROUTES = {"arg": "reconstruct(reset=True)", "method": "reset_recon() then reconstruct()",
                "classmethod": "Ptychography.from_ptychography(pt) then reconstruct() on the returned object"}


def rng_first_reset(cfg):
    """the fresh comparison object alternates between a first run with and without reset (both must give the same history)"""
    return (cfg["rng_seed"] + cfg["iters"]) % 2 == 0


def gen_history_cfg(rng, i):
    c = gen_det_cfg(rng)
    c["first_reset"] = (i % 2 == 1)
    order = [["method", "classmethod", "arg"], ["classmethod", "arg", "method"], ["arg", "method", "classmethod"]][i % 3]
    c["reset_routes"] = order
    c["rng_route"] = "setter" if i % 3 == 1 else "constructor"
    c["val_route"] = "attribute" if i % 4 in (1, 2) else "preprocess"
    c["b_route"] = "attribute" if i % 5 in (0, 3) else "argument"
    if i % 4 == 0:          # the combination that needs most: a seed that does not fit in 32 bit, first run without reset
        while c["seed_size"] in ("small", "zero"):
            c["rng_seed"], c["rng_form"], c["seed_size"] = pick_seed(rng)
    if i % 4 == 2:          # seed 0 in whatever form was drawn
        c["rng_seed"], c["seed_size"] = 0, "zero"
    c["val_ratio"], c["val_mode"] = [(0.0, "grid"), (0.25, "grid"), (0.3, "random"), (0.0, "grid"), (0.5, "grid"), (0.2, "random")][i % 6]
    c["cont"] = [[1, 2], [2, 1]][i % 2]
    c["iters"] = 2 + (i % 2)
    if i % 3 != 0:          # reconfigure between runs: the continuations use another batch size than the reset runs
        c["cont_b"] = [1, 2, 3, 5, 1000][(i // 3) % 5]
    return c


# ---------------------------------------------------------------------------------------

def guarded(ctx, fn, case, *args):
    """an exception escaping the real reconstruct loop is a finding about the code under test, not an
    infrastructure failure: report it with the configuration that triggered it and go on"""
    import traceback
    try:
        fn(*args)
    except HarnessError:
        raise
    except Exception as e:  # noqa
        cfg = next((a for a in args if isinstance(a, dict)), None)
        case = dict(case, cfg=cfg)
        if fn is determinism_case or fn is history_case or fn is aborted_case or fn is empty_train_case or fn.__name__ == "rerun_case":
            case["b"] = args[-1]
        if fn is cfgseq_case:
            case["calls"] = args[-1]
        if fn is rejected_case:
            case.update({"b": args[-3], "rej": list(args[-2]), "follow_reset": args[-1]})
        tb = traceback.extract_tb(e.__traceback__)
        where = next((f"{f.filename.split('/src/')[-1]}:{f.lineno}" for f in reversed(tb) if "/quantem/" in f.filename), "harness")
        ctx.pred_fail("reconstruct-raises", f"reconstruct raised {type(e).__name__}: {e} at {where}", case,
                      observed=f"{type(e).__name__}: {e}", required="a completed run")


def run(ctx):
    import torch
    from qv.driver import Driver
    torch.set_num_threads(min(4, torch.get_num_threads()))
    drv = Driver("C09")
    try:
        cases = gen_batcher_cases(ctx)
        run_batcher_stream(ctx, drv, cases)
        if ctx.extra.get("endless_iterator"):
            return      # SimpleBatcher does not terminate for some input: the real reconstruct loop would hang the run
        run_user_stream(ctx, drv, gen_user_cases(ctx))
        run_subdivide_stream(ctx, drv)
        rng = ctx.rng.fork(2)
        for i in range(ctx.n(10, 40)):
            guarded(ctx, numeric_case, {"stream": "numeric", "cfg": None}, ctx, drv, gen_numeric_cfg(rng, i))
        rng = ctx.rng.fork(3)
        for i in range(ctx.n(6, 30)):
            cfg = gen_det_cfg(rng)
            if i % 3 == 1:
                cfg["rng_seed"], cfg["seed_size"] = 0, "zero"
            n = cfg["scan"][0] * cfg["scan"][1]
            guarded(ctx, determinism_case, {"stream": "determinism"}, ctx, cfg, rng.choice([2, 3, 4, 5, 7, n // 2, n - 1]))
        rng = ctx.rng.fork(4)
        for i in range(ctx.n(9, 36)):
            cfg = gen_history_cfg(rng, i)
            n = cfg["scan"][0] * cfg["scan"][1]
            n_train = n - py_nval(n, cfg["val_ratio"])
            b = rng.choice([x for x in (2, 3, 4, 5, 7) if x < n_train] or [1])      # shuffled mini-batches: b < number of training patterns
            guarded(ctx, history_case, {"stream": "history"}, ctx, drv, cfg, b)
        rng = ctx.rng.fork(5)
        rej_order = rng.shuffle(REJECTS)
        for i in range(ctx.n(len(REJECTS), 4 * len(REJECTS))):
            cfg = gen_history_cfg(rng, i)
            n = cfg["scan"][0] * cfg["scan"][1]
            n_train = n - py_nval(n, cfg["val_ratio"])
            b = rng.choice([x for x in (2, 3, 4, 5, 7) if x < n_train] or [1])
            rej = rej_order[i % len(rej_order)]
            guarded(ctx, rejected_case, {"stream": "rejected", "rej": list(rej)}, ctx, drv, cfg, b, rej, i % 3 != 2)
        run_rngset_stream(ctx, drv)
        run_signature_stream(ctx)
        from props import c09_g6
        c09_g6.run_big_stream(ctx)
        c09_g6.run_twins_stream(ctx, drv)
        c09_g6.run_batcher_rng_stream(ctx, drv)
        rng = ctx.rng.fork(11)
        for i in range(ctx.n(3, 12)):
            cfg, b = c09_g6.gen_rerun_cfg(rng, i)
            guarded(ctx, c09_g6.rerun_case, {"stream": "rerun"}, ctx, cfg, b)
        rng = ctx.rng.fork(10)
        for i in range(ctx.n(8, 40)):
            cfg = gen_numeric_cfg(rng, i)
            cfg["val_ratio"], cfg["val_mode"] = 0.0, "grid"
            guarded(ctx, cfgseq_case, {"stream": "cfgseq"}, ctx, drv, cfg, gen_cfgseq(rng))
        rng = ctx.rng.fork(8)
        for i in range(ctx.n(16, 64)):
            cfg, b = gen_aborted_cfg(rng, i)
            guarded(ctx, aborted_case, {"stream": "aborted"}, ctx, drv, cfg, b)
        for i in range(ctx.n(2, 6)):
            cfg = gen_numeric_cfg(rng, i)
            N = cfg["scan"][0] * cfg["scan"][1]
            cfg["val_ratio"], cfg["val_mode"] = [1.0 - 0.25 / N, 0.999][i % 2], "random"      # round(N * ratio) = N for every N <= 36, ratio < 1
            guarded(ctx, empty_train_case, {"stream": "empty-train"}, ctx, drv, cfg, rng.choice([1, 3, 4]))
        ctx.exhaustive = None
        ctx.extra["exhaustive_note"] = ("both tiers enumerate every (n<=40, b<=45, ratio=k/16, mode) for SimpleBatcher (thorough: also every (n<=200, b<=n+5) with sampled ratios) and every "
                                        "(n<=32 quick / 60 thorough, num_batches<=n+2 | max_batch<=n_max+5) for subdivide_batches; seeds/shuffles are sampled (the theorems cover all permutations)")
    finally:
        drv.close()


def replay(ctx, rep):
    from qv.driver import Driver
    case = rep.get("case") or (rep.get("correspondence_disagreements") or [{}])[0].get("case")
    if case is None:
        return True
    stream = case.get("stream", "batcher")
    drv = Driver("C09")
    try:
        if stream == "user":
            run_user_stream(ctx, drv, [case])
        elif stream == "twins":
            from props import c09_g6
            c09_g6.twins_case(ctx, drv, case.get("case", case))
        elif stream == "batcher-rng":
            from props import c09_g6
            c09_g6.run_batcher_rng_stream(ctx, drv)
        elif stream == "big":
            from props import c09_g6
            c09_g6.big_batcher_case(ctx, {k: v for k, v in case.items() if k != "epoch"})
        elif stream == "rerun":
            from props import c09_g6
            c09_g6.rerun_case(ctx, case["cfg"], case["b"])
        elif stream == "batcher" or "n" in case and "cfg" not in case and "nb" not in case:
            run_batcher_stream(ctx, drv, [case])
        elif stream == "subdivide" or "nb" in case:
            impl = subdivide_impl(case["n"], case["nb"], case["mb"], case.get("start", 0))
            m = drv.ask({"op": "subdivide", **{k: case[k] for k in ("n", "nb", "mb", "start")}})
            if m != impl:
                ctx.disagree("subdivide", case, m, impl)
            if "ok" in impl:
                sizes, ranges = impl["ok"]["sizes"], impl["ok"]["ranges"]
                covered = [i for a, b in ranges for i in range(a, b)]
                if sum(sizes) != case["n"] or covered != list(range(case.get("start", 0), case.get("start", 0) + case["n"])) or \
                        (sizes and max(sizes) - min(sizes) > 1) or (case["mb"] is not None and sizes and max(sizes) > case["mb"]):
                    ctx.pred_fail("subdivide-batches", "not a contiguous balanced tiling", case, observed=impl["ok"])
        elif stream == "numeric":
            numeric_case(ctx, drv, case["cfg"], only_b=case.get("b"))
        elif stream == "determinism":
            determinism_case(ctx, case["cfg"], case["b"])
        elif stream == "rejected":
            rejected_case(ctx, drv, case["cfg"], case["b"], tuple(case["rej"]), case["follow_reset"])
        elif stream == "history":
            history_case(ctx, drv, case["cfg"], case["b"])
        elif stream == "aborted":
            aborted_case(ctx, drv, case["cfg"], case["b"])
        elif stream == "empty-train":
            empty_train_case(ctx, drv, case["cfg"], case["b"])
        elif stream == "cfgseq":
            cfgseq_case(ctx, drv, case["cfg"], [tuple(c) for c in case["calls"]])
        elif stream == "rngset":
            run_rngset_stream(ctx, drv)
        elif stream == "signature":
            run_signature_stream(ctx)
    finally:
        drv.close()
    return True
