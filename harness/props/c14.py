"""C14 — serializer skip lists: correspondence with Model/Serialize.lean (encode with skip /
load with merged skip lists) and the five clauses of the property on the real save()/load()."""
import contextlib
import io
import json
import logging
import os
import pathlib
import shutil

import numpy as np
import torch

from . import c14_ext as cx
from . import ser_classes
from . import ser_common as sc

LEVEL = "proof"
EXTRA_PROPS = ["QuantemModel.Props.C14Ext"]   # growth 6: entries of a skip argument as a set, path-by-path absence, Ptychography.save in histories
MANIFEST_ENTRY = {
    "category": "proof",
    "text": "Lean 4 theorems over the serializer model with skip lists. One statement covers all clauses (`skip_general`): for every isinstance relation that contains the loader's exact-type match (the generator's universe, or the one with abstract base classes whose instances are virtual subclasses, and `object`), names and types given at save time and names given at load time, the loaded object is exactly the graph with every attribute removed, at every attribute-nested level, whose name is listed at either time or which is an instance of a listed type; the recorded lists are what the loader merges in, everything else loads as without skipping. Corollaries: load-time = save-time names also next to types (`skip_load_eq_save_general`), both = once, order/multiplicity irrelevant. The `skip` argument forms (bare name / bare type / sequence, entries that are neither) and the list Ptychography.save composes are modelled (`normSkip_*`, `ptychoSkip_spec`). Exception safety: a save raises part-way exactly when the stripped graph still holds an unpicklable value (`raises_iff_stripped`), a raising or rejected call changes no target (`sstep_raised_noop`), and over EVERY history of save/load calls on live objects (failing calls before and in between included) a load returns the stripped graph of the last completed save (`skip_history`). The round-1..4 theorems (names / types / load=save / recorded lists / absent names) are kept. Growth 6 (Props/C14Ext): only the SET of entries of a skip argument matters, at save and at load time, names and types (`stripAttrsG_congr2`, `skip_form_irrelevant`: list / tuple / other sequences, order, repetitions, junk entries); absence path by path (`strip_atPath`, `strip_name_absent_every_level`: under no attribute path ending in a listed name is anything found, however deep and whether or not the objects above carry the name; `strip_unlisted_path_kept`: a path without listed steps is untouched by the name list); `Ptychography.save` inside every history (`ptycho_history`: the caller's entries of THAT call, plus `_dset`/`dset` iff that call had save_raw_data=False); classes built with attrs (`__attrs_attrs__` branch: only declared fields are items — `viewA`, `strip_view_comm`, `skip_general_attrs`). Tied to the code by differential runs: generated attribute-nested graphs with random name/type lists in the call shapes save / load / both / mixed on both stores, classes that themselves provide names, abstract-base-class type lists, unpicklable attributes, load-time type lists, call histories with rejected and failing saves, the recorded skip lists and the keys written per object group (stored tree) as an internal stage, Ptychography.save histories on one live object (the caller's list object re-used for the next save with the other save_raw_data, recorded lists of both files compared), a fixed round-6 block (names two and three levels below objects that lack them, names that are prefixes of each other, bool under int / np.float64 under float, 12-entry lists whose hits are the last entries, 12-element containers, Sequence / list-subclass / deque arguments, one caller-owned list object passed to consecutive saves and loads and edited by the caller in between, two live objects saved alternately, attrs-class objects at three levels); the clauses are evaluated on the real results with Python's own isinstance on the live object as oracle.",
    "note": "Trusted: as C01; isinstance is modelled by a finite relation on the generator's type universe (base classes + 9 abstract base classes), cross-checked against Python's isinstance on every case; persisted type names must be importable top-level classes (load resolves them with __import__). Measured only (correspondence, no theorem): load-time TYPE lists (the property does not state them; `load_rng_type_counterexample` records where the base model differed from the code), the stored tree / recorded lists, that the caller's skip argument is not modified in place (and that a list object the caller passes again, edited or not, is read afresh by every call), the item order of attrs classes (field order in the code, dictionary order in the model; compared up to key order), an attrs field that is not set (getattr raises AttributeError; not drawn), Ptychography.save's device move and _dataset_metadata bookkeeping. A change that writes skipped data into the file but hides it again through the recorded lists at load is reported as a broken tie without a failing input (the property speaks about loaded objects only).",
    "technique": "Lean 4 proof (structural induction, invariant over call histories) + model-vs-implementation correspondence",
}
RULE = ("attribute-nested object graphs (objects only reached through attributes) with random subsets of attribute names (present at any "
        "depth, absent, or provided by the class) and random type lists (concrete, abstract base classes, object), in the call shapes save / load / both / mixed; "
        "one evaluation = one save+load, or one call of a history; distinct non-trivial = distinct (call shape, #names hit, types, depth, multiset of kinds) "
        "with at least one attribute actually removed, plus distinct (history length, outcome pattern) of call histories; the round-6 fixed block (38 cases: deep / prefix / "
        "threshold / argument-form / re-used list / attrs) is independent of the seed")
TRUSTED = ["as C01", "finite isinstance relation on the generator's type universe (cross-checked against Python's isinstance on the live objects every run)",
           "an attribute that cannot be pickled is represented by one token (`unpicklable`); which exception type dill raises is compared by name only"]
ASSUMPTIONS = ["objects nested inside lists/dicts are outside the claim (the property quantifies over attribute-nested objects)",
               "objects that are both torch.nn.Module and AutoSerialize are outside the model (recorded finding hybrid-module-autoserialize-skip)",
               "skip arguments are re-iterable sequences (list / tuple / another collections.abc.Sequence / list subclass / deque) or a bare str / type, as the signature declares; one-shot iterators and sets are not drawn",
               "attrs classes: dict-based (slots=False), every declared field set, no __attrs_post_init__ (a post-init hook may legitimately re-create attributes)"]
EXPLANATION = "see MANIFEST level text"

TYPES = {
    "int": int, "float": float, "str": str, "bool": bool, "ndarray": np.ndarray, "Tensor": torch.Tensor,
    "Parameter": torch.nn.Parameter, "Module": torch.nn.Module, "list": list, "tuple": tuple, "dict": dict, "set": set,
    "Path": pathlib.Path, "SA": ser_classes.SA, "SB": ser_classes.SB, "AutoSerialize": ser_classes.AutoSerialize,
    "Logger": logging.Logger, "Generator": np.random.Generator, "Linear": torch.nn.Linear,
    # a second type whose class is ALSO called `Generator` (distinct types with one __name__/__qualname__)
    "TorchGenerator": torch.Generator,
}


def is_instance(v, t):
    """independent oracle of isinstance on Val JSON (mirrors Python, not the Lean model)"""
    tag = v[0]
    if tag == "scalar":
        k = v[1][0]
        return {"none": [], "bool": ["bool", "int"], "int": ["int"], "float": ["float"], "str": ["str"]}[k].__contains__(t)
    if tag == "np":
        return t == "float" and v[1] == "float64" or t == "str" and v[2][0] == "str"
    if tag == "path":
        return t == "Path"
    if tag == "nd":
        return t == "ndarray"
    if tag == "torch":
        if v[1] == "tensor":
            return t == "Tensor"
        if v[1] == "parameter":
            return t in ("Tensor", "Parameter")
        if v[1] == "module":
            return t == "Module" or t == v[2]
        if v[1] == "other":
            return t == v[2]  # torch.Generator is observed as class "TorchGenerator"
    if tag == "nprng":
        return t == "Generator"
    if tag == "logger":
        return t == "Logger"
    if tag in ("list", "tuple", "dict", "set"):
        return t == tag
    if tag == "obj":
        return t == v[1] or t == "AutoSerialize"
    return False


def strip(spec, names, types):
    """the graph the property requires: named attributes and instances of listed types removed at
    every object level reached through attributes; everything else untouched"""
    if spec[0] != "obj":
        return spec
    out = []
    for k, v in spec[2]:
        if k in names or any(is_instance(v, t) for t in types):
            continue
        out.append([k, strip(v, names, types)])
    return ["obj", spec[1], out]


def all_attr_names(spec, acc):
    if spec[0] == "obj":
        for k, v in spec[2]:
            acc.add(k)
            all_attr_names(v, acc)
    return acc


class AttrNestedGen(sc.Gen):
    """objects only through attributes: containers never hold objects"""

    def value(self, depth, in_container=False, hashable=False):
        for _ in range(50):
            v = super().value(depth if not in_container else min(depth, 1), in_container, hashable)
            if not in_container or "obj" not in sc.val_kinds(v):
                return v
        return ["scalar", sc.S(1)]


SMALL_NAMES = ["gain", "w", "count", "note", "arr", "t", "lst", "p", "mid", "leaf", "cfg"]


def gen_tree(rng, depth, classes=("SA", "SB", "SC"), pool=None):
    """structured attribute-nested object tree: 1-2 child objects per level down to `depth`, leaf
    attributes drawn from a SMALL name pool so that a name may occur at some levels and be missing
    at intermediate ones"""
    g = AttrNestedGen(rng, {"rng_in_container": True, "fallback_in_container": True})
    attrs = []
    names = rng.sample(pool or SMALL_NAMES, rng.randint(1, 5))
    for k in names:
        if depth > 0 and rng.chance(0.45):
            attrs.append([k, gen_tree(rng, depth - 1, classes, pool)])
        else:
            attrs.append([k, rng.weighted([
                (lambda: ["scalar", sc.S(sc.gen_scalar(rng))], 5), (lambda: ["path", "a/b"], 1),
                (lambda: sc.gen_ndarray(rng), 2), (lambda: sc.gen_tensor(rng), 3), (lambda: sc.gen_npscalar(rng), 1),
                (lambda: ["mk_module", "Linear", rng.randint(0, 3)], 1), (lambda: g.value(1, False), 3)])()])
    if depth > 0 and not any(v[0] == "obj" for _, v in attrs):
        attrs.append(["child", gen_tree(rng, depth - 1, classes, pool)])
    return ["obj", rng.choice(list(classes)), attrs]


def names_by_depth(spec, d=0, acc=None):
    acc = acc if acc is not None else {}
    if spec[0] == "obj":
        for k, v in spec[2]:
            acc.setdefault(k, set()).add(d)
            names_by_depth(v, d + 1, acc)
    return acc


def types_hit(spec, d=0, acc=None):
    """type name -> set of depths at which some attribute is an instance of it"""
    acc = acc if acc is not None else {}
    if spec[0] == "obj":
        for k, v in spec[2]:
            for t in TYPES:
                if is_instance(v, t):
                    acc.setdefault(t, set()).add(d)
            types_hit(v, d + 1, acc)
    return acc


def scratch():
    d = os.path.join(os.environ.get("QVERIF_SCRATCH", "/tmp"), "c14")
    os.makedirs(d, exist_ok=True)
    return d


def real(obj, store, skip_save, skip_load, tag):
    from quantem.core.io import serialize
    base = os.path.join(scratch(), f"t{tag}")
    shutil.rmtree(base, ignore_errors=True)
    os.makedirs(base)
    path = os.path.join(base, "o.zip" if store == "zip" else "odir")
    sink = io.StringIO()
    try:
        with contextlib.redirect_stdout(sink):
            if isinstance(tag, int) and tag % 3 == 2 or (isinstance(tag, str) and len(tag) % 3 == 2):
                # positional call forms: save(path, mode, store, skip), load(path, skip); str and Path targets
                obj.save(pathlib.Path(path), "w", store, skip_save)
                loaded = serialize.load(pathlib.Path(path), skip_load)
            else:
                obj.save(path, store=store, skip=skip_save)
                loaded = serialize.load(path, skip=skip_load)
        return "ok", sc.observe(loaded)
    except Exception as e:  # noqa
        return "err", type(e).__name__ + ":" + str(e)[:150]
    finally:
        shutil.rmtree(base, ignore_errors=True)


def pyskip(names, types, form=0):
    """the `skip` argument in the forms the API accepts: a list, a tuple, or — for a single
    entry — the bare string / bare type"""
    items = list(names) + [TYPES[t] for t in types]
    if len(items) == 1 and form % 3 == 1:
        return items[0]
    if form % 3 == 2:
        return tuple(items)
    return items


def check_case(ctx, drv, recipe, names, types, store, idx):
    obj = sc.Builder(None).build(recipe)
    spec = sc.observe(obj)
    case = {"recipe": recipe, "names": names, "types": types, "store": store}
    # the spec's np scalars carry numpy dtype names; model type names are Python-level
    form = idx if isinstance(idx, int) else 1
    shapes = {
        "save": (pyskip(names, types, form), [], {"names": names, "types": types}, {}),
        "load": ([], pyskip(names, [], form + 1), {}, {"names": names}),
        "both": (pyskip(names, types, form + 2), pyskip(names, [], form), {"names": names, "types": types}, {"names": names}),
    }
    ctx.dist[f"skip_arg_form:{form % 3}"] += 1
    results = {}
    for shape, (ss, sl, ms, ml) in shapes.items():
        ctx.count()
        k, o = real(obj, store, ss, sl, f"{idx}_{shape}")
        results[shape] = (k, o)
        m = drv.ask({"op": "roundtrip", "v": spec, "skip_save": ms, "skip_load": ml})
        if "driver" in str(m.get("err", "")):
            raise RuntimeError(m)
        if "ok" in m:
            if k != "ok" or sc.canon_order(m["ok"]) != sc.canon_order(o):
                ctx.disagree(f"skip-{shape}", case, sc.canon_order(m["ok"]), sc.canon_order(o) if k == "ok" else {"err": o})
        elif k == "ok":
            ctx.disagree(f"skip-{shape}", case, m, sc.canon_order(o))
        # ---- property clauses on the implementation
        tys = types if shape != "load" else []
        want = strip(spec, set(names), tys)
        if k != "ok":
            ctx.pred_fail(f"skip-{shape}-raises:{o.split(':')[0]}", "save/load with skip lists raised", case, observed=o, required="stripped graph")
            continue
        d = sc.prop_equal(want, o)
        if d:
            kind = "names" if d[0].endswith(".names") else "value"
            ctx.pred_fail(f"skip-{shape}:{kind}", f"loaded graph is not the stripped graph at {d[0]}", case,
                          observed=sc.short(d[2]), required=sc.short(d[1]))
    # name skipping at load time == at save time (types excluded)
    if not types and results["save"][0] == results["load"][0] == "ok":
        if sc.canon_order(results["save"][1]) != sc.canon_order(results["load"][1]):
            ctx.pred_fail("load-vs-save", "skipping names at load time differs from skipping them at save time", case,
                          observed=sc.short(results["load"][1]), required=sc.short(results["save"][1]))
    removed = len(json.dumps(spec)) != len(json.dumps(strip(spec, set(names), types)))
    hit = len(set(names) & all_attr_names(spec, set()))
    if removed:
        ctx.mark((hit, len(types), sc.val_depth(spec), tuple(sorted(sc.val_kinds(spec).items()))))
    ctx.dist[f"names_hit:{min(hit, 4)}"] += 1
    ctx.dist[f"names_absent:{len(names) - hit}"] += 1
    ctx.dist[f"types:{len(types)}"] += 1
    for t in types:
        ctx.dist[f"type:{t}"] += 1
    ctx.dist[f"store:{store}"] += 1
    ctx.sample(case, limit=2)


def probe_hybrid(ctx):
    """fixed probe of a recorded finding: nested objects that are both nn.Module and AutoSerialize
    are torch-saved whole, so skip lists do not reach their attributes"""
    from quantem.core.io import serialize
    for shape in ("save", "load"):
        root = ser_classes.SA()
        root.h = ser_classes.HybridM()
        root.count = 1
        base = os.path.join(scratch(), f"hyb_{shape}")
        shutil.rmtree(base, ignore_errors=True)
        os.makedirs(base)
        path = os.path.join(base, "o.zip")
        ctx.count()
        try:
            with contextlib.redirect_stdout(io.StringIO()):
                root.save(path, skip=["count"] if shape == "save" else [])
                back = serialize.load(path, skip=["count"] if shape == "load" else [])
            if hasattr(back, "count"):
                ctx.pred_fail(f"skip-{shape}:names", "root attribute not skipped", {"probe": "hybrid", "shape": shape}, observed="count present", required="absent")
            if hasattr(back.h, "count"):
                ctx.pred_fail("hybrid-module-autoserialize-skip", "skip list does not reach the attributes of a nested object that is both "
                              "torch.nn.Module and AutoSerialize", {"probe": "hybrid", "shape": shape},
                              observed="h.count present", required="absent at every attribute-nested level")
            if getattr(back.h, "note", None) != "keep":
                ctx.pred_fail("hybrid-survivor", "surviving attribute of the hybrid object changed", {"probe": "hybrid", "shape": shape},
                              observed=getattr(back.h, "note", None), required="keep")
        finally:
            shutil.rmtree(base, ignore_errors=True)


def ptycho_stream(ctx, drv=None):
    """`Ptychography.save(skip=…)`: the caller's skip names/types must be honoured together with the
    dataset skip of the default mode, for save_raw_data False and True, both stores.  ONE live object
    is saved again and again (a history), with rejected calls in between; the skip lists recorded in
    each file are compared with the model (`normSkip (ptychoSkipArg arg save_raw_data)`)."""
    from quantem.core.io import serialize
    from . import ptycho_tiny as pt
    import torch
    import numpy as np
    with contextlib.redirect_stdout(io.StringIO()):
        prob = pt.make_ptycho(scan=(4, 3), roi=(8, 8), seed=0, rng_seed=7)
    import inspect
    from quantem.diffractive_imaging.ptychography import Ptychography
    sig = {"Ptychography.save": list(inspect.signature(Ptychography.save).parameters),
           "AutoSerialize.save": list(inspect.signature(serialize.AutoSerialize.save).parameters),
           "load": list(inspect.signature(serialize.load).parameters)}
    want = {"Ptychography.save": ["self", "path", "mode", "store", "skip", "compression_level", "save_raw_data", "verbose"],
            "AutoSerialize.save": ["self", "path", "mode", "store", "skip", "compression_level"], "load": ["path", "skip"]}
    ctx.count()
    if sig != want:
        # the positional call forms below rely on this parameter order
        ctx.disagree("signatures", {"ptycho": True, "signatures": True}, want, sig, note="parameter order of the save()/load() entry points")
    plain = [k for k, v in vars(prob).items() if not isinstance(v, torch.nn.Module) and k not in ("_dset", "dset")]
    tmap = {"list": list, "dict": dict, "Tensor": torch.Tensor, "ndarray": np.ndarray, "str": str, "float": float}
    rng = ctx.rng.fork(4242)
    for j in range(ctx.n(12, 48)):
        names = rng.sample(plain, rng.randint(1, 3))
        tname = rng.choice(sorted(tmap)) if rng.chance(0.5) else None
        raw = rng.chance(0.5)
        store = rng.choice(["zip", "dir"])
        base = os.path.join(scratch(), f"pty{j}")
        shutil.rmtree(base, ignore_errors=True)
        os.makedirs(base)
        path = os.path.join(base, "p.zip" if store == "zip" else "pdir")
        # every form the `skip: str | type | Sequence[str | type]` argument accepts
        form = rng.choice(["list", "tuple", "bare"])
        if j < 6:
            # fixed head of the history (whatever the seed): list + default mode (re-used for a raw save right after),
            # tuple + raw data, ONE BARE NAME, list + raw data (re-used for a default save right after), ONE BARE TYPE,
            # a list of 12 names + default mode (re-used)
            form, raw = [("list", False), ("tuple", True), ("bare", False), ("list", True), ("bare", False), ("list", False)][j]
            if j == 2:
                tname = None
            if j == 4:
                tname = tname or "ndarray"
            if j == 5:
                names, tname = plain[:6] + plain[-6:], None
        if form == "bare":
            if tname and (j == 4 or rng.chance(0.5)):
                names = []
            else:
                names, tname = names[:1], None
        entries = list(names) + ([tmap[tname]] if tname else [])
        skip_arg = entries[0] if form == "bare" else (tuple(entries) if form == "tuple" else list(entries))
        case = {"ptycho": True, "names": names, "type": tname, "save_raw_data": raw, "store": store, "form": form}
        ctx.count()
        if j % 4 == 1:
            # a rejected call on the same live object first (bad compression level / unknown store): it must
            # leave no trace in what the following valid call writes
            try:
                with contextlib.redirect_stdout(io.StringIO()):
                    if j % 8 == 1:
                        prob.save(path, store=store, skip=["_snapshots", torch.Tensor], compression_level=17, verbose=False)
                    else:
                        prob.save(path + ".tar", store="tar", skip=["_losses", dict], verbose=False)
                ctx.disagree("ptycho-rejected-call", case, "ValueError", "accepted")
            except ValueError:
                ctx.dist["ptycho:rejected-call-before"] += 1
            except Exception as e:  # noqa
                ctx.disagree("ptycho-rejected-call", case, "ValueError", type(e).__name__ + ":" + str(e)[:100])
        recorded = None
        arg_before = repr(skip_arg)
        try:
            with contextlib.redirect_stdout(io.StringIO()):
                if j % 3 == 2:
                    prob.save(path, "w", store, skip_arg, 4, raw, False)      # positional form
                else:
                    prob.save(path, store=store, skip=skip_arg, save_raw_data=raw, verbose=False)
                recorded = cx.store_summary(path, tmap, tree=False)
                back = serialize.load(path)
        except Exception as e:  # noqa
            ctx.pred_fail(f"ptycho-save-raises:{type(e).__name__}", "Ptychography.save/load with skip raised", case, observed=str(e)[:200], required="ok")
            shutil.rmtree(base, ignore_errors=True)
            continue
        if drv is not None and recorded is not None:
            arg = ({"bare_name": names[0]} if names else {"bare_type": tname}) if form == "bare" else \
                {"seq": [["n", k] for k in names] + ([["t", tname]] if tname else [])}
            m = drv.ask({"op": "ptychoskip", "skip": arg, "raw": raw})
            mm = {"names": sorted(set(m["ok"]["names"])), "types": m["ok"]["types"]}
            rr = {"names": sorted(set(recorded["names"])), "types": recorded["types"]}
            if mm != rr:
                ctx.disagree("ptycho-recorded-lists", case, mm, rr, note="skip lists recorded in the file vs normSkip (ptychoSkipArg …)")
        if repr(skip_arg) != arg_before:
            ctx.disagree("skip-argument-mutated", case, arg_before, repr(skip_arg), note="Ptychography.save changed the caller's skip argument in place")
        if form == "list" and (j % 2 == 0 or j < 6):
            # the caller re-uses ITS list object for the next save, with the other save_raw_data: the second file
            # must follow the list as the caller wrote it
            ctx.count()
            try:
                with contextlib.redirect_stdout(io.StringIO()):
                    prob.save(path, mode="o", store=store, skip=skip_arg, save_raw_data=not raw, verbose=False)
                    recorded2 = cx.store_summary(path, tmap, tree=False)
                    back2 = serialize.load(path)
                have2 = set(vars(back2))
                if drv is not None:
                    m2 = drv.ask({"op": "ptychoskip", "skip": {"seq": [["n", k] for k in names] + ([["t", tname]] if tname else [])}, "raw": not raw})
                    mm2 = {"names": sorted(set(m2["ok"]["names"])), "types": m2["ok"]["types"]}
                    rr2 = {"names": sorted(set(recorded2["names"])), "types": recorded2["types"]}
                    if mm2 != rr2:
                        ctx.disagree("ptycho-recorded-lists", dict(case, reuse=True), mm2, rr2,
                                     note="second save with the caller's re-used list: recorded skip lists vs normSkip (ptychoSkipArg …)")
                if repr(skip_arg) != arg_before:
                    ctx.disagree("skip-argument-mutated", dict(case, reuse=True), arg_before, repr(skip_arg),
                                 note="Ptychography.save changed the caller's skip argument in place")
                for kk in plain:
                    vv = vars(prob)[kk]
                    if kk not in names and not (tname and isinstance(vv, tmap[tname])) and kk not in have2 and vv is not None:
                        ctx.pred_fail("ptycho-survivor-lost", f"attribute {kk} not named in skip is missing (re-used list)", dict(case, reuse=True),
                                      observed="absent", required="present")
                if tname:
                    for kk, vv in vars(prob).items():
                        if kk in plain and isinstance(vv, tmap[tname]) and kk in have2:
                            ctx.pred_fail("ptycho-skip-type", f"Ptychography.save(skip=[{tname}]) kept attribute {kk} (re-used list)", dict(case, reuse=True),
                                          observed="present", required="absent")
                if (not raw) and "_dset" not in have2:
                    ctx.pred_fail("ptycho-dset-dropped", "save_raw_data=True dropped the dataset when the caller re-used the skip list of an earlier save", dict(case, reuse=True),
                                  observed="absent", required="present")
                if raw and ("_dset" in have2 or "dset" in have2):
                    ctx.pred_fail("ptycho-dset-kept", "default Ptychography.save kept the raw dataset", dict(case, reuse=True), observed="present", required="absent")
                for k in names:
                    if k in have2:
                        ctx.pred_fail("ptycho-skip-name", f"Ptychography.save(skip=[{k!r}]) did not remove the attribute (re-used list)", dict(case, reuse=True), observed="present", required="absent")
                ctx.dist["ptycho:list-object-reused"] += 1
            except Exception as e:  # noqa
                ctx.pred_fail(f"ptycho-save-raises:{type(e).__name__}", "Ptychography.save/load with a re-used skip list raised", dict(case, reuse=True), observed=str(e)[:200], required="ok")
        have = set(vars(back))
        for k in names:
            if k in have:
                ctx.pred_fail("ptycho-skip-name", f"Ptychography.save(skip=[{k!r}]) did not remove the attribute", case, observed="present", required="absent")
        if tname:
            for k, v in vars(prob).items():
                if k in plain and isinstance(v, tmap[tname]) and k in have:
                    ctx.pred_fail("ptycho-skip-type", f"Ptychography.save(skip=[{tname}]) kept attribute {k}", case, observed="present", required="absent")
        if not raw and ("_dset" in have or "dset" in have):
            ctx.pred_fail("ptycho-dset-kept", "default Ptychography.save kept the raw dataset", case, observed="present", required="absent")
        if raw and "_dset" not in have:
            ctx.pred_fail("ptycho-dset-dropped", "save_raw_data=True dropped the dataset", case, observed="absent", required="present")
        for k in plain:
            v = vars(prob)[k]
            if k not in names and not (tname and isinstance(v, tmap[tname])) and k not in have and v is not None:
                ctx.pred_fail("ptycho-survivor-lost", f"attribute {k} not named in skip is missing", case, observed="absent", required="present")
        shutil.rmtree(base, ignore_errors=True)
        ctx.mark(("ptycho", len(names), tname, raw, store, form))
        ctx.dist[f"ptycho:skip-form={form}"] += 1
        ctx.dist[f"ptycho:raw={raw}:{store}"] += 1


def same_name_types_stream(ctx, drv):
    """fixed cases (not drawn, so reached whatever the seed): two DISTINCT types whose class is called
    `Generator` (np.random.Generator, torch.Generator) occur at three attribute levels and are listed in a
    type skip list together, in both orders, and alone"""
    leaf = ["obj", "SA", [["g5", ["nprng", "PCG64"]], ["g6", ["trng"]], ["z", ["scalar", sc.S(3)]]]]
    child = ["obj", "SB", [["g3", ["nprng", "MT19937"]], ["x", ["scalar", sc.S("x")]], ["g4", ["trng"]], ["leaf", leaf]]]
    recipe = ["obj", "SA", [["g1", ["nprng", "PCG64"]], ["n", ["scalar", sc.S(1)]], ["g2", ["trng"]], ["child", child]]]
    k = 0
    for types in (["Generator", "TorchGenerator"], ["TorchGenerator", "Generator"], ["Generator"], ["TorchGenerator"],
                  ["int", "Generator", "TorchGenerator"]):
        for store in ("zip", "dir"):
            check_case(ctx, drv, recipe, [], types, store, f"samename{k}")
            k += 1
    ctx.dist["same_name_type_cases"] += k


# =================================================================================================
# growth round 5: extended streams (model: Model/SerializeSkipExt.lean, driver ops roundtripX / history / ptychoskip)
# =================================================================================================
ALLTYPES = dict(TYPES, SD=cx.SD, **cx.XTYPES, **({"AT": cx.AT} if cx.AT is not None else {}))
XCLASSES = ("SA", "SB", "SC", "SD", "SD")
XPOOL = SMALL_NAMES


def obj_nodes(recipe, acc=None):
    acc = acc if acc is not None else []
    if recipe[0] == "obj":
        acc.append(recipe)
        for _, v in recipe[2]:
            obj_nodes(v, acc)
    return acc


def plant_poison(rng, recipe, kind):
    """put a value that cannot be pickled somewhere into the tree: directly as an attribute, or inside
    a list / dict attribute; returns the names of the attributes that have to be skipped to save it"""
    node = rng.choice(obj_nodes(recipe))
    how = rng.weighted([("attr", 5), ("list", 2), ("dict", 1)])
    name = rng.choice(["handle", "res", "conn"])
    node[2][:] = [kv for kv in node[2] if kv[0] != name]
    val = ["poison", kind]
    if how == "list":
        val = ["list", [["scalar", sc.S("a")], val, ["scalar", sc.S(2)]]]
    elif how == "dict":
        val = ["dict", [["k", ["scalar", sc.S(1)]], ["h", val]]]
    node[2].insert(rng.randint(0, len(node[2])), [name, val])
    return name, how


def run_real_x(obj, store, py_save, py_load, tag, want_summary=True):
    """save / stored tree / load on the real code; every stage reports its own outcome"""
    from quantem.core.io import serialize
    base = os.path.join(scratch(), f"x{tag}")
    shutil.rmtree(base, ignore_errors=True)
    os.makedirs(base)
    path = os.path.join(base, "o.zip" if store == "zip" else "odir")
    out = {}
    args_before = (repr(py_save), repr(py_load))
    try:
        with cx.quiet():
            try:
                obj.save(path, store=store, skip=py_save)
            except Exception as e:  # noqa
                out["save_err"] = type(e).__name__
                out["save_msg"] = str(e)[:150]
                out["leftover"] = sorted(os.listdir(base))
                return out
            if want_summary:
                out["stored"] = cx.store_summary(path, ALLTYPES)
            try:
                out["loaded"] = sc.observe(serialize.load(path, skip=py_load))
            except Exception as e:  # noqa
                out["load_err"] = type(e).__name__
                out["load_msg"] = str(e)[:150]
        return out
    finally:
        if (repr(py_save), repr(py_load)) != args_before:
            out["args_mutated"] = [args_before, (repr(py_save), repr(py_load))]
        shutil.rmtree(base, ignore_errors=True)


def check_case_x(ctx, drv, recipe, save_arg, load_arg, store, idx, form="list", load_form=None):
    obj = cx.XBuilder(None).build(recipe)
    spec = cx.spec_of(recipe)
    case = {"x": True, "recipe": recipe, "save": save_arg, "load": load_arg, "store": store, "form": form, "load_form": load_form}
    ctx.count()
    r = run_real_x(obj, store, cx.py_arg(save_arg, ALLTYPES, form),
                   cx.py_arg(load_arg, ALLTYPES, load_form or ("tuple" if form == "list" else "list")), idx)
    m = drv.ask({"op": "roundtripX", "v": spec, "skip_save": save_arg, "skip_load": load_arg, "attrs": cx.ATTRS_FIELDS})
    if "driver" in str(m.get("err", "")):
        raise RuntimeError(m)
    # ---- correspondence, stage by stage
    m_save_err = m["err"].split(":", 1)[1] if str(m.get("err", "")).startswith("save:") else None
    if (m_save_err or None) != r.get("save_err"):
        ctx.disagree("x-save-outcome", case, {"save_err": m_save_err}, {"save_err": r.get("save_err"), "msg": r.get("save_msg")})
    if "args_mutated" in r:
        ctx.disagree("skip-argument-mutated", case, r["args_mutated"][0], r["args_mutated"][1], note="save()/load() changed the caller's skip argument in place")
    if r.get("save_err") and r.get("leftover"):
        ctx.disagree("x-failed-save-leaves-files", case, [], r["leftover"])
    if "stored" in r and "stored" in m:
        a, b = cx.canon_summary(m["stored"]), cx.canon_summary(r["stored"])
        if a != b:
            which = [k for k in ("names", "types", "tree") if a[k] != b[k]][0]
            ctx.disagree(f"x-stored-{which}", case, sc.short(a[which], 400), sc.short(b[which], 400),
                         note="recorded skip lists / keys written per object group")
    if "loaded" in r:
        if "ok" not in m or sc.canon_order(m["ok"]) != sc.canon_order(r["loaded"]):
            ctx.disagree("x-load", case, sc.canon_order(m["ok"]) if "ok" in m else m, sc.canon_order(r["loaded"]))
    elif "load_err" in r and m.get("err") != r["load_err"]:
        ctx.disagree("x-load", case, m.get("err", "ok"), {"err": r["load_err"], "msg": r.get("load_msg")})
    # ---- the property on the implementation (oracle: Python's isinstance on the live object)
    names = set(cx.arg_names(save_arg)) | set(cx.arg_names(load_arg))
    tys, tyl = cx.arg_types(save_arg), cx.arg_types(load_arg)
    junk = any(x[0] == "o" for x in cx.arg_items(save_arg) + cx.arg_items(load_arg))
    want = cx.strip_live(obj, names, [ALLTYPES[t] for t in tys])
    removed = len(json.dumps(want)) != len(json.dumps(cx.strip_live(obj, set(), [])))
    if cx.has_unknown(cx.strip_live(obj, set(cx.arg_names(save_arg)), [ALLTYPES[t] for t in tys])):
        # an unpicklable attribute that the SAVE-time lists do not remove: the property is silent; correspondence only
        ctx.dist["x:unsupported-attribute-not-skipped"] += 1
    elif tyl or junk:
        ctx.dist["x:load-time-types-or-non-str-entries(correspondence only)"] += 1
    elif "save_err" in r:
        ctx.pred_fail(f"skip-save-raises:{r['save_err']}", "save with skip lists raised", case, observed=r.get("save_msg"), required="stripped graph")
    elif "load_err" in r:
        ctx.pred_fail(f"skip-load-raises:{r['load_err']}", "load of a file saved with skip lists raised", case, observed=r.get("load_msg"), required="stripped graph")
    else:
        d = sc.prop_equal(want, r["loaded"])
        if d:
            kind = "names" if d[0].endswith(".names") else "value"
            ctx.pred_fail(f"skip-x:{kind}", f"loaded graph is not the stripped graph at {d[0]}", case,
                          observed=sc.short(d[2]), required=sc.short(d[1]))
    if removed:
        ctx.mark(("x", len(names), tuple(sorted(tys)), tuple(sorted(tyl)), sc.val_depth(spec), "save_err" in r))
    for t in tys:
        ctx.dist[f"x:type:{t}"] += 1
    ctx.dist[f"x:save-arg:{'bare' if 'seq' not in save_arg else form}"] += 1
    ctx.dist[f"x:load-types:{len(tyl)}"] += 1
    ctx.dist[f"x:junk:{junk}"] += 1
    ctx.dist[f"x:save-outcome:{r.get('save_err', 'ok')}"] += 1
    ctx.sample(case, limit=1)


def ext_stream(ctx, drv):
    """classes that provide names themselves, abstract base classes / `object` as skip types, the call
    forms of `skip`, load-time type skipping, an unpicklable attribute that is or is not skipped"""
    n = ctx.n(110, 700)
    for i in range(n):
        rng = ctx.rng.fork(50000 + i)
        recipe = gen_tree(rng, rng.weighted([(0, 1), (1, 3), (2, 4), (3, 2)]), XCLASSES, XPOOL)
        poison = None
        if rng.chance(0.3):
            poison = plant_poison(rng, recipe, rng.choice(["obj", "gen"]))
        spec = cx.spec_of(recipe)
        nd = names_by_depth(spec)
        pool = sorted(nd)
        names = rng.sample(pool, rng.randint(0, min(2, len(pool)))) if pool else []
        if rng.chance(0.5):
            names.append(rng.choice(cx.CLASS_LEVEL_NAMES))          # a name the CLASS provides (present or not on the instance)
        if poison and rng.chance(0.75):
            names.append(poison[0])
        names = sorted(set(names))
        split = rng.weighted([("save", 4), ("load", 3), ("both", 2), ("mixed", 2)])
        ns_save = names if split in ("save", "both") else (names[::2] if split == "mixed" else [])
        ns_load = names if split in ("load", "both") else (names[1::2] if split == "mixed" else [])
        if poison and poison[0] in names and poison[0] not in ns_save:
            ns_save = ns_save + [poison[0]]                         # an unpicklable attribute can only be skipped at save time
        tys = []
        for _ in range(rng.weighted([(0, 3), (1, 5), (2, 2)])):
            t = rng.choice(cx.ABC_NAMES) if rng.chance(0.7) else rng.choice(sorted(TYPES))
            if t not in tys:
                tys.append(t)
        tyl = [rng.choice(["ndarray", "Tensor", "Generator", "list", "dict", "SA", "SD", "int", "Linear", "Parameter", "tuple"])] if rng.chance(0.2) else []
        junk = rng.chance(0.06)
        save_arg = cx.make_arg(rng, ns_save, tys, junk)
        load_arg = cx.make_arg(rng, ns_load, tyl, False)
        check_case_x(ctx, drv, recipe, save_arg, load_arg, rng.choice(["zip", "dir"]), i, rng.choice(["list", "tuple"]))


def fixed_tree(poison_depth=None, kind="obj", how="attr"):
    """a fixed three-level tree (classes SD / SB / SD) touching every row of the instance relation"""
    S = sc.S
    leaf = ["obj", "SD", [["count", ["scalar", S(2)]], ["gain", ["scalar", S(0.5)]], ["p", ["path", "a/b"]],
                          ["cfg", ["dict", [["k", ["scalar", S(1)]]]]], ["arr", ["nd", "float64", [2], [S(0.5), S(1.5)], "C"]],
                          ["t", ["mk_tensor", "float32", [2], False, False, [1.5, 0.25]]], ["lst", ["list", [["scalar", S("a")], ["scalar", S(1)]]]],
                          ["note", ["scalar", S("n")]], ["w", ["np", "float64", S(1.5)]], ["mid", ["tuple", [["scalar", S("x")], ["scalar", S(None)]]]],
                          ["leaf", ["nprng", "PCG64"]]]]
    mid = ["obj", "SB", [["count", ["scalar", S(True)]], ["leaf", leaf], ["gain", ["scalar", S(3)]], ["cfg", ["scalar", S(None)]],
                         ["t", ["mk_module", "Linear", 1]]]]
    root = ["obj", "SD", [["count", ["scalar", S(7)]], ["note", ["scalar", S("r")]], ["mid", mid], ["w", ["scalar", S(-0.0)]],
                          ["lst", ["list", [["scalar", S(1)], ["scalar", S(2)]]]], ["cfg", ["dict", []]], ["arr", ["np", "int32", S(4)]]]]
    if poison_depth is not None:
        node = [root, mid, leaf][poison_depth]
        val = ["poison", kind]
        if how == "list":
            val = ["list", [["scalar", S("a")], val]]
        node[2].insert(1, ["handle", val])
    return root


def fixed_block_x(ctx, drv):
    """fixed cases, reached whatever the seed: every abstract base class alone and `object`, every name the
    class itself provides (at save / at load), the call forms, and the fail-then-retry history for an
    unpicklable attribute at each depth"""
    k = 0
    for t in cx.ABC_NAMES + ["int", "float", "SD", "AutoSerialize"]:
        for arg in ({"seq": [["t", t]]}, {"bare_type": t}):
            check_case_x(ctx, drv, fixed_tree(), arg, {"seq": []}, ("zip", "dir")[k % 2], f"f{k}", ("list", "tuple")[k // 2 % 2])
            k += 1
    for n in cx.CLASS_LEVEL_NAMES:
        check_case_x(ctx, drv, fixed_tree(), {"bare_name": n}, {"seq": []}, ("zip", "dir")[k % 2], f"f{k}")
        check_case_x(ctx, drv, fixed_tree(), {"seq": []}, {"seq": [["n", n], ["n", "absent"]]}, ("dir", "zip")[k % 2], f"f{k}l")
        k += 1
    for t in ("Generator", "ndarray", "SD", "Linear", "dict"):          # load-time type lists (correspondence)
        check_case_x(ctx, drv, fixed_tree(), {"seq": []}, {"seq": [["t", t], ["n", "w"]]}, ("zip", "dir")[k % 2], f"f{k}")
        k += 1
    for d in (0, 1, 2):
        for kind, how in (("obj", "attr"), ("gen", "attr"), ("obj", "list")):
            cover = {"seq": [["n", "handle"]]}
            ops = [{"k": "save", "obj": 0, "path": "p0", "overwrite": False, "bad_level": False, "skip": {"seq": [["n", "count"]]}},       # raises part-way
                   {"k": "save", "obj": 0, "path": "p0", "overwrite": False, "bad_level": True, "skip": cover},                            # rejected
                   {"k": "save", "obj": 0, "path": "p0", "overwrite": False, "bad_level": False, "skip": {"bare_name": "handle"}},          # the retry
                   {"k": "save", "obj": 0, "path": "p0", "overwrite": False, "bad_level": False, "skip": cover},                            # FileExistsError
                   {"k": "load", "path": "p0", "skip": {"seq": []}},
                   {"k": "save", "obj": 0, "path": "p1", "overwrite": True, "bad_level": False, "skip": {"seq": [["n", "handle"], ["n", "count"], ["t", "Mapping"]]}},
                   {"k": "load", "path": "p1", "skip": {"bare_name": "note"}},
                   {"k": "save", "obj": 0, "path": "p0", "overwrite": True, "bad_level": False, "skip": {"seq": [["t", "Real"]]}},         # raises again
                   {"k": "load", "path": "p0", "skip": {"seq": [["n", "mid"]]}},
                   {"k": "load", "path": "p2", "skip": {"seq": []}}]
            if kind == "obj" and how == "attr":
                ops.insert(8, {"k": "save", "obj": 0, "path": "p0", "overwrite": True, "bad_level": False, "skip": {"seq": [["t", "unpicklable"], ["t", "Sized"]]}})
            run_history(ctx, drv, [fixed_tree(d, kind, how)], ops, ("zip", "dir")[k % 2], f"f{k}")
            k += 1
    ctx.dist["x:fixed-block-cases"] += k


G6_NAMES12 = ["a0", "a1", "a2", "a3", "a4", "a5", "a6", "a7", "a8", "a9", "ra", "raw"]            # the hits are the 11th and 12th entry
G6_TYPES11 = ["Logger", "Generator", "TorchGenerator", "Linear", "Module", "Parameter", "Path", "set", "tuple", "Tensor", "ndarray"]  # the hit is the 11th


def fixed_block_g6(ctx, drv):
    """growth round 6, fixed cases (reached whatever the seed):
    * a name that sits two and three levels below objects that LACK it (root.stage.frame.raw, root.stage.frame.inner.raw),
      and one that is present at the root, missing on the two levels below and present again three levels down —
      given at save time, at load time, at both (and load = save);
    * names that are prefixes of each other (`w`/`we`/`wei`/`weight`/`weights`, `ra`/`raw`/`raw_data`/`_raw`);
    * `int` with a bool attribute, `float` with an np.float64 attribute (isinstance, as the property states);
    * skip lists with 12 names / 11 types whose only hits are the LAST entries; containers with 12 elements among the
      removed and among the surviving attributes;
    * the skip argument as a Sequence that is neither list nor tuple, a list subclass, a deque — at save and at load time;
    * ONE caller-owned list object passed to consecutive saves / loads and edited by the caller in between."""
    t1, t2 = cx.deep_tree(False), cx.deep_tree(True)
    k = 0
    for recipe, names, types in (
            (t1, ["raw"], []), (t2, ["raw"], []), (t1, ["we"], []), (t1, ["weight", "w"], []), (t1, G6_NAMES12, []),
            (t1, [], ["int"]), (t1, [], ["float"]), (t1, [], G6_TYPES11), (t1, ["big", "table"], []), (t2, ["raw", "nums"], ["bool"]),
            (t1, G6_NAMES12[::-1], ["bool", "float"])):
        check_case(ctx, drv, recipe, names, types, ("zip", "dir")[k % 2], f"g6_{k}")
        k += 1
    seq = lambda ns, ts=(): {"seq": [["n", n] for n in ns] + [["t", t] for t in ts]}   # noqa: E731
    for recipe, sa, la, form, lform in (
            (t1, seq(G6_NAMES12), seq([]), "seqsub", "list"),
            (t1, seq([]), seq(["raw"]), "list", "deque"),
            (t2, seq(["raw"], ["int"]), seq([]), "listsub", "seqsub"),
            (t1, seq(["we"], ["float"]), seq(["w"]), "seqsub", "seqsub"),
            (t1, seq([], G6_TYPES11), seq(G6_NAMES12), "deque", "listsub"),
            (t2, seq([]), {"bare_name": "raw"}, "tuple", "list"),
            (t1, seq(["raw", "raw", "ra", "raw"], ["int", "int"]), seq(["raw"]), "tuple", "tuple")):      # repeated entries
        check_case_x(ctx, drv, recipe, sa, la, ("dir", "zip")[k % 2], f"g6_{k}", form, lform)
        k += 1
    for store in ("zip", "dir"):
        sv = lambda path, skip, ow=False, who="L": {"k": "save", "obj": 0, "path": path, "overwrite": ow, "bad_level": False,  # noqa: E731
                                                    "skip": skip, "pyobj": who}
        ld = lambda path, skip: {"k": "load", "path": path, "skip": skip, "pyobj": "M"}   # noqa: E731
        ops = [sv("p0", seq(["raw"], ["int"])), sv("p1", seq(["raw"], ["int"])),           # the same list object twice
               ld("p0", seq([])), ld("p1", seq([])),
               sv("p2", seq(["raw", "gain", "weight"], ["int"])),                          # the caller appended to ITS list
               ld("p2", seq([])),
               sv("p0", seq(["we"]), ow=True),                                              # … and replaced its contents
               ld("p0", seq(["raw"])), ld("p1", seq(["raw"])),                              # one load-time list object on two files
               ld("p2", seq(["keep"])),
               sv("p1", seq(G6_NAMES12), ow=True, who="N"), sv("p3", seq(G6_NAMES12), who="N"),
               ld("p1", seq([])), ld("p3", seq(["keep"]))]
        run_history(ctx, drv, [t1], ops, store, f"g6_{k}")
        k += 1
    # TWO live objects of the same classes saved alternately with different lists (one caller-owned list object each),
    # loaded in crossing order: nothing of one object's call may leak into the other's
    sv2 = lambda o, path, skip, ow=False: {"k": "save", "obj": o, "path": path, "overwrite": ow, "bad_level": False, "skip": skip, "pyobj": f"L{o}"}  # noqa: E731
    ld2 = lambda path, skip: {"k": "load", "path": path, "skip": skip}   # noqa: E731
    run_history(ctx, drv, [t1, t2], [sv2(0, "p0", seq(["raw"])), sv2(1, "p1", seq(["we"], ["float"])), ld2("p0", seq([])), ld2("p1", seq([])),
                                     sv2(1, "p2", seq(["we"], ["float"])), sv2(0, "p3", seq(["raw"])), sv2(0, "p0", seq([]), True),
                                     ld2("p2", seq(["raw"])), ld2("p3", seq(["we"])), ld2("p0", seq([])), ld2("p1", seq(["n"]))], "dir", f"g6_{k}")
    k += 1
    # attrs classes (`__attrs_attrs__` branch of _recursive_save / _recursive_load): only declared fields are items
    if cx.AT is None:
        ctx.extra["attrs-stream"] = "skipped: the attrs package is not importable"
    else:
        for variant in (0, 1):
            at = cx.attrs_tree(variant)
            for sa, la, form in ((seq(["raw"]), seq([]), "list"), (seq([]), seq(["raw"]), "tuple"), (seq(["raw", "scratch"], ["int"]), seq(["note"]), "list"),
                                 (seq([], ["float"]), seq(["tmp", "count"]), "seqsub"), ({"bare_type": "AT"}, seq([]), "list"), (seq([]), seq([]), "list"),
                                 (seq([]), seq(["gain", "deep"]), "list"), (seq(["lst", "tmp"]), seq([]), "tuple")):   # names that are no fields of the root's class
                check_case_x(ctx, drv, at, sa, la, ("dir", "zip")[k % 2], f"g6_{k}", form)
                k += 1
        sv = lambda path, skip, ow=False: {"k": "save", "obj": 0, "path": path, "overwrite": ow, "bad_level": False, "skip": skip, "pyobj": "L"}  # noqa: E731
        run_history(ctx, drv, [cx.attrs_tree(1)], [sv("p0", seq(["raw"])), {"k": "load", "path": "p0", "skip": seq([])},
                                                   sv("p0", seq(["count"], ["ndarray"]), True), {"k": "load", "path": "p0", "skip": seq(["scratch", "note"])},
                                                   sv("p0", seq([]), False), {"k": "load", "path": "p0", "skip": seq([])}], "zip", f"g6_{k}")
        k += 1
    ctx.dist["x:g6-fixed-block-cases"] += k


def run_history(ctx, drv, pool_recipes, ops, store, idx):
    """a history of save / load calls on the same live objects and one directory: every call's outcome
    is compared with the model (`srun`), and every load is compared with the stripped graph of the
    last save that RETURNED to that path (whatever was rejected or raised before and in between)"""
    from quantem.core.io import serialize
    case = {"hist": True, "pool": pool_recipes, "ops": ops, "store": store}
    objs = [cx.XBuilder(None).build(r) for r in pool_recipes]
    specs = [cx.spec_of(r) for r in pool_recipes]
    before = [cx.strip_live(o, set(), []) for o in objs]
    base = os.path.join(scratch(), f"h{idx}")
    shutil.rmtree(base, ignore_errors=True)
    os.makedirs(base)

    def real_path(p):
        return os.path.join(base, p + (".zip" if store == "zip" else ""))
    outs, last = [], {}
    owned = {}      # "pyobj": the CALLER's own list objects, passed again and again and edited by the caller between calls

    def py_skip(op, form):
        if "pyobj" in op:
            lst = owned.setdefault(op["pyobj"], [])
            lst[:] = cx.py_arg(op["skip"], ALLTYPES, "list")
            return lst
        return cx.py_arg(op["skip"], ALLTYPES, form)
    try:
        for op in ops:
            ctx.count()
            arg = py_skip(op, "tuple" if len(outs) % 2 and op["k"] == "save" else "list")
            arg_before = repr(arg)
            try:
                with cx.quiet():
                    if op["k"] == "save":
                        existed = os.path.exists(real_path(op["path"]))
                        objs[op["obj"]].save(real_path(op["path"]), mode="o" if op.get("overwrite") else "w", store=store,
                                             skip=arg, compression_level=11 if op.get("bad_level") else 3)
                        outs.append({"saved": True})
                        last[op["path"]] = op
                    else:
                        back = serialize.load(real_path(op["path"]), skip=arg)
                        outs.append({"loaded": sc.observe(back)})
            except Exception as e:  # noqa
                outs.append({"raised": type(e).__name__, "msg": str(e)[:120]})
            if repr(arg) != arg_before:
                ctx.disagree("skip-argument-mutated", dict(case, call=len(outs) - 1), arg_before, repr(arg),
                             note="save()/load() changed the caller's skip argument in place")
            o = outs[-1]
            # ---- the property on the implementation
            if op["k"] == "save":
                want = cx.strip_live(objs[op["obj"]], set(cx.arg_names(op["skip"])), [ALLTYPES[t] for t in cx.arg_types(op["skip"])])
                valid = not op.get("bad_level") and (not existed or op.get("overwrite"))
                if "raised" in o and valid and not cx.has_unknown(want):
                    ctx.pred_fail(f"history-save-raises:{o['raised']}", "a valid save(skip=…) raised after earlier calls on the same objects", case,
                                  observed=o["msg"], required="saved")
            elif op["path"] in last and not cx.arg_types(op["skip"]):
                sv = last[op["path"]]
                names = set(cx.arg_names(sv["skip"])) | set(cx.arg_names(op["skip"]))
                want = cx.strip_live(objs[sv["obj"]], names, [ALLTYPES[t] for t in cx.arg_types(sv["skip"])])
                if cx.has_unknown(want):
                    pass
                elif "raised" in o:
                    ctx.pred_fail(f"history-load-raises:{o['raised']}", "load of a completed save raised", case, observed=o["msg"], required="stripped graph")
                else:
                    d = sc.prop_equal(want, o["loaded"])
                    if d:
                        kind = "names" if d[0].endswith(".names") else "value"
                        ctx.pred_fail(f"history-load:{kind}", f"after a history of calls the loaded graph is not the stripped graph of the last completed save at {d[0]} "
                                      f"(call {len(outs) - 1} of {len(ops)})", case, observed=sc.short(d[2]), required=sc.short(d[1]))
    finally:
        shutil.rmtree(base, ignore_errors=True)
    m = drv.ask({"op": "history", "pool": specs, "ops": ops, "attrs": cx.ATTRS_FIELDS})
    if "ok" not in m:
        raise RuntimeError(m)
    for j, (a, b) in enumerate(zip(m["ok"], outs)):
        ca = {"loaded": sc.canon_order(a["loaded"])} if "loaded" in a else a
        cb = {"loaded": sc.canon_order(b["loaded"])} if "loaded" in b else {k: v for k, v in b.items() if k != "msg"}
        if ca != cb:
            ctx.disagree("history", dict(case, first_differing_call=j), sc.short(ca, 300), sc.short(cb, 300) + " " + str(b.get("msg", "")),
                         note="outcome of one call of the history")
            break
    after = [cx.strip_live(o, set(), []) for o in objs]
    if after != before:
        ctx.disagree("history-live-object-changed", case, "unchanged", "changed", note="save()/load() must not modify the live objects")
    ctx.mark(("hist", len(ops), tuple("r" if "raised" in o else ("s" if "saved" in o else "l") for o in outs)))
    for o in outs:
        ctx.dist["hist:" + ("raised:" + o["raised"] if "raised" in o else ("saved" if "saved" in o else "loaded"))] += 1
    ctx.sample(case, limit=1)


def history_stream(ctx, drv):
    n = ctx.n(36, 220)
    for i in range(n):
        rng = ctx.rng.fork(70000 + i)
        store = rng.choice(["zip", "dir"])
        pool, poison, pools = [], [], []
        for _ in range(rng.choice([1, 1, 2])):
            r = gen_tree(rng, rng.weighted([(1, 3), (2, 4), (3, 2)]), XCLASSES, XPOOL)
            poison.append(plant_poison(rng, r, rng.choice(["obj", "gen"])) + (None,) if rng.chance(0.8) else None)
            pool.append(r)
            pools.append(sorted(names_by_depth(cx.spec_of(r))))

        def gen_skip(j, cover):
            names = rng.sample(pools[j], rng.randint(0, min(2, len(pools[j]))))
            tys = [rng.choice(cx.ABC_NAMES + ["ndarray", "Tensor", "int", "dict"])] if rng.chance(0.25) else []
            if cover and poison[j]:
                names.append(poison[j][0])
            return cx.make_arg(rng, sorted(set(names)), tys)
        ops = []
        for _ in range(rng.randint(2, 6)):
            if rng.chance(0.62):
                j = rng.below(len(pool))
                ops.append({"k": "save", "obj": j, "path": rng.choice(["p0", "p1", "p2"]), "overwrite": rng.chance(0.6),
                            "bad_level": rng.chance(0.1), "skip": gen_skip(j, rng.chance(0.5))})
            else:
                ops.append({"k": "load", "path": rng.choice(["p0", "p1", "p2"]),
                            "skip": cx.make_arg(rng, rng.sample(pools[0], min(len(pools[0]), rng.randint(0, 2))),
                                                ["ndarray"] if rng.chance(0.1) else [])})
        # the retry pattern: the same live object again, this time naming the offending attribute
        j = rng.below(len(pool))
        ops.append({"k": "save", "obj": j, "path": "pz", "overwrite": False, "bad_level": False, "skip": gen_skip(j, True)})
        ops.append({"k": "load", "path": "pz", "skip": cx.make_arg(rng, rng.sample(pools[j], min(len(pools[j]), rng.randint(0, 2))), [])})
        run_history(ctx, drv, pool, ops, store, i)


def run(ctx):
    from qv.driver import Driver
    drv = Driver("C14")
    probe_hybrid(ctx)
    try:
        same_name_types_stream(ctx, drv)
        n = ctx.n(140, 1500)
        for i in range(n):
            rng = ctx.rng.fork(i)
            if rng.chance(0.5):
                g = AttrNestedGen(rng, {"rng_in_container": True, "fallback_in_container": True})
                recipe = g.root(rng.weighted([(1, 2), (2, 4), (3, 3)]))
            else:
                recipe = gen_tree(rng, rng.weighted([(1, 2), (2, 4), (3, 3), (4, 1)]))
            spec = sc.observe(sc.Builder(None).build(recipe))
            nd = names_by_depth(spec)
            pool = sorted(nd)
            deep = [k for k in pool if max(nd[k]) >= 2]
            names = rng.sample(pool, rng.randint(0, min(3, len(pool)))) if pool else []
            if deep and rng.chance(0.6):
                names.append(rng.choice(deep))     # a name that occurs (also) deep in the tree
            names = sorted(set(names))
            if names and rng.chance(0.25):
                names = [rng.choice(names)]      # a single name: exercised as a bare string too
            elif rng.chance(0.4):
                names.append(rng.choice(["absent", "zz", "count"]))
            th = types_hit(spec)
            nested_types = sorted(t for t, ds in th.items() if max(ds) >= 1)
            types = []
            for _ in range(rng.weighted([(0, 3), (1, 4), (2, 2)])):
                src = nested_types if nested_types and rng.chance(0.7) else sorted(TYPES)
                t = rng.choice(src)
                if t not in types:
                    types.append(t)
            if rng.chance(0.12):
                # two distinct types with the same class name, in either order, next to whatever was drawn
                pair = ["Generator", "TorchGenerator"]
                if rng.chance(0.5):
                    pair.reverse()
                types = [t for t in types if t not in pair][:1] + pair
            ctx.dist[f"max_name_depth:{max([max(nd[k]) for k in names if k in nd] + [-1])}"] += 1
            ctx.dist[f"types_hit_nested:{sum(1 for t in types if t in nested_types)}"] += 1
            check_case(ctx, drv, recipe, names, types, rng.choice(["zip", "dir"]), i)
        fixed_block_x(ctx, drv)
        fixed_block_g6(ctx, drv)
        ext_stream(ctx, drv)
        history_stream(ctx, drv)
        ptycho_stream(ctx, drv)
    finally:
        drv.close()


def replay(ctx, rep):
    from qv.driver import Driver
    case = rep.get("case") or rep["correspondence_disagreements"][0]["case"]
    if case.get("probe") == "hybrid":
        probe_hybrid(ctx)
        return True
    if case.get("ptycho"):
        ptycho_stream(ctx)
        return True
    drv = Driver("C14")
    try:
        if case.get("x"):
            check_case_x(ctx, drv, case["recipe"], case["save"], case["load"], case["store"], "replay", case.get("form", "list"), case.get("load_form"))
            return True
        if case.get("hist"):
            run_history(ctx, drv, case["pool"], case["ops"], case["store"], "replay")
            return True
        check_case(ctx, drv, case["recipe"], case["names"], case["types"], case["store"], "replay")
    finally:
        drv.close()
    return True
