"""C15 — call histories on ONE DriftCorrection object, in lockstep with the state machine of
Model/DriftSession.lean, with a twin object that only receives the calls that succeeded.

Histories contain assignments to scan_direction_degrees (new list / ndarray / in-place edit of the stored array),
preprocess() calls in many argument forms (valid, rejected by validate_pad_value, rejected by the float()/int()
conversions, failing late), align_translation / align_affine / align_nonrigid calls that are rejected, that raise
because of a wrong-typed argument only the callee looks at, or that are hit by an exception raised by a callee
(cross_correlation_shift) inside their loop, followed by valid calls."""
import contextlib
import io
import math

import numpy as np

TOL64 = 1e-9
TOL32 = 5e-4


class _Fault(RuntimeError):
    pass


FAULT_MSG = "qverif injected fault"


def _quiet():
    return contextlib.ExitStack()


def call_quiet(f):
    with contextlib.redirect_stdout(io.StringIO()), contextlib.redirect_stderr(io.StringIO()):
        return f()


def exc_name(e):
    if isinstance(e, _Fault) or (isinstance(e, KeyboardInterrupt) and FAULT_MSG in str(e)):
        return "Fault"
    for cls, name in ((OverflowError, "OverflowError"), (IndexError, "IndexError"), (TypeError, "TypeError"), (ValueError, "ValueError")):
        if isinstance(e, cls):
            return name
    return type(e).__name__


# ---------------------------------------------------------------- argument forms
def num_py(spec):
    """the Python object of a numeric argument spec"""
    k = spec["k"]
    if k == "nan":
        return float("nan")
    if k == "inf":
        return float("inf")
    if k == "badStr":
        return "wide"
    if k == "none":
        return None
    v, form = spec["v"], spec.get("form", "float")
    if form == "float":
        return float(v)
    if form == "int":
        return int(v)
    if form == "str":
        return repr(float(v)) if float(v) != int(v) or spec.get("dot") else str(int(v))
    if form == "np32":
        return np.float32(v)
    if form == "np64":
        return np.float64(v)
    if form == "npint":
        return np.int64(v)
    if form == "bool":
        return bool(v)
    raise ValueError(form)


def num_lean(d, spec, as_int=False):
    k = spec["k"]
    if k in ("nan", "inf", "badStr", "none"):
        return k
    o = num_py(spec)
    if isinstance(o, str):
        o = int(o) if as_int else float(o)
    return {"num": d.f2b(float(o))}


def pad_py(spec, n):
    k = spec["k"]
    if k == "str":
        return spec["v"]
    if k == "num":
        return num_py(spec)
    if k == "nan":
        return float("nan")
    if k == "list":
        out = []
        for i, it in enumerate(spec["items"]):
            out.append({"num": float(i), "int": i, "bool": True, "np32": np.float32(0), "str": "a", "none": None}[it])
        return out
    if k == "other":
        return {"None": None, "tuple": tuple([0.0] * n), "ndarray": np.zeros(n), "dict": {}}[spec["form"]]
    raise ValueError(k)


def pad_lean(d, spec):
    k = spec["k"]
    if k == "str":
        return {"str": spec["v"]}
    if k == "num":
        return {"num": d.f2b(float(num_py(spec)))}
    if k == "nan":
        return "nan"
    if k == "list":
        return {"list": [it in ("num", "int", "bool") for it in spec["items"]]}
    return "other"


def reg_py(spec):
    return {"None": None, "str8": "8", "str32": "32", "list": [8]}.get(spec, spec) if isinstance(spec, str) else spec


def reg_bad(spec, is_ms):
    if isinstance(spec, str):
        return not (is_ms and spec == "None")
    return False


# ---------------------------------------------------------------- real-object helpers
def geom_of(dc):
    """behavioural geometry of the real object: canvas, knots, per-pixel coordinates"""
    if not hasattr(dc, "knots"):
        return None
    shape = getattr(dc, "shape", None)
    out = {"canvas": [int(shape[1]), int(shape[2])] if shape is not None and len(shape) == 3 else None, "knots": [], "xa": [], "ya": []}
    for i in range(len(dc.knots)):
        k = np.asarray(dc.knots[i], dtype=float)
        out["knots"].append(k)
        if k.ndim == 3 and 1 <= k.shape[-1] <= 4 and i < len(getattr(dc, "interpolator", [])):
            xa, ya = dc.interpolator[i].transform_coordinates(dc.knots[i])
            out["xa"].append(np.asarray(xa, dtype=float))
            out["ya"].append(np.asarray(ya, dtype=float))
        else:
            out["xa"].append(None)
            out["ya"].append(None)
    return out


def same_objects(a, b):
    """bit-for-bit behavioural equality of two DriftCorrection objects"""
    ha, hb = hasattr(a, "knots"), hasattr(b, "knots")
    if ha != hb:
        return False, {"has_knots": [ha, hb]}
    if not ha:
        return True, {}
    sa, sb = getattr(a, "shape", None), getattr(b, "shape", None)
    if (sa is None) != (sb is None) or (sa is not None and tuple(sa) != tuple(sb)):
        return False, {"shape": [None if sa is None else list(sa), None if sb is None else list(sb)]}
    ia, ib = getattr(a, "interpolator", []), getattr(b, "interpolator", [])
    if len(a.knots) != len(b.knots) or len(ia) != len(ib):
        return False, {"len": [len(a.knots), len(b.knots), len(ia), len(ib)]}
    if sa is None or len(ia) != len(a.knots):
        return True, {}      # both objects equally incomplete (no canvas / interpolators yet)
    for i in range(len(a.knots)):
        ka, kb = np.asarray(a.knots[i]), np.asarray(b.knots[i])
        if ka.shape != kb.shape or not np.array_equal(ka, kb, equal_nan=True):
            return False, {"knots": i, "max_diff": float(np.max(np.abs(ka - kb))) if ka.shape == kb.shape else "shape"}
        if 1 <= ka.shape[-1]:
            ca = a.interpolator[i].transform_coordinates(a.knots[i])
            cb = b.interpolator[i].transform_coordinates(b.knots[i])
            if not (np.array_equal(np.asarray(ca[0]), np.asarray(cb[0]), equal_nan=True) and np.array_equal(np.asarray(ca[1]), np.asarray(cb[1]), equal_nan=True)):
                return False, {"coordinates": i}
    for name in ("images_warped", "weights_warped"):
        xa, xb = np.asarray(getattr(a, name).array), np.asarray(getattr(b, name).array)
        if xa.shape != xb.shape or not np.array_equal(xa, xb, equal_nan=True):
            return False, {name: float(np.max(np.abs(xa.astype(float) - xb.astype(float)))) if xa.shape == xb.shape else "shape"}
    return True, {}


class FaultAt:
    """raise inside the k-th call of drift.cross_correlation_shift (the name the module calls)"""

    def __init__(self, k, exc):
        self.k, self.exc, self.fired, self.calls = k, exc, False, 0

    def __enter__(self):
        # both spellings a caller in drift.py can use: the name imported into the module and the attribute of imaging_utils
        import quantem.imaging.drift as dm
        import quantem.core.utils.imaging_utils as iu
        self.saved = []
        orig = iu.cross_correlation_shift

        def wrapper(*a, **kw):
            i = self.calls
            self.calls += 1
            if i == self.k:
                self.fired = True
                if self.exc == "KeyboardInterrupt":
                    raise KeyboardInterrupt(FAULT_MSG)
                raise _Fault(FAULT_MSG)
            return orig(*a, **kw)
        for mod in (dm, iu):
            if getattr(mod, "cross_correlation_shift", None) is orig:
                self.saved.append((mod, orig))
                setattr(mod, "cross_correlation_shift", wrapper)
        return self

    def __exit__(self, *a):
        for mod, orig in self.saved:
            setattr(mod, "cross_correlation_shift", orig)
        return False


def do_op(dc, op, n, angle_store):
    """apply one op of a history to a real object; returns (outcome name, fault fired)"""
    kind = op["op"]
    fired = False
    try:
        if kind == "set_angles":
            form = op.get("form", "list")
            if form == "list":
                dc.scan_direction_degrees = [float(a) for a in op["angles"]]
            elif form == "intlist":
                dc.scan_direction_degrees = [int(a) if float(a) == int(a) else float(a) for a in op["angles"]]
            elif form == "ndarray":
                dc.scan_direction_degrees = np.array(op["angles"], dtype=float)
            elif form == "tuple":
                dc.scan_direction_degrees = tuple(float(a) for a in op["angles"])
            elif form == "inplace":      # edit the stored array in place (it may alias the caller's ndarray)
                arr = dc.scan_direction_degrees
                if arr.dtype.kind == "f" and arr.shape == (len(op["angles"]),):
                    arr[...] = np.array(op["angles"], dtype=float)
                else:
                    dc.scan_direction_degrees = [float(a) for a in op["angles"]]
            else:
                raise ValueError(form)
        elif kind == "preprocess":
            kw = {"pad_fraction": num_py(op["pad"]), "pad_value": pad_py(op["pad_value"], n), "kde_sigma": num_py(op["sigma"]),
                  "number_knots": num_py(op["nk"])}
            if op.get("positional"):
                call_quiet(lambda: dc.preprocess(kw["pad_fraction"], kw["pad_value"], kw["kde_sigma"], kw["number_knots"]))
            else:
                call_quiet(lambda: dc.preprocess(**kw))
        elif kind == "align_translation":
            kw = {"upsample_factor": reg_py(op["up"]), "max_image_shift": reg_py(op["ms"]), "show_merged": False}
            if op.get("min_shift") is not None:
                kw["min_image_shift"] = op["min_shift"]
            if op.get("fault") is not None:
                with FaultAt(op["fault"], op.get("fault_exc", "RuntimeError")) as fa:
                    try:
                        call_quiet(lambda: dc.align_translation(**kw))
                    finally:
                        fired = fa.fired
            else:
                call_quiet(lambda: dc.align_translation(**kw))
        elif kind == "align_affine":
            kw = {"step": op["step"], "num_tests": op["num_tests"], "refine": op["refine"], "upsample_factor": reg_py(op["up"]),
                  "max_image_shift": reg_py(op["ms"]), "show_merged": False}
            if op.get("fault") is not None:
                with FaultAt(op["fault"], op.get("fault_exc", "RuntimeError")) as fa:
                    try:
                        call_quiet(lambda: dc.align_affine(**kw))
                    finally:
                        fired = fa.fired
            else:
                call_quiet(lambda: dc.align_affine(**kw))
        elif kind == "align_nonrigid":
            call_quiet(lambda: dc.align_nonrigid(show_merged=False, **op["kw"]))
        else:
            raise ValueError(kind)
        return "ok", fired
    except BaseException as e:    # injected KeyboardInterrupt included
        if isinstance(e, KeyboardInterrupt) and FAULT_MSG not in str(e):
            raise
        if isinstance(e, (SystemExit, MemoryError)):
            raise
        return exc_name(e), fired


def canvas_oracle(n, pad):
    from fractions import Fraction
    v = Fraction(n) * (1 + Fraction(pad)) / 2
    f = math.floor(v)
    r = v - f
    tie = abs(r - Fraction(1, 2))
    if r < Fraction(1, 2):
        k = f
    elif r > Fraction(1, 2):
        k = f + 1
    else:
        k = f if f % 2 == 0 else f + 1
    return 2 * k, float(tie)


def placement_oracle(H, W, Hc, Wc, deg):
    th = math.radians(deg)
    fast = (math.sin(-th), math.cos(-th))
    slow = (math.cos(-th), -math.sin(-th))
    r = np.arange(H)[:, None] - (H - 1) / 2.0
    c = np.arange(W)[None, :] - (W - 1) / 2.0
    return ((Hc - 1) / 2.0 + c * fast[0] + r * slow[0], (Wc - 1) / 2.0 + c * fast[1] + r * slow[1])


def make_image(rng, H, W):
    img = np.array([[rng.randint(0, 9) for _ in range(W)] for _ in range(H)], dtype=float)
    img[rng.below(H), rng.below(W)] += rng.randint(8, 20)
    return img


# ---------------------------------------------------------------- the stream
def case_session(ctx, drv, d, case):
    from qv.prng import Rng
    from quantem.imaging.drift import DriftCorrection
    shapes = [tuple(s) for s in case["shapes"]]
    n = len(shapes)
    rng = Rng(case["sub"])
    if case.get("identical"):
        base = make_image(rng, *shapes[0])
        images = [base.copy() for _ in range(n)]
    elif case.get("rolled"):
        base = make_image(rng, *shapes[0])
        images = [np.roll(base, (t[0], t[1]), (0, 1)) for t in case["rolled"]]
    else:
        images = [make_image(rng, *s) for s in shapes]
    # pad fractions that sit within float noise of a rounding tie of np.round are not decidable: skip the case
    for op in case["ops"]:
        if op["op"] == "preprocess" and op["pad"]["k"] == "num" and n >= 2:
            pf = float(num_py(op["pad"]))
            t1, t2 = canvas_oracle(shapes[0][0], pf)[1], canvas_oracle(shapes[1][1], pf)[1]
            if any(0 < t < 1e-6 for t in (t1, t2)):
                ctx.dist["session:rejected(np.round near-tie)"] += 1
                return
    ctx.count()
    ctx.dist[f"session:n={n}"] += 1
    ctx.dist[f"session:{'identical' if case.get('identical') else ('rolled' if case.get('rolled') else ('mixed shapes' if len(set(shapes)) > 1 else 'independent'))} stack"] += 1

    a0 = [float(a) for a in case["angles"]]
    if case.get("angles_form") == "ndarray":
        dc = DriftCorrection.from_data([im.copy() for im in images], np.array(a0))
        twin = DriftCorrection.from_data([im.copy() for im in images], np.array(a0))
    else:
        dc = DriftCorrection.from_data([im.copy() for im in images], list(a0))
        twin = DriftCorrection.from_data([im.copy() for im in images], list(a0))

    def ask(req):
        r = drv.ask(req)
        if "ok" not in r:
            raise RuntimeError(f"driver error {r} on {str(req)[:200]}")
        return r["ok"]

    m = ask({"op": "s_new", "shapes": [list(s) for s in shapes], "angles": [d.f2b(a) for a in a0]})
    synced = True          # model state tracks the real object
    twin_ok = True         # twin comparable (false between a late-failing preprocess and the next successful one)
    drift = False          # an alignment call has succeeded since the last preprocess
    ntrans = 0             # successful translations since the last preprocess (tolerance bookkeeping)
    cfg = None             # configuration of the last preprocess that reset the geometry
    angles_now = list(a0)
    nfail = 0

    for pos, op in enumerate(case["ops"]):
        kind = op["op"]
        label = kind + (":" + op["why"] if op.get("why") else "")
        before = geom_of(dc)
        warped_before = [np.asarray(a, dtype=np.float64).copy() for a in dc.images_warped.array] if hasattr(dc, "images_warped") else None
        out, fired = do_op(dc, op, n, None)
        ctx.dist[f"session:op {label} -> {out}"] += 1
        after = geom_of(dc)
        if kind == "set_angles" and out == "ok":
            angles_now = [float(a) for a in op["angles"]]

        # ---------------- the model's transition
        mo = None
        if kind == "set_angles":
            if out == "ok":
                mo = ask({"op": "s_set_angles", "angles": [d.f2b(float(a)) for a in op["angles"]]})
        elif kind == "preprocess":
            mo = ask({"op": "s_preprocess", "pad": num_lean(d, op["pad"]), "pad_value": pad_lean(d, op["pad_value"]),
                      "sigma": num_lean(d, op["sigma"]), "nk": num_lean(d, op["nk"], as_int=True)})
        elif kind == "align_translation" and synced:
            raw = []
            if out == "ok" and not ((case.get("identical") or case.get("rolled")) and cfg is not None and len(set(cfg["angles"])) == 1):
                # the registration of unrelated canvases is ill-conditioned (near-tied peaks): what it measures is not replayed on the model
                raw = None
            if out == "ok" and warped_before is not None and not all(_unique_peak(w) for w in warped_before):
                raw = None      # exact correlation tie: the shift is not determined by the data
            if out == "ok" and op.get("min_shift") is not None and before is not None and after is not None:
                dl = after["knots"][-1] - before["knots"][-1]
                if abs(math.hypot(float(dl[0].flat[0]), float(dl[1].flat[0])) - float(op["min_shift"])) < 1e-2 and float(op["min_shift"]) > 0:
                    raw = None      # the `< min_image_shift` test would be decided by float noise
            if raw is not None and out == "ok" and warped_before is not None and before is not None:
                mm = ask({"op": "align", "up": int(op["up"]), "max_shift": None if op["ms"] == "None" else d.f2b(float(op["ms"])),
                          "imgs": [[[d.f2b(v) for v in row] for row in w] for w in warped_before]})
                raw = mm["raw"][1:]
            if before is None and out == "ok":
                # implicit preprocess(): the warped stack the loop sees is the one preprocess just made — measure it on the twin below
                raw = None
            if raw is not None:
                mo = ask({"op": "s_align_translation", "up": "bad" if reg_bad(op["up"], False) else "good",
                          "ms": "bad" if reg_bad(op["ms"], True) else "good",
                          "min_shift": None if op.get("min_shift") is None else d.f2b(float(op["min_shift"])),
                          "fault": bool(fired), "raw": raw})
            else:
                synced = False
        elif kind == "align_affine" and synced:
            if out != "ok":
                mo = ask({"op": "s_align_affine", "step": d.f2b(float(op["step"])) if not isinstance(op["step"], str) else d.f2b(0.0),
                          "num_tests": int(op["num_tests"]), "refine": bool(op["refine"]),
                          "up": "bad" if reg_bad(op["up"], False) else "good", "ms": "bad" if reg_bad(op["ms"], True) else "good",
                          "fault": bool(fired), "ind1": 0, "raw1": [], "ind2": 0, "raw2": []})
            else:
                synced = False      # a successful search: what it measured is not replayed on the model
        elif kind == "align_nonrigid":
            if out == "ok":
                synced = False

        # ---------------- outcome classes
        if mo is not None and mo["outcome"] != out and not (kind == "align_affine" and isinstance(op["step"], str)):
            ctx.disagree("session-outcome", dict(case, failing_step=pos), mo["outcome"], out,
                         note=f"op {pos} ({label}): the model's state machine and the real object disagree on ok / exception class")
        # ---------------- bookkeeping of what the history has done
        reset = False
        if kind == "preprocess" and out == "ok":
            reset = True
        if kind == "preprocess" and out != "ok" and mo is not None and mo["outcome"] != "ok" and mo["state"]["geom"] is not None \
                and mo["state"]["warped_valid"] is False and after is not None:
            # a LATE failure (the model says which: empty canvas, gaussian_filter(sigma=inf)): knots and interpolators have been re-made
            # for the new configuration, the warped stack has not; every other raising preprocess() must leave the object alone
            reset = True
        if kind == "align_translation" and before is None and after is not None:
            reset = True       # implicit preprocess()
            cfg = {"pad": 0.25, "nk": 1, "angles": list(angles_now)}
            drift, ntrans = False, 0
        if kind == "preprocess" and reset:
            synced = True      # a preprocess that reaches the knot reset re-synchronises model and object
            nkv = num_py(op["nk"])
            cfg = {"pad": float(num_py(op["pad"])), "nk": int(float(nkv)) if not isinstance(nkv, str) else int(nkv), "angles": list(angles_now)}
            drift, ntrans = False, 0
            twin_ok = (out == "ok")
        if out == "ok" and kind in ("align_translation", "align_affine", "align_nonrigid"):
            drift = True
            if kind == "align_translation":
                ntrans += 1
        if out != "ok":
            nfail += 1

        # ---------------- twin: receives the calls that succeeded
        if out == "ok":
            op2 = {k: v for k, v in op.items() if k not in ("fault", "fault_exc")}
            tout, _ = do_op(twin, op2, n, None)
            if tout != "ok":
                ctx.disagree("session-twin", dict(case, failing_step=pos), "ok", tout, note="the same successful call raised on the twin object")
                return
        elif before is None and after is not None and kind.startswith("align"):
            call_quiet(lambda: twin.preprocess())     # the implicit default preprocess() ran before the call raised
        if twin_ok:
            same, why = same_objects(dc, twin)
            if not same:
                if out != "ok":
                    ctx.pred_fail(f"session-raising-call-changed-state-{kind}",
                                  f"a {kind}() call that raised ({label} -> {out}) left the object in a different resampling state than a twin "
                                  "on which the call was never made", dict(case, failing_step=pos), observed=why, required="geometry unchanged by a call that raised")
                else:
                    ctx.pred_fail(f"session-differs-from-twin-{kind}",
                                  f"after a history with {nfail} raising call(s) a successful {kind}() gives a different result than on a twin object that "
                                  "only received the successful calls", dict(case, failing_step=pos), observed=why, required="identical knots / warped stack")
                return

        # ---------------- the property itself, on the real object
        if after is not None and after["canvas"] is None:
            ctx.pred_fail(f"session-raising-call-changed-state-{kind}", f"after {label} -> {out} the object has knots but no canvas shape (half-initialised geometry)",
                          dict(case, failing_step=pos), observed="knots without shape", required="geometry unchanged by a call that raised")
            return
        if after is not None and cfg is not None and not drift:
            # before any drift has been estimated (only raising alignment calls so far): exact placement
            Hc, Wc = after["canvas"]
            scale = max(1.0, float(Hc), float(Wc))
            for i, (H, W) in enumerate(shapes):
                if after["xa"][i] is None or not (1 <= cfg["nk"] <= 4):
                    continue
                ex, ey = placement_oracle(H, W, Hc, Wc, cfg["angles"][i])
                xa, ya = after["xa"][i], after["ya"][i]
                err = max(float(np.max(np.abs(xa - ex))), float(np.max(np.abs(ya - ey)))) if xa.shape == ex.shape else float("inf")
                ctx.stat_max("session:placement_err (no drift estimated yet)", err)
                if not err <= TOL64 * scale:
                    ctx.pred_fail(f"session-placement-nk{cfg['nk']}",
                                  "before any drift has been estimated (every alignment call so far raised), pixel (r,c) is not placed at canvas centre "
                                  "+ rotation of its offset from the image centre", dict(case, failing_step=pos, image=i),
                                  observed={"max_err_px": err, "after_op": label, "outcome": out}, required="<= 1e-9 * canvas size")
                    return
            if out == "ok" and kind == "preprocess":
                for i, (H, W) in enumerate(shapes):
                    wsum = float(np.sum(np.asarray(dc.weights_warped.array[i], dtype=np.float64)))
                    if not abs(wsum - H * W) / (H * W) <= 1e-4:
                        ctx.pred_fail("session-weight-sum", "weight map of the resampled image does not sum to the number of image pixels",
                                      dict(case, failing_step=pos, image=i), observed=wsum, required=H * W)
                        return
        if (out == "ok" and kind == "align_translation" and case.get("identical") and cfg is not None and len(set(cfg["angles"])) == 1
                and before is not None and not case.get("_affine_done") and all(np.all(np.isfinite(k)) for k in before["knots"])
                and warped_before is not None and all(_unique_peak(w) for w in warped_before)):
            moved = max(float(np.max(np.abs(k1 - k0))) for k1, k0 in zip(after["knots"], before["knots"]))
            ctx.stat_max("session:identical_stack_knot_motion", moved)
            if not moved <= TOL32:
                ctx.pred_fail("session-fixed-point", f"identical stack is not a fixed point of align_translation after a history with {nfail} raising call(s)",
                              dict(case, failing_step=pos), observed=moved, required="knots unchanged")
                return
        if out == "ok" and kind in ("align_affine", "align_nonrigid"):
            case["_affine_done"] = True
        if kind == "preprocess" and reset:
            case.pop("_affine_done", None)

        # ---------------- correspondence: geometry after the op
        if synced and mo is not None:
            mg = mo["state"]["geom"]
            if (mg is None) != (after is None):
                ctx.disagree("session-geom", dict(case, failing_step=pos), "no knots" if mg is None else "knots", "no knots" if after is None else "knots",
                             note=f"op {pos} ({label})")
                return
            if mg is not None:
                if list(mg["canvas"]) != list(after["canvas"]):
                    ctx.disagree("session-canvas", dict(case, failing_step=pos), mg["canvas"], after["canvas"], note=f"op {pos} ({label}): canvas shape")
                    return
                scale = max(1.0, float(after["canvas"][0]), float(after["canvas"][1]))
                tol = TOL64 * scale if ntrans == 0 else TOL32 * ntrans * scale
                if len(mg["imgs"]) != len(after["knots"]):
                    ctx.disagree("session-geom", dict(case, failing_step=pos), len(mg["imgs"]), len(after["knots"]), note="number of knot arrays")
                    return
                for i, im in enumerate(mg["imgs"]):
                    mk = np.array([[[d.b2f(v) for v in k] for k in row] for row in im["knots"]]).reshape(im["H"], im["nk"], 2)
                    ik = np.transpose(after["knots"][i], (1, 2, 0))
                    dk = float(np.nanmax(np.abs(mk - ik))) if mk.shape == ik.shape and mk.size else (0.0 if mk.shape == ik.shape else float("inf"))
                    if mk.shape == ik.shape and (np.isnan(mk).any() != np.isnan(ik).any()):
                        dk = float("inf")
                    ctx.stat_max("session:knots model-vs-impl" + (" (after translation, float32 path)" if ntrans else ""), dk / scale)
                    if not dk <= tol:
                        ctx.disagree("session-knots", dict(case, failing_step=pos, image=i), {"knots[0]": mk[0].tolist() if mk.size else None},
                                     {"knots[0]": ik[0].tolist() if ik.size else None}, note=f"op {pos} ({label} -> {out}): knots of the state machine vs the object (max diff {dk:.3g})")
                        return
                    if im["xa"] is not None and after["xa"][i] is not None:
                        mx = np.array([[d.b2f(v) for v in row] for row in im["xa"]])
                        my = np.array([[d.b2f(v) for v in row] for row in im["ya"]])
                        dxy = max(float(np.max(np.abs(mx - after["xa"][i]))), float(np.max(np.abs(my - after["ya"][i])))) if mx.shape == after["xa"][i].shape else float("inf")
                        if not dxy <= tol:
                            ctx.disagree("session-xy", dict(case, failing_step=pos, image=i), {"xa[0]": mx[0].tolist()}, {"xa[0]": after["xa"][i][0].tolist()},
                                         note=f"op {pos} ({label} -> {out}): coordsOf vs transform_coordinates(knots) (max diff {dxy:.3g})")
                            return
            if out == "ok" and kind == "preprocess":
                # attributes are compared right after a successful preprocess() only: which of them a REJECTED call has already
                # assigned is an incidental detail (a rewrite that converts every argument before assigning any is harmless)
                st = mo["state"]
                for name, got in (("pad_fraction", getattr(dc, "_pad_fraction", None)), ("kde_sigma", getattr(dc, "_kde_sigma", None))):
                    mv = st[name]
                    mvf = None if mv is None else (float("nan") if mv == "nan" else (float("inf") if mv == "inf" else d.b2f(mv)))
                    if (mvf is None) != (got is None) or (mvf is not None and not (mvf == got or (math.isnan(mvf) and math.isnan(got)))):
                        ctx.disagree("session-attrs", dict(case, failing_step=pos), {name: mvf}, {name: got}, note=f"op {pos} ({label}): attribute after a successful call")
                if st["number_knots"] != getattr(dc, "_number_knots", None):
                    ctx.disagree("session-attrs", dict(case, failing_step=pos), {"number_knots": st["number_knots"]}, {"number_knots": getattr(dc, "_number_knots", None)},
                                 note=f"op {pos} ({label})")
    last_nk = cfg["nk"] if cfg else 0
    ctx.mark(("session", n, len(set(shapes)) > 1, bool(case.get("identical")), tuple(sorted({o["op"] + ":" + str(o.get("why")) for o in case["ops"]})), last_nk))
    ctx.sample({k: v for k, v in case.items() if not k.startswith("_")}, limit=6)


def _unique_peak(img):
    from props.c15 import unique_peak
    return unique_peak(img)


def _geom_equal(a, b):
    if a["canvas"] != b["canvas"] or len(a["knots"]) != len(b["knots"]):
        return False
    return all(x.shape == y.shape and np.array_equal(x, y, equal_nan=True) for x, y in zip(a["knots"], b["knots"]))


# ---------------------------------------------------------------- generator
def _num(v, form="float"):
    return {"k": "num", "v": v, "form": form}


def gen_valid_preprocess(rng, n, prev=None):
    pad = rng.choice([0.0, 0.25, 0.5, 0.75, 0.125])
    padspec = _num(pad, rng.weighted([("float", 6), ("str", 1), ("np32", 1), ("np64", 1)]))
    if pad == 0.0 and rng.chance(0.3):
        padspec = _num(0, rng.choice(["int", "bool"]))
    nk = rng.randint(1, 4)
    nkform = rng.weighted([("int", 6), ("float", 1), ("str", 1), ("npint", 1), ("frac", 1)])
    if nkform == "frac":
        nkspec = _num(nk + rng.choice([0.25, 0.5, 0.75]), "float")      # int() truncates
    elif nkform == "float":
        nkspec = _num(float(nk), "float")
    elif nkform == "str":
        nkspec = _num(nk, "str")
    else:
        nkspec = _num(nk, nkform)
    if nk == 1 and rng.chance(0.15):
        nkspec = _num(1, "bool")
    sig = rng.choice([0.25, 0.5, 1.0, 0.0])
    sigspec = _num(sig, rng.weighted([("float", 6), ("str", 1), ("np32", 1)]))
    if sig == 0.0 and rng.chance(0.3):
        sigspec = _num(0, "int")
    pv = rng.weighted([({"k": "str", "v": "median"}, 3), ({"k": "str", "v": "mean"}, 1), ({"k": "str", "v": "min"}, 1), ({"k": "str", "v": "max"}, 1),
                       (dict(_num(0.25), k="num"), 1), (dict(_num(0, "int"), k="num"), 1), (dict(_num(1, "int"), k="num"), 1), (dict(_num(1, "bool"), k="num"), 1),
                       (dict(_num(-0.0), k="num"), 1), ({"k": "list", "items": [rng.choice(["num", "int", "bool"]) for _ in range(n)]}, 2)])
    return {"op": "preprocess", "pad": padspec, "pad_value": pv, "sigma": sigspec, "nk": nkspec, "positional": rng.chance(0.3)}


EARLY_BAD = ["pv str unknown", "pv str empty", "pv str short", "pv>1", "pv<0", "pv nan", "pv list long", "pv list short", "pv list empty", "pv list str",
             "pv list np32", "pv None", "pv tuple", "pv ndarray", "pad badStr", "pad None", "sigma badStr", "sigma None", "nk badStr", "nk None", "nk 0",
             "nk negative", "nk nan", "nk inf", "nk 0.9", "pad nan", "pad inf"]


def gen_bad_preprocess(rng, n, why=None):
    op = gen_valid_preprocess(rng, n)
    why = why or rng.choice(EARLY_BAD)
    op["why"] = why
    if why == "pv str unknown":
        op["pad_value"] = {"k": "str", "v": rng.choice(["medain", "Median", "average", "median ", "0.5"])}
    elif why == "pv str empty":
        op["pad_value"] = {"k": "str", "v": ""}
    elif why == "pv str short":
        op["pad_value"] = {"k": "str", "v": "ab"[: max(1, n - 1)]}
    elif why == "pv>1":
        op["pad_value"] = dict(_num(rng.choice([1.5, 1.0000001, 2]), "float"), k="num")
    elif why == "pv<0":
        op["pad_value"] = dict(_num(rng.choice([-0.1, -1e-9, -3.0]), "float"), k="num")
    elif why == "pv nan":
        op["pad_value"] = {"k": "nan"}
    elif why == "pv list long":
        op["pad_value"] = {"k": "list", "items": ["num"] * (n + 1)}
    elif why == "pv list short":
        op["pad_value"] = {"k": "list", "items": ["num"] * (n - 1)}
    elif why == "pv list empty":
        op["pad_value"] = {"k": "list", "items": []}
    elif why == "pv list str":
        op["pad_value"] = {"k": "list", "items": ["num"] * (n - 1) + ["str"]}
    elif why == "pv list np32":
        op["pad_value"] = {"k": "list", "items": ["np32"] + ["num"] * (n - 1)}
    elif why == "pv None":
        op["pad_value"] = {"k": "other", "form": "None"}
    elif why == "pv tuple":
        op["pad_value"] = {"k": "other", "form": "tuple"}
    elif why == "pv ndarray":
        op["pad_value"] = {"k": "other", "form": "ndarray"}
    elif why == "pad badStr":
        op["pad"] = {"k": "badStr"}
    elif why == "pad None":
        op["pad"] = {"k": "none"}
    elif why == "sigma badStr":
        op["sigma"] = {"k": "badStr"}
    elif why == "sigma None":
        op["sigma"] = {"k": "none"}
    elif why == "nk badStr":
        op["nk"] = {"k": "badStr"}
    elif why == "nk None":
        op["nk"] = {"k": "none"}
    elif why == "nk 0":
        op["nk"] = _num(0, rng.choice(["int", "float", "bool"]))
    elif why == "nk negative":
        op["nk"] = _num(rng.choice([-1, -2]), "int")
    elif why == "nk 0.9":
        op["nk"] = _num(rng.choice([0.9, -0.5, 0.5]), "float")
    elif why == "nk nan":
        op["nk"] = {"k": "nan"}
    elif why == "nk inf":
        op["nk"] = {"k": "inf"}
    elif why == "pad nan":
        op["pad"] = {"k": "nan"}
    elif why == "pad inf":
        op["pad"] = {"k": "inf"}
    elif why == "late sigma inf":
        op["sigma"] = {"k": "inf"}
    elif why == "late empty canvas":
        op["pad"] = _num(-1.0, "float")
    else:
        raise ValueError(why)
    return op


def gen_align_translation(rng, n, bad=None):
    op = {"op": "align_translation", "up": rng.choice([1, 2, 3, 8]), "ms": rng.choice([32, 32, 3, "None"]), "min_shift": rng.choice([None, None, 0.0, 0.3, 1e9])}
    if bad == "up":
        op["up"] = rng.choice(["None", "str8", "list"])
        op["why"] = "bad upsample_factor"
    elif bad == "ms":
        op["ms"] = rng.choice(["str32", "list"])
        op["why"] = "bad max_image_shift"
    elif bad == "fault":
        op["fault"] = rng.below(max(1, n - 1))
        op["fault_exc"] = rng.choice(["RuntimeError", "RuntimeError", "KeyboardInterrupt"])
        op["why"] = "fault in callee"
    return op


def gen_align_affine(rng, n, bad=None):
    nt = rng.choice([3, 3, 5])
    op = {"op": "align_affine", "step": rng.choice([0.01, 0.02, 0.005]), "num_tests": nt, "refine": rng.chance(0.6), "up": rng.choice([1, 2, 8]), "ms": rng.choice([32, "None"])}
    if bad == "even":
        op["num_tests"] = rng.choice([2, 4, 8, 0])
        op["why"] = "even num_tests"
    elif bad == "up":
        op["up"] = rng.choice(["None", "str8"])
        op["why"] = "bad upsample_factor"
    elif bad == "ms":
        op["ms"] = "str32"
        op["why"] = "bad max_image_shift"
    elif bad == "fault":
        ncand = {3: 9, 5: 21}[nt]
        op["fault"] = rng.choice([0, 1, rng.below(ncand), ncand - 1])
        op["fault_exc"] = rng.choice(["RuntimeError", "RuntimeError", "KeyboardInterrupt"])
        op["why"] = "fault in search loop"
    return op


def gen_session(rng, i):
    n = rng.weighted([(2, 4), (3, 4), (4, 1)])
    mode = ["identical", "independent", "rolled", "identical", "mixed", "independent"][i % 6]
    H = rng.randint(4, 8)
    W = H if rng.chance(0.25) else rng.randint(4, 8)
    shapes = [[H, W]] * n
    case = {"stream": "session", "sub": rng.next() & 0xFFFFFFFF}
    if mode == "mixed":
        shapes = [[rng.randint(3, 8), rng.randint(3, 8)] for _ in range(n)]
    case["shapes"] = [list(s) for s in shapes]

    def angles(same):
        if same:
            return [rng.weighted([(0, 1), (90, 1), (rng.randint(0, 359), 4), (round(rng.uniform(0, 360), 3), 2)])] * n
        return [rng.weighted([(0, 1), (90, 1), (180, 1), (rng.randint(0, 359), 5), (round(rng.uniform(0, 360), 3), 2)]) for _ in range(n)]
    same = mode in ("identical", "rolled")
    if mode == "identical":
        case["identical"] = True
    if mode == "rolled":
        case["rolled"] = [[0, 0]] + [[rng.randint(-1, 1), rng.randint(-1, 1)] for _ in range(n - 1)]
    case["angles"] = angles(same)
    case["angles_form"] = rng.choice(["list", "ndarray"])
    ops = []
    if rng.chance(0.1):
        # no preprocess yet: a raising / valid alignment call triggers the implicit default preprocess()
        ops.append(gen_align_translation(rng, n, rng.choice([None, "up", "fault"])))
    else:
        if rng.chance(0.25):
            ops.append(gen_bad_preprocess(rng, n))      # rejected before there are any knots
        ops.append(gen_valid_preprocess(rng, n))
    for _ in range(rng.randint(2, 6)):
        what = rng.weighted([("bad_trans", 4), ("bad_affine", 4), ("bad_nonrigid", 0.4), ("bad_pre", 3), ("late_pre", 0.4), ("angles", 2), ("pre", 2),
                             ("trans", 3), ("affine", 0.6)])
        if what == "bad_trans":
            ops.append(gen_align_translation(rng, n, rng.choice(["up", "ms", "fault", "fault"])))
        elif what == "bad_affine":
            ops.append(gen_align_affine(rng, n, rng.choice(["even", "up", "ms", "fault", "fault"])))
        elif what == "bad_nonrigid":
            ops.append({"op": "align_nonrigid", "why": "raises", "kw": rng.choice([{"num_iterations": "2"}, {"num_iterations": 1, "regularization_poly_order": "a"},
                                                                                      {"num_iterations": 1, "regularization_sigma_px": "a"},
                                                                                      {"num_iterations": 1, "regularization_update_step_size": "a"},
                                                                                      {"num_iterations": 1, "solve_individual_rows": False, "regularization_poly_order": "a"}])})
        elif what == "bad_pre":
            ops.append(gen_bad_preprocess(rng, n))
        elif what == "late_pre":
            ops.append(gen_bad_preprocess(rng, n, rng.choice(["late sigma inf", "late empty canvas"])))
            ops.append(gen_valid_preprocess(rng, n))
        elif what == "angles":
            ops.append({"op": "set_angles", "angles": angles(same), "form": rng.choice(["list", "intlist", "ndarray", "tuple", "inplace"])})
            if rng.chance(0.8):
                ops.append(gen_valid_preprocess(rng, n))
        elif what == "pre":
            ops.append(gen_valid_preprocess(rng, n))
        elif what == "trans":
            ops.append(gen_align_translation(rng, n))
        else:
            ops.append(gen_align_affine(rng, n))
    ops.append(gen_align_translation(rng, n))
    case["ops"] = ops
    return case
