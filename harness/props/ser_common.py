"""Shared by C01 / C14 / C08: Val-graph generator, builder (spec -> real Python objects),
canonicaliser (real objects -> Val JSON), the property's own equality."""
import hashlib
import json
import logging
import math
import pathlib
import struct

import numpy as np
import torch

from . import ser_classes

NAN_BITS = 0x7FF8000000000000


def f2b(x):
    x = float(x)
    if x != x:
        return NAN_BITS
    return struct.unpack("<Q", struct.pack("<d", x))[0]


def b2f(b):
    return struct.unpack("<d", struct.pack("<Q", int(b)))[0]


# ---- Scalars ------------------------------------------------------------------------------
def S(x):
    if x is None:
        return ["none"]
    if isinstance(x, (bool, np.bool_)):
        return ["bool", bool(x)]
    if isinstance(x, (int, np.integer)):
        return ["int", str(int(x))]
    if isinstance(x, (float, np.floating)):
        return ["float", f2b(x)]
    if isinstance(x, str):
        return ["str", str(x)]
    raise TypeError(f"not a scalar: {type(x)}")


def unS(s):
    t = s[0]
    if t == "none":
        return None
    if t == "bool":
        return bool(s[1])
    if t == "int":
        return int(s[1])
    if t == "float":
        return b2f(s[1])
    return s[1]


def tok_of(fp) -> int:
    return int(hashlib.sha1(json.dumps(fp, sort_keys=True, default=str).encode()).hexdigest()[:12], 16)


def arr_data(a: np.ndarray):
    flat = a.reshape(-1)
    if a.dtype.kind == "c":
        out = []
        for z in flat.tolist():
            out += [S(float(z.real)), S(float(z.imag))]
        return out
    if a.dtype.kind in "US":
        return [S(str(x)) for x in flat.tolist()]
    return [S(x) for x in flat.tolist()]


def tensor_fp(t):
    tt = t.detach()
    vals = tt.to(torch.float64).reshape(-1).tolist() if not tt.is_complex() else torch.view_as_real(tt).to(torch.float64).reshape(-1).tolist()
    return [type(t).__name__, str(t.dtype), list(t.shape), bool(t.requires_grad), [f2b(v) for v in vals]]


def module_fp(m):
    return [type(m).__name__, repr(m), [[k, tensor_fp(v)] for k, v in m.state_dict().items()],
            [[k, bool(p.requires_grad)] for k, p in m.named_parameters()]]


# ---- real object -> Val JSON (canonical observation) ---------------------------------------
def observe(x):
    if x is None or isinstance(x, (bool, int, float, str)) and not isinstance(x, np.generic):
        return ["scalar", S(x)]
    if isinstance(x, np.generic):
        if x.dtype.kind == "c":
            return ["fb", type(x).__name__, tok_of(["complex", f2b(x.real), f2b(x.imag)])]
        return ["np", str(x.dtype) if x.dtype.kind != "U" else "str_", S(x.item())]
    if isinstance(x, pathlib.PurePath):
        return ["path", str(x)]
    if isinstance(x, np.ndarray):
        return ["nd", str(x.dtype), list(x.shape), arr_data(x)]
    if isinstance(x, torch.nn.Parameter):
        return ["torch", "parameter", "Parameter", tok_of(tensor_fp(x))]
    if isinstance(x, torch.Tensor):
        return ["torch", "tensor", "Tensor", tok_of(tensor_fp(x))]
    if isinstance(x, torch.nn.Module):
        return ["torch", "module", type(x).__name__, tok_of(module_fp(x))]
    if isinstance(x, np.random.Generator):
        return ["nprng", type(x.bit_generator).__name__]
    if isinstance(x, torch.Generator):
        # torch.Generator lives in module "torch": _serialize_value dispatches it to the
        # whole-module torch.save branch (the get_state/set_state branch is never reached)
        return ["torch", "other", "TorchGenerator", tok_of(["generator", int(x.initial_seed()), hashlib.sha1(x.get_state().numpy().tobytes()).hexdigest()])]
    if isinstance(x, logging.Logger):
        return ["logger", x.name, int(x.level)]
    if isinstance(x, complex):
        return ["fb", "complex", tok_of(["complex", f2b(x.real), f2b(x.imag)])]
    if isinstance(x, bytes):
        return ["fb", "bytes", tok_of(["bytes", x.hex()])]
    if isinstance(x, frozenset):
        return ["fb", "frozenset", tok_of(["frozenset", sorted(json.dumps(observe(e)) for e in x)])]
    if isinstance(x, list):
        return ["list", [observe(e) for e in x]]
    if isinstance(x, tuple):
        return ["tuple", [observe(e) for e in x]]
    if isinstance(x, (set,)):
        return ["set", sorted((observe(e) for e in x), key=json.dumps)]
    if isinstance(x, dict):
        return ["dict", [[str(k), observe(v)] for k, v in x.items()]]
    if isinstance(x, ser_classes.AutoSerialize):
        return ["obj", type(x).__name__, [[k, observe(v)] for k, v in vars(x).items()]]
    return ["unknown", type(x).__name__, repr(x)[:80]]


def canon_order(v):
    """order-insensitive canonical form: dict/obj entries sorted by key, sets sorted"""
    t = v[0]
    if t in ("list", "tuple"):
        return [t, [canon_order(e) for e in v[1]]]
    if t == "set":
        return [t, sorted((canon_order(e) for e in v[1]), key=json.dumps)]
    if t == "dict":
        return [t, sorted(([k, canon_order(e)] for k, e in v[1]), key=lambda kv: kv[0])]
    if t == "obj":
        return [t, v[1], sorted(([k, canon_order(e)] for k, e in v[2]), key=lambda kv: kv[0])]
    if t == "torch":
        return [t, v[1], v[2], v[3]]
    if t == "logger":
        # loggers are process-global objects (logging.getLogger(name)): their level is shared
        # state, and the property only requires the same kind of object back
        return [t, v[1]]
    return v


# ---- Val JSON -> real objects ----------------------------------------------------------------
MODULE_ZOO = {
    "Linear": lambda g: torch.nn.Linear(2, 3),
    "Sequential": lambda g: torch.nn.Sequential(torch.nn.Linear(2, 2), torch.nn.ReLU(), torch.nn.Linear(2, 1)),
    "Conv2d": lambda g: torch.nn.Conv2d(1, 2, 3, bias=False),
}


class Builder:
    """builds real objects from a *recipe* and returns (object, Val JSON).  Torch objects and
    fallback values are described by their content fingerprint token."""

    def __init__(self, rng):
        self.rng = rng

    def build(self, r):
        t = r[0]
        if t == "scalar":
            return unS(r[1])
        if t == "np":
            return np.dtype(r[1]).type(unS(r[2])) if r[1] != "str_" else np.str_(unS(r[2]))
        if t == "path":
            return pathlib.Path(r[1])
        if t == "nd":
            dt = np.dtype(r[1])
            vals = [unS(s) for s in r[3]]
            if dt.kind == "c":
                vals = [complex(vals[i], vals[i + 1]) for i in range(0, len(vals), 2)]
            a = np.array(vals, dtype=dt).reshape(r[2])
            lay = r[4] if len(r) > 4 else "C"
            # memory layout classes with the SAME logical array: Fortran order, transposed view,
            # step-sliced view of a larger buffer, negative strides, read-only
            if lay == "F":
                a = np.asfortranarray(a)
            elif lay == "T" and a.ndim >= 2:
                a = np.ascontiguousarray(a.T).T
            elif lay == "S" and a.ndim >= 1 and a.shape[0] > 0:
                big = np.zeros((2 * a.shape[0],) + a.shape[1:], dtype=dt)
                big[::2] = a
                a = big[::2]
            elif lay == "N" and a.ndim >= 1:
                a = np.flip(np.flip(a, axis=0).copy(), axis=0)
            elif lay == "RO":
                a.setflags(write=False)
            return a
        if t == "mk_tensor":      # ["mk_tensor", dtype, shape, requires_grad, origin, values]
            # origin: False = plain leaf, True = nn.Parameter, "nonleaf" = result of a computation
            # (has a grad_fn; requires_grad comes from the graph), "view" = a view into a larger storage
            x = torch.tensor(r[5], dtype=getattr(torch, r[1])).reshape(r[2])
            if r[4] is True:
                return torch.nn.Parameter(x, requires_grad=r[3])
            if r[4] == "view":
                big = torch.cat([x.reshape(-1), x.reshape(-1), x.reshape(-1)])
                n = x.numel()
                x = big[n:2 * n].reshape(r[2])
            if r[3]:
                x.requires_grad_(True)
                if r[4] == "nonleaf":
                    x = x * 1.0
            return x
        if t == "mk_module":      # ["mk_module", zoo name, seed]
            torch.manual_seed(r[2])
            m = MODULE_ZOO[r[1]](None)
            if r[2] % 3 == 0:
                for p in list(m.parameters())[:1]:
                    p.requires_grad_(False)
            return m
        if t == "mk_fb":          # ["mk_fb", kind, payload]
            if r[1] == "complex":
                return complex(r[2][0], r[2][1])
            if r[1] == "bytes":
                return bytes.fromhex(r[2])
            if r[1] == "frozenset":
                return frozenset(r[2])
            if r[1] == "npcomplex":
                return np.complex128(complex(r[2][0], r[2][1]))
        if t == "nprng":
            bg = getattr(np.random, r[1])
            return np.random.Generator(bg(5))
        if t == "trng":
            return torch.Generator()
        if t == "logger":
            lg = logging.getLogger(r[1])
            lg.setLevel(r[2])
            return lg
        if t == "list":
            return [self.build(e) for e in r[1]]
        if t == "tuple":
            return tuple(self.build(e) for e in r[1])
        if t == "set":
            return set(self.build(e) for e in r[1])
        if t == "dict":
            return {k: self.build(e) for k, e in r[1]}
        if t == "obj":
            o = ser_classes.CLASSES[r[1]].__new__(ser_classes.CLASSES[r[1]])
            for k, e in r[2]:
                setattr(o, k, self.build(e))
            return o
        raise ValueError(f"recipe {t}")


# ---- recipe generator -----------------------------------------------------------------------
NAMES = ["a", "b", "c", "x1", "val", "_p", "data", "0", "7", "name_2", "é", "k"]
DTYPES = ["bool", "int8", "int16", "int32", "int64", "uint8", "uint16", "uint32", "uint64", "float16", "float32", "float64",
          "complex64", "complex128", "<U3"]
SHAPES = [[], [0], [0, 3], [2, 0, 1], [1], [3], [2, 2], [1, 3, 2], [4, 1]]
FLOATS = [0.0, -0.0, 1.0, -2.5, 0.1, 1e300, 1e-300, float("inf"), float("-inf"), float("nan"), 3.141592653589793, 2.0 ** 53]
INTS = [0, 1, -1, 2, 7, 255, -128, 2 ** 31, -(2 ** 63), 2 ** 63 - 1, 10 ** 6]
STRS = ["", "a", "héllo ✓", "0", "with space", "x/y", "None", "a.b"]


def gen_scalar(rng):
    return rng.weighted([(lambda: None, 1), (lambda: rng.chance(0.5), 2), (lambda: rng.choice(INTS), 3),
                         (lambda: rng.choice(FLOATS), 3), (lambda: rng.choice(STRS), 3)])()


def small_vals(rng, dt, n):
    k = np.dtype(dt).kind
    out = []
    for _ in range(n):
        if k == "b":
            out.append(S(rng.chance(0.5)))
        elif k == "i":
            info = np.iinfo(dt)
            out.append(S(rng.choice([0, 1, -1, info.min, info.max, rng.randint(-100, 100)])))
        elif k == "u":
            info = np.iinfo(dt)
            out.append(S(rng.choice([0, 1, info.max, rng.randint(0, 200)])))
        elif k == "f":
            x = np.dtype(dt).type(rng.choice([0.0, 1.5, -2.25, 0.1, float("nan"), float("inf"), rng.uniform(-10, 10)]))
            out.append(S(float(x)))
        elif k == "c":
            for _ in range(2):
                x = np.dtype("float32" if dt == "complex64" else "float64").type(rng.choice([0.0, 1.5, -2.25, 0.1, rng.uniform(-3, 3)]))
                out.append(S(float(x)))
        elif k == "U":
            out.append(S(rng.choice(["", "a", "ab", "xyz", "é"])))
    return out


def gen_ndarray(rng):
    dt = rng.choice(DTYPES)
    shape = rng.choice(SHAPES)
    n = 1
    for s in shape:
        n *= s
    lay = rng.weighted([("C", 5), ("F", 1), ("T", 1), ("S", 1), ("N", 1), ("RO", 1)])
    return ["nd", str(np.dtype(dt)), shape, small_vals(rng, dt, n), lay]


def gen_npscalar(rng):
    dt = rng.choice(["bool", "int8", "int32", "int64", "uint8", "uint64", "float16", "float32", "float64"])
    return ["np", dt, small_vals(rng, dt, 1)[0]]


def gen_tensor(rng):
    dt = rng.choice(["float32", "float64", "int64", "int32", "bool", "complex64", "float16", "bfloat16", "uint8"])
    shape = rng.choice([[], [1], [3], [2, 2], [0], [2, 0]])
    n = 1
    for s in shape:
        n *= s
    isf = dt.startswith(("float", "bfloat", "complex"))
    vals = [(rng.choice([0.0, 1.5, -2.0, 0.25]) if isf else (rng.chance(0.5) if dt == "bool" else rng.randint(0, 9))) for _ in range(n)]
    rg = isf and rng.chance(0.5)
    param = isf and rng.chance(0.25)
    if not param:
        # a third of the plain tensors are results of a computation (non-leaf, requires_grad kept
        # by the graph) or views into a larger storage
        u = rng.random()
        if rg and u < 0.4:
            param = "nonleaf"
        elif u > 0.8:
            param = "view"
    return ["mk_tensor", dt, shape, rg, param, vals]


def gen_numeric_seq(rng, kind):
    n = rng.randint(1, 5)
    mode = rng.weighted([("bool", 1), ("int", 3), ("float", 3), ("mixed", 3), ("np", 2)])
    xs = []
    for _ in range(n):
        if mode == "bool":
            xs.append(["scalar", S(rng.chance(0.5))])
        elif mode == "int":
            xs.append(["scalar", S(rng.choice(INTS))])
        elif mode == "float":
            xs.append(["scalar", S(rng.choice(FLOATS))])
        elif mode == "np":
            dt = rng.choice(["int8", "int32", "float32", "float64", "bool"])
            xs.append(["np", dt, small_vals(rng, dt, 1)[0]])
        else:
            # ints kept within 2**53 so that float64 promotion is exact (beyond: recorded finding)
            xs.append(rng.choice([["scalar", S(rng.chance(0.5))], ["scalar", S(rng.randint(-1000, 1000))],
                                  ["scalar", S(rng.choice(FLOATS))]]))
    return [kind, xs]


class Gen:
    def __init__(self, rng, allow=None):
        self.rng = rng
        self.allow = allow or {}

    def value(self, depth, in_container=False, hashable=False):
        rng = self.rng
        if hashable:
            return rng.weighted([
                (lambda: ["scalar", S(rng.choice([1, 2, 7, -3, 10 ** 6]))], 3),
                (lambda: ["scalar", S(rng.choice(["a", "b", "héllo", ""]))], 3),
                (lambda: ["scalar", S(rng.choice([0.5, -2.5, 1e300]))], 1),
                (lambda: ["scalar", S(None)], 1),
                (lambda: ["tuple", [self.value(0, True, True) for _ in range(rng.randint(0, 2))]], 1),
                (lambda: ["path", rng.choice(["a/b", "/tmp/x.txt"])], 1),
            ])()
        leaf = [
            (lambda: ["scalar", S(gen_scalar(rng))], 6),
            (lambda: gen_npscalar(rng), 2),
            (lambda: ["path", rng.choice(["a/b", "/tmp/x.txt", ".", "rel.zip"])], 1),
            (lambda: gen_ndarray(rng), 5),
            (lambda: gen_tensor(rng), 3),
            (lambda: ["mk_module", rng.choice(list(MODULE_ZOO)), rng.randint(0, 5)], 1),
            (lambda: ["logger", rng.choice(["qv.a", "qv.b"]), rng.choice([10, 20, 30])], 1),
        ]
        if not in_container or self.allow.get("rng_in_container"):
            leaf += [(lambda: ["nprng", rng.choice(["PCG64", "MT19937", "Philox", "SFC64"])], 1), (lambda: ["trng"], 0.5)]
        if not in_container or self.allow.get("fallback_in_container"):
            leaf += [(lambda: ["mk_fb", "complex", [rng.choice([0.0, 1.5]), rng.choice([2.0, -1.0])]], 0.7),
                     (lambda: ["mk_fb", "bytes", rng.choice(["", "00ff", "616263"])], 0.5),
                     (lambda: ["mk_fb", "frozenset", sorted(rng.sample([1, 2, 3, 4], 2))], 0.3)]
        if self.allow.get("npcomplex"):
            leaf += [(lambda: ["mk_fb", "npcomplex", [1.5, -2.0]], 0.5)]
        if depth <= 0:
            return rng.weighted(leaf)()
        comp = [
            (lambda: ["list", self.sanitize_seq([self.value(depth - 1, True) for _ in range(rng.randint(0, 4))])], 3),
            (lambda: ["tuple", self.sanitize_seq([self.value(depth - 1, True) for _ in range(rng.randint(0, 3))])], 2),
            (lambda: (lambda k: [k, self.sanitize_seq(gen_numeric_seq(rng, k)[1])])(rng.choice(["list", "tuple"])), 3),
            (lambda: ["set", self.set_items()], 2),
            # wide item-by-item containers (element keys "0".."n-1" cross 9->10 and beyond)
            (lambda: [rng.choice(["list", "tuple"]),
                      [rng.choice([["scalar", S(f"s{i}")], ["scalar", S(i)], ["scalar", S(None)], ["path", f"p/{i}"]])
                       for i in range(rng.choice([10, 11, 12, 21, 35]))] + [["scalar", S("end")]]], 0.7),
            (lambda: ["set", [["scalar", S(f"m{i}")] for i in range(rng.choice([11, 12, 23]))]], 0.3),
            (lambda: ["dict", self.entries(depth - 1, True, rng.randint(0, 4))], 3),
            (lambda: ["obj", rng.choice(["SA", "SB", "SC"]), self.entries(depth - 1, False, rng.randint(0, 4))], 3),
        ]
        return rng.weighted(leaf + comp + comp)()

    @staticmethod
    def sanitize_seq(items):
        """keep all-numeric sequences inside the property's quantifier: integers within int64,
        no uint64 NumPy scalars (NumPy promotes uint64+int64 to float64), and — because the
        ndarray fast path promotes int+float to float64 — integers within 2**53 when a float is
        present (the int/float precision loss beyond that is a recorded finding, probed separately)"""
        if not items or not all(numeric(e) for e in items):
            return items
        has_float = any(e[-1][0] == "float" for e in items)
        lim = 2 ** 53 if has_float else 2 ** 63 - 1
        out = []
        for e in items:
            if e[-1][0] == "int":
                v = max(-lim, min(lim, int(e[-1][1])))
                e = ["scalar", ["int", str(v)]] if e[0] == "scalar" or e[1] == "uint64" else ["np", e[1], ["int", str(v)]]
                if e[0] == "np":
                    info = np.iinfo(e[1])
                    e = ["np", e[1], ["int", str(max(info.min, min(info.max, v)))]]
            out.append(e)
        return out

    def set_items(self):
        rng = self.rng
        n = rng.randint(0, 4)
        if rng.chance(0.4):   # all-numeric set (ndarray fast path)
            vals = rng.sample([1, 2, 3, 7, -5, 10 ** 6], min(n, 5)) if rng.chance(0.6) else rng.sample([0.5, 1.5, -2.25, 8.0], min(n, 4))
            return [["scalar", S(v)] for v in vals]
        items, seen = [], set()
        for _ in range(n):
            v = self.value(0, True, True)
            key = json.dumps(v)
            # avoid members that are equal in Python (1 == 1.0 == True)
            num = unS(v[1]) if v[0] == "scalar" else None
            if isinstance(num, (int, float)) and not isinstance(num, bool):
                key = f"num:{float(num)}"
            if key in seen:
                continue
            seen.add(key)
            items.append(v)
        return items

    def entries(self, depth, in_container, n):
        names = self.rng.sample(NAMES, n)
        return [[k, self.value(depth, in_container)] for k in names]

    def root(self, depth):
        return ["obj", self.rng.choice(["SA", "SB", "SC"]), self.entries(depth, False, self.rng.randint(1, 6))]


def spec_of(recipe, builder):
    """the Val JSON of a recipe = observation of the freshly built object (so the spec is in
    exactly the vocabulary of `observe`)"""
    return observe(builder.build(recipe))


# ---- the property's own equality (independent of the Lean model) -----------------------------
def numeric(v):
    return v[0] in ("scalar", "np") and v[-1][0] in ("bool", "int", "float")


def num_value(v):
    return unS(v[-1])


def num_equal(a, b):
    x, y = num_value(a), num_value(b)
    if isinstance(x, float) and x != x:
        return isinstance(y, float) and y != y
    return x == y and not (isinstance(y, float) and y != y)


def prop_equal(spec, obs, path="$"):
    """C01: same kinds, names, dtype/shape/contents; NumPy scalars and all-numeric sequences by
    numeric value; rng/logger by kind.  Returns None or a (path, expected, observed) triple."""
    ts, to = spec[0], obs[0]
    if ts in ("scalar", "np"):
        if ts == "np" and to in ("scalar", "np"):
            if numeric(spec) and numeric(obs):
                return None if num_equal(spec, obs) else (path, spec, obs)
            return None if spec[-1] == obs[-1] else (path, spec, obs)
        return None if spec == obs else (path, spec, obs)
    if ts in ("list", "tuple", "set") and to == ts:
        if len(spec[1]) != len(obs[1]):
            return (path + ".len", len(spec[1]), len(obs[1]))
        if spec[1] and all(numeric(e) for e in spec[1]):
            if ts == "set":
                a = sorted(spec[1], key=lambda e: float(num_value(e)))
                b = sorted([e for e in obs[1]], key=lambda e: float(num_value(e)) if numeric(e) else 0.0)
            else:
                a, b = spec[1], obs[1]
            for i, (x, y) in enumerate(zip(a, b)):
                if not (numeric(y) and num_equal(x, y)):
                    return (f"{path}[{i}]", x, y)
            return None
        if ts == "set":
            a = sorted((canon_order(e) for e in spec[1]), key=json.dumps)
            b = sorted((canon_order(e) for e in obs[1]), key=json.dumps)
        else:
            a, b = spec[1], obs[1]
        for i, (x, y) in enumerate(zip(a, b)):
            d = prop_equal(x, y, f"{path}[{i}]")
            if d:
                return d
        return None
    if ts == "dict" and to == "dict" or ts == "obj" and to == "obj":
        es, eo = (spec[1], obs[1]) if ts == "dict" else (spec[2], obs[2])
        if ts == "obj" and spec[1] != obs[1]:
            return (path + ".class", spec[1], obs[1])
        ks, ko = sorted(k for k, _ in es), sorted(k for k, _ in eo)
        if ks != ko:
            return (path + ".names", ks, ko)
        do = dict((k, v) for k, v in eo)
        for k, v in es:
            d = prop_equal(v, do[k], f"{path}.{k}")
            if d:
                return d
        return None
    if ts == "nprng" and to == "nprng":
        return None
    if ts == "logger" and to == "logger":
        return None
    if ts == "nd" and to == "nd":
        return None if spec == obs else (path, [spec[1], spec[2]], [obs[1], obs[2], "(data differs)" if spec[1:3] == obs[1:3] else ""])
    return None if canon_order(spec) == canon_order(obs) else (path, short(spec), short(obs))


def short(v, n=200):
    s = json.dumps(v, default=str)
    return s if len(s) < n else s[:n] + "..."


def val_depth(v):
    t = v[0]
    if t in ("list", "tuple", "set"):
        return 1 + max([val_depth(e) for e in v[1]] + [0])
    if t == "dict":
        return 1 + max([val_depth(e) for _, e in v[1]] + [0])
    if t == "obj":
        return 1 + max([val_depth(e) for _, e in v[2]] + [0])
    return 0


def val_kinds(v, acc=None):
    acc = acc if acc is not None else {}
    t = v[0]
    name = t if t not in ("nd",) else f"nd:{v[1]}:{'0d' if not v[2] else ('empty' if 0 in v[2] else 'n')}"
    acc[name] = acc.get(name, 0) + 1
    if t in ("list", "tuple", "set"):
        for e in v[1]:
            val_kinds(e, acc)
    elif t == "dict":
        for _, e in v[1]:
            val_kinds(e, acc)
    elif t == "obj":
        for _, e in v[2]:
            val_kinds(e, acc)
    return acc
