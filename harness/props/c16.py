"""C16 — forward-model operator identities (energy, adjoint, projection).

Correspondence of Model/PtychoOps.lean (run at Int / Float by Driver/C16.lean) with the real
quantem operators, plus the property predicates evaluated on the real code with independent
NumPy / integer oracles (the failing-input search)."""
import types

import numpy as np

LEVEL = "proof"
MANIFEST_ENTRY = {
    "category": "proof",
    "text": "Lean 4 theorems over an executable model (generic numeric carrier, defining DFT sums) of the ptychography forward-model operators: index_add scatter is the exact adjoint of patch gathering for every index list (repeats, wrap); phase ramps and Fresnel kernels have unit modulus, compose additively and invert; Fourier shift and propagation preserve total intensity (Parseval for the modelled DFT, proved from root-of-unity orthogonality); integer shifts equal circular rolls; pure-phase multislice exit waves carry the probe's total intensity for any number of slices/modes; the Fourier magnitude projection is idempotent and returns exactly the measured amplitudes (single state everywhere, mixed state wherever the current far field is non-zero). Every run ties the model to the code by an exact integer stream (gather/scatter, integer shifts) and a float stream (translation operator, shift, propagators, propagation, multislice overlap, detector, projection) and evaluates the identities on the real functions.",
    "note": "Trusted: Lean kernel + propext/Classical.choice/Quot.sound; torch/NumPy FFT assumed to compute the defining sums (exercised by every float case); IEEE rounding outside the theorems (measured: float32 fftfreq/complex64 propagators limit translation/propagation identities to ~1e-6, 5e-4 rule). Mixed-state exactness is undecidable at pixels whose current far field is exactly zero (code defines the output as 0 there). Real-valued inputs of fourier_shift_expand (the `.real` branch) are covered by correspondence only — the property quantifies over complex arrays.",
    "technique": "Lean 4 proof (Finset sum rearrangement, roots of unity, induction on slices) + model-vs-implementation correspondence",
}
RULE = ("a case is one generated input pushed through one real operator (and the model); distinct non-trivial = distinct "
        "(stream, row parity, col parity, square?, #modes, #slices, index kind / shift kind / amplitude kind) with at least 3x3 pixels "
        "or a non-empty index list")
TRUSTED = ["torch.fft / numpy.fft compute the defining DFT sums; torch index_add_ and advanced indexing (modelled, sampled)",
           "fourier_translation_operator evaluates `-2j*pi*fftfreq` in float32/complex64 even for float64 positions, propagators are complex64: integer-shift = roll and the propagation identities hold to float32 accuracy only (5e-4 rule; measured ~4e-6, values in `measured`)"]
ASSUMPTIONS = [
    "one model call handles one batch element; the batch/mode broadcasting of the torch code is exercised by the harness looping over the batch",
    "`self` of every Ptychography/Probe method is a real preprocessed Ptychography object from props/ptycho_tiny.py: bound calls where the instance fits (projection, forward_operator, detector, patches), and for multislice / arbitrary-physics cases an unbound call on a `Borrow` of a real instance that overrides only num_slices, _propagators (resp. roi_shape, probe_params, probe_tilt of the probe model); bare attribute stubs are used only if the factory itself fails (counted as self=bare-stub / stub-insufficient)",
    "the `history` stream checks the no-hidden-state contract that the identities presuppose (results never change after they are returned, inputs are not modified, results of different calls do not share storage) by keeping the results of 2-4 same-shaped calls of every operator and re-evaluating the identities on ALL of them; the heap-free Lean model cannot express aliasing, so this part is measured only",
    "an exception that escapes the real code on a valid input is reported as a predicate failure (key raises:<stream>:<type>) with that input",
    "mixed-state exactness predicate is evaluated only at pixels whose input far field is not exactly zero",
    "negative flat indices are outside the stated domain (torch indexing wraps them, index_add_ rejects them)",
]
EXPLANATION = ("Theorems in Props/C16.lean are about Model/PtychoOps.lean at the real-number instance; every run pushes the same inputs "
               "through the real torch/NumPy code and the Lean model (exactly on integers, to tolerance on floats) and evaluates each "
               "identity of the property on the real outputs.")

TOL64 = 1e-9     # float64 paths
TOL32 = 5e-4     # paths where the library forces float32 / complex64


# ----------------------------------------------------------------------------- helpers
def _imports():
    import torch
    from quantem.diffractive_imaging import ptycho_utils as pu
    from quantem.diffractive_imaging.detector_models import DetectorPixelated
    from quantem.diffractive_imaging.object_models import ObjectBase
    from quantem.diffractive_imaging.probe_models import ProbeBase
    from quantem.diffractive_imaging.ptychography import Ptychography
    from quantem.diffractive_imaging.ptychography_base import PtychographyBase
    from quantem.core.utils.utils import electron_wavelength_angstrom
    return types.SimpleNamespace(torch=torch, pu=pu, Det=DetectorPixelated, Obj=ObjectBase, Probe=ProbeBase,
                                 Pty=Ptychography, Base=PtychographyBase, wl=electron_wavelength_angstrom)


def f2b(x):
    from qv.driver import f2b as _f
    return _f(x)


def b2f(x):
    from qv.driver import b2f as _b
    return _b(x)


def enc_rows(x):
    return [[f2b(v) for v in row] for row in np.asarray(x, dtype=np.float64).tolist()]


def dec_rows(j):
    return np.array([[b2f(v) for v in r] for r in j], dtype=np.float64).reshape(len(j), -1)


def enc_img(x):
    x = np.asarray(x, dtype=np.complex128)
    return {"re": enc_rows(x.real), "im": enc_rows(x.imag)}


def dec_img(j):
    return dec_rows(j["re"]) + 1j * dec_rows(j["im"])


def enc_flat(x):
    x = np.asarray(x, dtype=np.complex128).reshape(-1)
    return {"re": [f2b(v) for v in x.real.tolist()], "im": [f2b(v) for v in x.imag.tolist()]}


def dec_flat(j):
    return np.array([b2f(v) for v in j["re"]]) + 1j * np.array([b2f(v) for v in j["im"]])


def dy(rng, lo, hi, den=16):
    """dyadic rational in [lo, hi] (exactly representable)"""
    return rng.randint(int(lo * den), int(hi * den)) / den


def carr(rng, shape, amp=2.0, den=16):
    n = int(np.prod(shape))
    re = np.array([dy(rng, -amp, amp, den) for _ in range(n)])
    im = np.array([dy(rng, -amp, amp, den) for _ in range(n)])
    return (re + 1j * im).reshape(shape)


def rarr(rng, shape, lo=0.0, hi=2.0, den=16):
    n = int(np.prod(shape))
    return np.array([dy(rng, lo, hi, den) for _ in range(n)], dtype=np.float64).reshape(shape)


def iarr(rng, shape, lo=-9, hi=9):
    n = int(np.prod(shape))
    return np.array([rng.randint(lo, hi) for _ in range(n)], dtype=np.int64).reshape(shape)


def gen_shape(rng):
    k = rng.weighted([("any", 6), ("square", 1), ("oddodd", 1), ("eveneven", 1), ("oddeven", 1), ("pow2", 1)])
    nr, nc = rng.randint(3, 12), rng.randint(3, 12)
    if k == "pow2":
        return rng.choice([4, 8]), rng.choice([4, 8])
    if k == "square":
        nc = nr
    elif k == "oddodd":
        nr, nc = nr | 1, nc | 1
    elif k == "eveneven":
        nr, nc = (nr + 1) & ~1, (nc + 1) & ~1
    elif k == "oddeven":
        nr, nc = nr | 1, (nc + 1) & ~1
    nr, nc = min(nr, 12) if nr != 13 else 11, min(nc, 12) if nc != 13 else 11
    return nr, nc


def psig(nr, nc):
    return ("o" if nr % 2 else "e") + ("o" if nc % 2 else "e") + ("=" if nr == nc else "#")


def maxabs(a):
    a = np.asarray(a)
    return float(np.max(np.abs(a))) if a.size else 0.0


def dist(model, impl):
    """(absolute distance, scale) of the DESIGN §3 rule"""
    model, impl = np.asarray(model), np.asarray(impl)
    if model.shape != impl.shape:
        return float("inf"), 1.0
    if model.size == 0:
        return 0.0, 1.0
    return float(np.max(np.abs(impl - model))), max(1.0, maxabs(model))


def corr(ctx, stream, case, model, impl, tol, note=""):
    d, s = dist(model, impl)
    ctx.stat_max(f"corr_reldist[{stream}]", d / s)
    if not (d <= tol * s):
        ctx.disagree(stream, case, {"max": maxabs(model), "shape": list(np.shape(model))},
                     {"max": maxabs(impl), "shape": list(np.shape(impl))}, f"{note} |impl-model|={d:.3g} > {tol:g}*{s:.3g}")
        return False
    return True


def pred(ctx, key, what, case, lhs, rhs, tol, stat):
    """identity lhs == rhs on implementation outputs, |lhs-rhs| <= tol*max(1,max|rhs|)"""
    d, s = dist(rhs, lhs)
    ctx.stat_max(f"pred_reldist[{stat}]", d / s)
    if not (d <= tol * s):
        ctx.pred_fail(key, what, case, observed=f"max|lhs-rhs|={d:.4g} (scale {s:.3g})", required=f"<= {tol:g}*scale")
        return False
    return True


def ask(drv, obj):
    r = drv.ask(obj)
    if "ok" not in r and r.get("err") != "IndexError":
        raise RuntimeError(f"driver error {r} on op {obj.get('op')}")
    return r


POS_KINDS = ["float64", "float32", "int32", "int64"]     # python lists are rejected by the clean code (TypeError): outside the domain


def mkpos(I, a, kind, use_np):
    """a shift / position argument in the drawn dtype and container (numpy array or torch tensor)"""
    arr = np.asarray(a).astype(kind)
    return arr if use_np else I.torch.tensor(arr)


def oracle_ramp(nr, nc, pos):
    """independent float64 phase ramp exp(-2 pi i (k_r r + k_c c)), shape (B, nr, nc)"""
    pos = np.asarray(pos, dtype=np.float64).reshape(-1, 2)
    kr, kc = np.fft.fftfreq(nr), np.fft.fftfreq(nc)
    return np.exp(-2j * np.pi * (kr[None, :, None] * pos[:, 0, None, None] + kc[None, None, :] * pos[:, 1, None, None]))


def oracle_shift(x, pos):
    """independent Fourier shift of x (..., nr, nc) by every row of pos -> (B, ..., nr, nc)"""
    x = np.asarray(x, dtype=np.complex128)
    ramp = oracle_ramp(x.shape[-2], x.shape[-1], pos)
    ramp = ramp.reshape((ramp.shape[0],) + (1,) * (x.ndim - 2) + ramp.shape[1:])
    return np.fft.ifft2(np.fft.fft2(x)[None] * ramp)


def oracle_wavelength(E):
    """relativistic electron wavelength in Angstrom (independent float64 evaluation, same constants as utils.py)"""
    import math
    m, e, c, h = 9.109383e-31, 1.602177e-19, 299792458.0, 6.62607e-34
    return h / math.sqrt(2 * m * e * E * (1 + e * E / (2 * m * c * c))) * 1e10


def oracle_propagator(nr, nc, sr, sc, energy, dz, thr, thc):
    """independent float64 Fresnel kernel  exp(-i pi lam dz |k|^2) * exp(-2 pi i dz (k_r tan(theta_r) + k_c tan(theta_c))),
    theta in mrad, k = fftfreq(n, sampling): the tilt term is ODD in k, so evaluating the kernel at -k is visible"""
    kr, kc = np.fft.fftfreq(nr, sr)[:, None], np.fft.fftfreq(nc, sc)[None, :]
    lam = oracle_wavelength(energy)
    return (np.exp(-1j * np.pi * lam * dz * (kr ** 2 + kc ** 2))
            * np.exp(-2j * np.pi * dz * (kr * np.tan(thr / 1e3) + kc * np.tan(thc / 1e3))))


def oracle_propagate(a, K):
    """independent propagation: ifft2(fft2(a) * K) with NumPy's FFT"""
    return np.fft.ifft2(np.fft.fft2(np.asarray(a, dtype=np.complex128)) * K)


def propagate_entry_points(I, ctx):
    """every entry point of the propagation operator in the anchored files"""
    eps = {"PtychographyBase._propagate_array": lambda a, q: I.Base._propagate_array(None, a, q),
           "ObjectBase._propagate_array": lambda a, q: I.Obj._propagate_array(None, a, q)}
    p = real_instance(ctx, 1)
    if p is not None:
        eps["Ptychography()._propagate_array"] = p._propagate_array
        eps["ObjectPixelated()._propagate_array"] = p.obj_model._propagate_array
    return eps


def T(I, a, dtype=None):
    return I.torch.tensor(np.asarray(a), dtype=dtype)


# ----------------------------------------------------------------------------- `self` for unbound calls
class Borrow:
    """`self` for an unbound call of a real method: every attribute comes from a REAL object
    (a preprocessed tiny Ptychography / its probe model) except the few that are overridden, so a
    refactor that merely reads another attribute of `self` keeps working."""

    def __init__(self, real, **over):
        object.__setattr__(self, "_real", real)
        object.__setattr__(self, "_over", over)

    def __getattr__(self, name):
        over = object.__getattribute__(self, "_over")
        if name in over:
            return over[name]
        real = object.__getattribute__(self, "_real")
        v = getattr(real, name)
        if getattr(v, "__self__", None) is real and hasattr(v, "__func__"):
            return types.MethodType(v.__func__, self)      # methods see the overrides too
        return v


class StubInsufficient(Exception):
    pass


_INST = {}


def real_instance(ctx, M, roi=(8, 8), obj_type="complex", cache=True, seed=0, rng_seed=1, scan=(2, 2)):
    """a real preprocessed Ptychography (props/ptycho_tiny.py) with M probe modes; None if the factory fails"""
    import warnings
    from props import ptycho_tiny as pt
    key = (M, tuple(roi), obj_type)
    if cache and key in _INST:
        return _INST[key]
    try:
        with warnings.catch_warnings():
            warnings.simplefilter("ignore")
            p = pt.make_ptycho(scan=scan, roi=tuple(roi), seed=seed, rng_seed=rng_seed, num_probes=M, obj_type=obj_type)
    except Exception as e:   # noqa: BLE001  (factory, not the operators under test)
        ctx.dist[f"factory-failed:{type(e).__name__}"] += 1
        p = None
    if cache:
        _INST[key] = p
    return p


def probe_self(I, ctx, roi_shape, energy, tilt):
    over = dict(roi_shape=np.array(roi_shape), device="cpu", probe_params={"energy": energy},
                probe_tilt=I.torch.tensor(tilt, dtype=I.torch.float32))
    p = real_instance(ctx, 1)
    if p is None:
        ctx.dist["self=bare-stub"] += 1
        return types.SimpleNamespace(**over)
    return Borrow(p.probe_model, **over)


def ptycho_self(I, ctx, num_probes, num_slices, propagators):
    """`self` for PtychographyBase/Ptychography methods: a real instance with `num_probes` modes,
    with num_slices/_propagators overridden (the factory builds single-slice objects)"""
    p = real_instance(ctx, num_probes)
    if p is None:
        ctx.dist["self=bare-stub"] += 1
        s = types.SimpleNamespace(num_probes=num_probes, num_slices=num_slices, _propagators=propagators)
        s._propagate_array = lambda a, q: I.Base._propagate_array(s, a, q)
        s.estimate_amplitudes = lambda *a, **k: I.Base.estimate_amplitudes(s, *a, **k)
        s.fourier_projection = lambda *a, **k: I.Pty.fourier_projection(s, *a, **k)
        s.overlap_projection = lambda *a, **k: I.Base.overlap_projection(s, *a, **k)
        s.gradient_step = lambda *a, **k: I.Pty.gradient_step(s, *a, **k)
        return s
    b = Borrow(p, num_slices=num_slices, _propagators=propagators)
    over = object.__getattribute__(b, "_over")
    # methods that the methods under test call on `self` must see the overrides too
    over["_propagate_array"] = lambda a, q: I.Base._propagate_array(b, a, q)
    over["overlap_projection"] = lambda *a, **k: I.Base.overlap_projection(b, *a, **k)
    over["estimate_amplitudes"] = lambda *a, **k: I.Base.estimate_amplitudes(b, *a, **k)
    over["fourier_projection"] = lambda *a, **k: I.Pty.fourier_projection(b, *a, **k)
    return b


def raised_in_real_code(exc):
    """True if the traceback passes through the quantem tree under test"""
    import os
    import traceback
    root = os.path.join(os.path.realpath(os.environ.get("QVERIF_REPO", "/repo")), "src") + os.sep
    return any(os.path.realpath(fr.filename).startswith(root) for fr in traceback.extract_tb(exc.__traceback__))


def impl_propagators(I, ctx, nr, nc, sr, sc, energy, thr, thc, num_slices, dzs):
    st = probe_self(I, ctx, (nr, nc), energy, (thr, thc))
    return I.Probe._compute_propagator_arrays(st, (sr, sc), num_slices, np.asarray(dzs, dtype=np.float64))


def gen_physics(rng):
    sr, sc = dy(rng, 0.15, 0.5, 64), dy(rng, 0.15, 0.5, 64)
    energy = rng.choice([60e3, 80e3, 120e3, 200e3, 300e3]) if rng.chance(0.6) else float(rng.randint(60, 300)) * 1e3
    thr = 0.0 if rng.chance(0.4) else dy(rng, -30, 30, 8)
    thc = 0.0 if rng.chance(0.4) else dy(rng, -30, 30, 8)
    if thr == 0.0 and rng.chance(0.1):
        thr = 0.0
    return sr, sc, energy, thr, thc


def model_propagators(drv, nr, nc, sr, sc, energy, thr, thc, num_slices, dzs):
    r = ask(drv, {"op": "propagators", "nr": nr, "nc": nc, "sr": f2b(sr), "sc": f2b(sc), "energy": f2b(energy),
                  "thr": f2b(thr), "thc": f2b(thc), "num_slices": num_slices, "dz": [f2b(d) for d in dzs]})["ok"]
    return [dec_img(j) for j in r]


# ----------------------------------------------------------------------------- stream: gather / scatter (exact)
def wrap_indices(rng, H, W, B, r, c):
    fr = np.fft.fftfreq(r, 1 / r).astype(np.int64)
    fc = np.fft.fftfreq(c, 1 / c).astype(np.int64)
    out = []
    for _ in range(B):
        r0, c0 = rng.randint(0, H - 1), rng.randint(0, W - 1)
        rows = (r0 + fr) % H
        cols = (c0 + fc) % W
        out.append(rows[:, None] * W + cols[None, :])
    return np.stack(out).astype(np.int64)


def s_gs(ctx, drv, I, case):
    from qv.prng import Rng
    torch = I.torch
    rng = Rng(case["rseed"])
    H, W, S = rng.randint(2, 8), rng.randint(2, 8), rng.randint(1, 3)
    n = H * W
    B, r, c = rng.randint(1, 3), rng.randint(1, 6), rng.randint(1, 6)
    kind = rng.weighted([("wrap", 5), ("random", 3), ("const", 1), ("perm", 1)])
    if kind == "wrap":
        idx = wrap_indices(rng, H, W, B, r, c)
    elif kind == "random":
        idx = iarr(rng, (B, r, c), 0, n - 1)
    elif kind == "const":
        idx = np.full((B, r, c), rng.randint(0, n - 1), dtype=np.int64)
    else:
        idx = np.array(rng.shuffle(list(range(n))), dtype=np.int64).reshape(1, H, W)
    bad = rng.chance(0.07)
    if bad:
        flat = idx.reshape(-1)
        flat[rng.below(flat.size)] = n + rng.randint(0, 3)
        idx = flat.reshape(idx.shape)
    itype = rng.choice(["int32", "int64"])
    obj = iarr(rng, (S, H, W)) + 1j * iarr(rng, (S, H, W))
    p = iarr(rng, idx.shape) + 1j * iarr(rng, idx.shape)
    case.update({"H": H, "W": W, "S": S, "idx_kind": kind, "idx_shape": list(idx.shape), "bad_index": bad, "itype": itype})
    ctx.dist[f"gs.idx={kind}"] += 1
    ctx.dist[f"gs.bad={bad}"] += 1
    repeats = len(set(idx.reshape(-1).tolist())) < idx.size
    ctx.dist[f"gs.repeats={repeats}"] += 1
    ctx.count()
    ctx.mark(("gs", kind, bad, repeats, S, H == W))
    idx_t = T(I, idx, getattr(torch, itype))
    idxl = idx.reshape(-1).tolist()
    # ---- gather: ObjectBase._get_obj_patches (complex branch), exact on integer-valued complex128
    try:
        g = I.Obj._get_obj_patches(None, T(I, obj, torch.complex128), idx_t).numpy()
        g_err = None
    except Exception as e:   # noqa: BLE001
        g, g_err = None, "IndexError"
    for part, name in ((np.real, "re"), (np.imag, "im")):
        for s in range(S):
            m = ask(drv, {"op": "gather_int", "obj": part(obj[s]).astype(np.int64).reshape(-1).tolist(), "idx": idxl})
            if "err" in m or g_err:
                if ("err" in m) != bool(g_err):
                    ctx.disagree("gather-int", case, m, g_err or "ok", "error behaviour differs")
                continue
            impl = part(g[s]).reshape(-1)
            if not np.array_equal(impl, np.round(impl)) or impl.astype(np.int64).tolist() != m["ok"]:
                ctx.disagree("gather-int", case, m["ok"][:20], impl.tolist()[:20], f"slice {s} {name}")
    # ---- scatter: sum_patches (complex: re/im separately) and sum_patches_base on int64
    try:
        sc_ = I.pu.sum_patches(T(I, p, torch.complex128), idx_t, (H, W)).numpy()
        sb = I.pu.sum_patches_base(T(I, p.real.astype(np.int64)), idx_t, (H, W)).numpy()
        s_err = None
    except Exception as e:   # noqa: BLE001
        sc_, sb, s_err = None, None, "IndexError"
    mre = ask(drv, {"op": "scatter_int", "n": n, "patches": p.real.astype(np.int64).reshape(-1).tolist(), "idx": idxl})
    mim = ask(drv, {"op": "scatter_int", "n": n, "patches": p.imag.astype(np.int64).reshape(-1).tolist(), "idx": idxl})
    if "err" in mre or s_err:
        if ("err" in mre) != bool(s_err):
            ctx.disagree("scatter-int", case, mre, s_err or "ok", "error behaviour differs")
    else:
        if sc_.real.reshape(-1).tolist() != [float(v) for v in mre["ok"]] or sc_.imag.reshape(-1).tolist() != [float(v) for v in mim["ok"]]:
            ctx.disagree("scatter-int", case, {"re": [float(v) for v in mre["ok"][:24]], "im": [float(v) for v in mim["ok"][:24]]},
                         {"re": sc_.real.reshape(-1).tolist()[:24], "im": sc_.imag.reshape(-1).tolist()[:24]}, "sum_patches complex")
        if sb.reshape(-1).tolist() != mre["ok"]:
            ctx.disagree("scatter-int", case, mre["ok"][:20], sb.reshape(-1).tolist()[:20], "sum_patches_base int64")
        # float model of the complex path (re/im scattered separately)
        mf = ask(drv, {"op": "sum_patches_cx", "n": n, "patches": enc_flat(p), "idx": idxl})
        if not np.array_equal(dec_flat(mf["ok"]), sc_.reshape(-1)):
            ctx.disagree("scatter-cx", case, str(dec_flat(mf["ok"])[:12].tolist()), str(sc_.reshape(-1)[:12].tolist()), "sum_patches_cx float model differs")
    if g_err or s_err:
        ctx.dist["gs.error-cases"] += 1
        if not bad:
            ctx.pred_fail("gs-raises-on-valid", "gather/scatter raised on valid indices", case, observed=g_err or s_err, required="no error")
        return
    # float model of _get_obj_patches (must be bit-exact: pure data movement)
    mg = ask(drv, {"op": "get_patches", "obj": [enc_flat(obj[s]) for s in range(S)], "idx": idxl})["ok"]
    for s in range(S):
        if not np.array_equal(dec_flat(mg[s]), g[s].reshape(-1)):
            ctx.disagree("gather-cx", case, str(dec_flat(mg[s])[:12].tolist()), str(g[s].reshape(-1)[:12].tolist()), f"get_patches float model differs in slice {s}")
    # ---- property predicate: exact adjointness in integer arithmetic, per slice
    def cint(a):
        a = np.asarray(a).reshape(-1)
        return [complex(int(round(z.real)), int(round(z.imag))) for z in a]
    pi_, si_ = cint(p), cint(sc_)
    for s in range(S):
        gi, oi = cint(g[s]), cint(obj[s])
        lhs = sum(a.conjugate() * b for a, b in zip(gi, pi_))
        rhs = sum(a.conjugate() * b for a, b in zip(oi, si_))
        lhs2 = sum(a * b for a, b in zip(gi, pi_))
        rhs2 = sum(a * b for a, b in zip(oi, si_))
        if lhs != rhs or lhs2 != rhs2:
            ctx.pred_fail(f"adjoint:{kind}", "<gather(o,idx),p> != <o,scatter(p,idx)> (exact integers)", case,
                          observed=str((lhs, lhs2)), required=str((rhs, rhs2)))
    ctx.sample({k: case[k] for k in ("stream", "rseed", "H", "W", "S", "idx_kind", "idx_shape")}, limit=1)


# ----------------------------------------------------------------------------- stream: integer shifts = roll (exact model)
def s_shiftint(ctx, drv, I, case):
    from qv.prng import Rng
    torch = I.torch
    rng = Rng(case["rseed"])
    nr, nc = gen_shape(rng)
    sr = rng.weighted([(0, 1), (rng.randint(-2 * nr, 2 * nr), 5), (nr, 1), (-1, 1)])
    sc = rng.weighted([(0, 1), (rng.randint(-2 * nc, 2 * nc), 5), (-nc, 1), (1, 1)])
    x = iarr(rng, (nr, nc), -8, 8) + 1j * iarr(rng, (nr, nc), -8, 8)
    use_np = rng.chance(0.25)
    real_in = rng.chance(0.3)     # real dtype: the `.real` branch of fourier_shift_expand
    if real_in:
        x = x.real + 0j
    pkind = rng.choice(POS_KINDS)     # dtype of the shift vector: whole-pixel shifts are naturally integer-typed
    case.update({"shape": [nr, nc], "shift": [sr, sc], "numpy_branch": use_np, "real_input": real_in, "pos_dtype": pkind})
    ctx.count()
    ctx.mark(("shiftint", psig(nr, nc), sr % nr == 0, sc % nc == 0, sr < 0, sc < 0, use_np, real_in, pkind))
    ctx.dist[f"shiftint.parity={psig(nr, nc)}"] += 1
    ctx.dist[f"shiftint.real_input={real_in}"] += 1
    ctx.dist[f"shiftint.pos={'numpy' if use_np else 'torch'}.{pkind}"] += 1
    pos = mkpos(I, [[sr, sc]], pkind, use_np)
    if use_np:
        impl = I.pu.fourier_shift_expand(x.real.astype(np.float64) if real_in else x.astype(np.complex128), pos)[0]
    else:
        impl = I.pu.fourier_shift_expand(T(I, x.real, torch.float64) if real_in else T(I, x, torch.complex128), pos)[0].numpy()
    # the translation operator itself against an independent ramp, and additivity against the independent ramp of a+b
    br, bc = rng.randint(-nr, nr), rng.randint(-nc, nc)
    pos_b = mkpos(I, [[br, bc]], pkind, use_np)
    ta = np.asarray(I.pu.fourier_translation_operator(pos, (nr, nc)))
    tb = np.asarray(I.pu.fourier_translation_operator(pos_b, (nr, nc)))
    tab = np.asarray(I.pu.fourier_translation_operator(pos + pos_b, (nr, nc)))
    pred(ctx, f"ramp-int-oracle:{pkind}", "translation operator of an integer shift != exp(-2 pi i k s) (independent oracle)", case, ta, oracle_ramp(nr, nc, [[sr, sc]]), TOL32, "int ramp vs oracle")
    pred(ctx, f"ramp-int-additive:{pkind}", "T(a)*T(b) != independent ramp of a+b (integer shifts)", case, ta * tb, oracle_ramp(nr, nc, [[sr + br, sc + bc]]), TOL32, "int ramp additivity vs oracle")
    pred(ctx, f"ramp-int-sum:{pkind}", "T(a+b) != independent ramp of a+b (integer shifts)", case, tab, oracle_ramp(nr, nc, [[sr + br, sc + bc]]), TOL32, "int ramp of sum vs oracle")
    if real_in and np.iscomplexobj(impl):
        ctx.disagree("shift-int", case, "real", "complex", "real input must give a real result")
    mre = ask(drv, {"op": "roll_int", "x": x.real.astype(np.int64).tolist(), "sr": sr, "sc": sc})["ok"]
    mim = ask(drv, {"op": "roll_int", "x": x.imag.astype(np.int64).tolist(), "sr": sr, "sc": sc})["ok"]
    model = np.array(mre) + 1j * np.array(mim)
    oracle = np.roll(x, (sr, sc), axis=(0, 1))
    if not np.array_equal(model, oracle):
        ctx.disagree("roll-int", case, np.array(mre).tolist(), oracle.real.tolist(), "model roll2 != np.roll")
    if not np.array_equal(np.round(impl.real) + 1j * np.round(impl.imag), model):
        ctx.disagree("shift-int", case, np.array(mre).tolist(), np.round(impl.real).tolist(), "rounded fourier_shift_expand != model roll")
    # NB: not sharper for power-of-two sizes either: `-2j*pi*kr` is evaluated in complex64 (pi rounded to float32)
    pred(ctx, f"shift-int-roll:{'real' if real_in else 'complex'}:{pkind}", "integer Fourier shift is not the circular roll", case, impl, oracle,
         TOL32, "shift-int=roll (complex64 phase ramp)")
    ctx.sample({k: case[k] for k in ("stream", "rseed", "shape", "shift", "real_input", "pos_dtype")}, limit=2)


# ----------------------------------------------------------------------------- stream: translation operator + sub-pixel shift
def gen_pos(rng):
    k = rng.weighted([("frac", 6), ("int", 1), ("zero", 1), ("half", 1), ("tiny", 1)])
    if k == "frac":
        return dy(rng, -6, 6, 64), k
    if k == "int":
        return float(rng.randint(-5, 5)), k
    if k == "zero":
        return 0.0, k
    if k == "half":
        return rng.randint(-4, 4) + 0.5, k
    return dy(rng, -1, 1, 4096) / 64, k


def s_shift(ctx, drv, I, case):
    from qv.prng import Rng
    torch = I.torch
    rng = Rng(case["rseed"])
    nr, nc = gen_shape(rng)
    B = rng.randint(1, 3)
    M = rng.weighted([(0, 2), (1, 1), (2, 1), (3, 1)])    # 0: plain 2-D array, else stack of M
    pos, kinds = [], []
    for _ in range(B):
        (r, kr_), (c, kc_) = gen_pos(rng), gen_pos(rng)
        pos.append([r, c])
        kinds.append(kr_ + "/" + kc_)
    pos = np.array(pos, dtype=np.float64)
    tpos = np.array([[gen_pos(rng)[0], gen_pos(rng)[0]]], dtype=np.float64)
    real_in = rng.chance(0.15)
    use_np = rng.chance(0.2)
    pkind = rng.weighted([("float64", 5), ("float32", 2), ("int32", 1), ("int64", 1)])
    if pkind.startswith("int"):     # integer-typed position arrays hold whole-pixel shifts
        pos, tpos = np.round(pos), np.round(tpos)
        kinds = ["int/int"] * B
    tolp = TOL64 if pkind == "float64" else TOL32      # float32 / integer positions give a complex64 ramp
    ctx.dist[f"shift.pos={'numpy' if use_np else 'torch'}.{pkind}"] += 1
    shape = (nr, nc) if M == 0 else (M, nr, nc)
    x = rarr(rng, shape, -2, 2) if real_in else carr(rng, shape)
    case.update({"shape": list(shape), "positions": pos.tolist(), "second_shift": tpos.tolist(), "real_input": real_in, "numpy_branch": use_np, "pos_dtype": pkind})
    ctx.count()
    ctx.mark(("shift", psig(nr, nc), M, real_in, use_np, kinds[0], pkind))
    ctx.dist[f"shift.parity={psig(nr, nc)}"] += 1
    ctx.dist[f"shift.modes={M}"] += 1
    ctx.dist[f"shift.real_input={real_in}"] += 1
    for k in kinds:
        ctx.dist[f"shift.pos={k}"] += 1
    conv = (lambda a, dt=None: np.asarray(a)) if use_np else (lambda a, dt=None: T(I, a, dt))
    back = (lambda a: np.asarray(a)) if use_np else (lambda a: a.numpy())
    # ---- translation operator
    P = lambda a: mkpos(I, a, pkind, use_np)      # noqa: E731  positions in the drawn dtype / container
    top = back(I.pu.fourier_translation_operator(P(pos), shape))
    want_shape = (B,) + (1,) * (len(shape) - 2) + (nr, nc)
    if top.shape != want_shape:
        ctx.disagree("translation-operator", case, list(want_shape), list(top.shape), "shape")
        return
    top2 = top.reshape(B, nr, nc)
    for b in range(B):
        m = dec_img(ask(drv, {"op": "translation_operator", "nr": nr, "nc": nc, "r": f2b(pos[b, 0]), "c": f2b(pos[b, 1])})["ok"])
        corr(ctx, "translation-operator", case, m, top2[b], TOL32)
    pred(ctx, "ramp-unit-modulus", "|translation operator| != 1", case, np.abs(top2), np.ones_like(top2.real), tolp, "|ramp|=1")
    tt = back(I.pu.fourier_translation_operator(P(tpos), shape)).reshape(1, nr, nc)
    tsum = back(I.pu.fourier_translation_operator(P(pos) + P(tpos), shape)).reshape(B, nr, nc)
    pred(ctx, "ramp-additive", "T(s)*T(t) != T(s+t)", case, top2 * tt, tsum, tolp, "ramp additivity")
    # the same against an independently computed ramp (not against the operator itself)
    pred(ctx, f"ramp-oracle:{pkind}", "translation operator != exp(-2 pi i (k_r r + k_c c)) (independent oracle)", case, top2, oracle_ramp(nr, nc, pos), TOL32, "ramp vs oracle")
    pred(ctx, f"ramp-additive-oracle:{pkind}", "T(s)*T(t) != independent ramp of s+t", case, top2 * tt, oracle_ramp(nr, nc, pos + tpos), TOL32, "ramp additivity vs oracle")
    # ---- fourier_shift_expand
    xin = conv(x, torch.float64 if real_in else torch.complex128)
    y = back(I.pu.fourier_shift_expand(xin, P(pos)))
    if y.shape != (B,) + tuple(shape):
        ctx.disagree("fourier-shift", case, [B] + list(shape), list(y.shape), "shape")
        return
    xs = x.reshape((-1, nr, nc))
    ys = y.reshape((B, -1, nr, nc))
    for b in range(B):
        for m_ in range(xs.shape[0]):
            if real_in:
                mo = dec_rows(ask(drv, {"op": "fourier_shift_real", "x": enc_rows(xs[m_]), "r": f2b(pos[b, 0]), "c": f2b(pos[b, 1])})["ok"])
            else:
                mo = dec_img(ask(drv, {"op": "fourier_shift", "x": enc_img(xs[m_]), "r": f2b(pos[b, 0]), "c": f2b(pos[b, 1])})["ok"])
            corr(ctx, "fourier-shift" + ("-real" if real_in else ""), case, mo, ys[b, m_], TOL32)
    osh = oracle_shift(x, pos)
    pred(ctx, f"shift-oracle:{pkind}", "fourier_shift_expand != independently computed Fourier shift", case, y, osh.real if real_in else osh, TOL32, "shift vs oracle")
    if real_in:
        return      # the property quantifies over complex arrays; `.real` branch: correspondence + oracle only
    e0 = np.sum(np.abs(xs) ** 2, axis=(-2, -1))
    e1 = np.sum(np.abs(ys) ** 2, axis=(-2, -1))
    pred(ctx, f"shift-energy:{psig(nr, nc)}", "sub-pixel Fourier shift changes total intensity", case, e1, np.broadcast_to(e0, e1.shape), tolp, "shift energy")
    # additivity: shift the b-th result by t, compare with one shift by s+t and with the independent shift by s+t
    for b in range(B):
        yb = conv(y[b], torch.complex128)
        y2 = back(I.pu.fourier_shift_expand(yb, P(tpos)))[0]
        y12 = back(I.pu.fourier_shift_expand(xin, P(pos[b:b + 1]) + P(tpos)))[0]
        pred(ctx, f"shift-additive:{psig(nr, nc)}", "shift(shift(x,s),t) != shift(x,s+t)", case, y2, y12, tolp, "shift additivity")
        pred(ctx, f"shift-additive-oracle:{pkind}", "shift(shift(x,s),t) != independent shift by s+t", case, y2, oracle_shift(x, pos[b:b + 1] + tpos)[0], TOL32, "shift additivity vs oracle")
    ctx.sample({k: case[k] for k in ("stream", "rseed", "shape", "positions")}, limit=3)


# ----------------------------------------------------------------------------- stream: propagators + propagation
def s_prop(ctx, drv, I, case):
    from qv.prng import Rng
    torch = I.torch
    rng = Rng(case["rseed"])
    nr, nc = gen_shape(rng)
    sr, sc, energy, thr, thc = gen_physics(rng)
    S = rng.randint(1, 4)
    dzs = [dy(rng, 1, 20, 8) for _ in range(S - 1)]
    d1, d2 = dy(rng, 1, 20, 8), dy(rng, 1, 20, 8)
    case.update({"shape": [nr, nc], "sampling": [sr, sc], "energy": energy, "tilt": [thr, thc], "num_slices": S, "dz": dzs, "d1d2": [d1, d2]})
    ctx.count()
    ctx.mark(("prop", psig(nr, nc), S, thr != 0, thc != 0))
    ctx.dist[f"prop.slices={S}"] += 1
    ctx.dist[f"prop.tilt_r={'0' if thr == 0 else 'nz'},tilt_c={'0' if thc == 0 else 'nz'}"] += 1
    ctx.dist[f"prop.parity={psig(nr, nc)}"] += 1
    # wavelength
    mw = b2f(ask(drv, {"op": "wavelength", "energy": f2b(energy)})["ok"])
    corr(ctx, "wavelength", case, np.array([mw]), np.array([I.wl(energy)]), TOL64)
    # the call as the reconstruction makes it
    P = impl_propagators(I, ctx, nr, nc, sr, sc, energy, thr, thc, S, dzs)
    mP = model_propagators(drv, nr, nc, sr, sc, energy, thr, thc, S, dzs)
    if S == 1:
        if P.numel() != 0 or mP != []:
            ctx.disagree("propagators", case, len(mP), list(P.shape), "num_slices == 1 must give an empty tensor")
    else:
        Pn = P.numpy()
        if Pn.shape != (S - 1, nr, nc):
            ctx.disagree("propagators", case, [S - 1, nr, nc], list(Pn.shape), "shape")
            return
        for s in range(S - 1):
            corr(ctx, "propagators", case, mP[s], Pn[s], TOL32)
    # identities: thickness list [d1, d2, d1+d2, -d1]
    dl = [d1, d2, d1 + d2, -d1]
    Q = impl_propagators(I, ctx, nr, nc, sr, sc, energy, thr, thc, 5, dl).numpy().astype(np.complex128)
    mQ = model_propagators(drv, nr, nc, sr, sc, energy, thr, thc, 5, dl)
    for s in range(4):
        corr(ctx, "propagators", case, mQ[s], Q[s], TOL32, note=f"dz={dl[s]}")
    pred(ctx, "prop-unit-modulus", "|propagator| != 1 for real dz", case, np.abs(Q), np.ones_like(Q.real), 1e-5, "|propagator|=1 (complex64)")
    pred(ctx, "prop-kernel-additive", "P(d1)*P(d2) != P(d1+d2)", case, Q[0] * Q[1], Q[2], TOL32, "propagator additivity (complex64)")
    pred(ctx, "prop-kernel-inverse", "P(d)*P(-d) != 1", case, Q[0] * Q[3], np.ones_like(Q[0]), TOL32, "propagator inverse (complex64)")
    # every kernel (tilted / untilted, dz > 0 and dz < 0) against the independent float64 kernel, through both kernel entry points
    OK = np.stack([oracle_propagator(nr, nc, sr, sc, energy, d, thr, thc) for d in dl])
    pred(ctx, "prop-kernel-oracle:ProbeBase._compute_propagator_arrays", "propagator != independent Fresnel kernel (incl. tilt term, negative dz)", case, Q, OK, TOL32, "propagator vs oracle kernel")
    pinst = real_instance(ctx, 1)
    if pinst is not None:      # PtychographyBase.compute_propagator_arrays: the instance-level entry point
        bself = Borrow(pinst, probe_model=probe_self(I, ctx, (nr, nc), energy, (thr, thc)), sampling=np.array([sr, sc]), num_slices=5,
                       slice_thicknesses=np.asarray(dl, dtype=np.float64))
        I.Base.compute_propagator_arrays(bself)
        Q2 = np.asarray(bself.propagators).astype(np.complex128)
        pred(ctx, "prop-kernel-oracle:PtychographyBase.compute_propagator_arrays", "instance-level propagators != independent Fresnel kernel", case, Q2, OK, TOL32, "propagator vs oracle kernel (instance entry)")
    # propagation of arrays with the real kernels
    M, B = rng.randint(1, 2), rng.randint(1, 2)
    a = carr(rng, (M, B, nr, nc))
    at = T(I, a, torch.complex128)
    Qt = [T(I, Q[s], torch.complex128) for s in range(4)]
    # every entry point of the propagation operator against the independent ifft2(fft2(a)*K), for P(d) and P(-d)
    eps = propagate_entry_points(I, ctx)
    fwd = {}
    for name, f in eps.items():
        for s_, lab in ((0, "d"), (3, "-d")):
            out = f(at.clone(), Qt[s_].clone()).numpy()
            pred(ctx, f"propagate-oracle:{name}", f"{name}(a, P({lab})) != independent ifft2(fft2(a)*P)", case, out, oracle_propagate(a, Q[s_]), TOL64, "propagate entry points vs oracle")
            if s_ == 0:
                fwd[name] = out
    names = sorted(eps)
    for n1 in names:          # P(d) through one entry point, P(-d) through another = identity
        for n2 in names:
            if n1 != n2:
                back_ = eps[n2](T(I, fwd[n1], torch.complex128), Qt[3].clone()).numpy()
                pred(ctx, f"propagate-cross-inverse:{n2}", f"{n2}({n1}(a, P(d)), P(-d)) != a", case, back_, a, TOL32, "cross-entry-point inverse propagation")
    ctx.dist[f"prop.entry_points={len(eps)}"] += 1
    p1 = I.Base._propagate_array(None, at, Qt[0])
    p1n = p1.numpy()
    for m_ in range(M):
        for b in range(B):
            mo = dec_img(ask(drv, {"op": "propagate", "a": enc_img(a[m_, b]), "p": enc_img(Q[0])})["ok"])
            corr(ctx, "propagate", case, mo, p1n[m_, b], TOL64)
    e0 = np.sum(np.abs(a) ** 2, axis=(-2, -1))
    e1 = np.sum(np.abs(p1n) ** 2, axis=(-2, -1))
    pred(ctx, f"prop-energy:{psig(nr, nc)}", "propagation changes total intensity", case, e1, e0, 1e-5, "propagation energy (complex64 kernel)")
    p12 = I.Base._propagate_array(None, p1, Qt[1]).numpy()
    p3 = I.Base._propagate_array(None, at, Qt[2]).numpy()
    pred(ctx, f"prop-additive:{psig(nr, nc)}", "prop(prop(a,d1),d2) != prop(a,d1+d2)", case, p12, p3, TOL32, "propagation additivity (complex64 kernel)")
    pinv = I.Base._propagate_array(None, p1, Qt[3]).numpy()
    pred(ctx, f"prop-inverse:{psig(nr, nc)}", "prop(prop(a,d),-d) != a", case, pinv, a, TOL32, "propagation inverse (complex64 kernel)")
    ctx.sample({k: case[k] for k in ("stream", "rseed", "shape", "sampling", "energy", "tilt", "num_slices", "dz")}, limit=4)


# ----------------------------------------------------------------------------- stream: multislice overlap, detector, pure-phase energy
def s_forward(ctx, drv, I, case):
    from qv.prng import Rng
    torch = I.torch
    rng = Rng(case["rseed"])
    nr, nc = gen_shape(rng)
    S, M, B = rng.randint(1, 4), rng.randint(1, 3), rng.randint(1, 2)
    sr, sc, energy, thr, thc = gen_physics(rng)
    dzs = [dy(rng, 1, 20, 8) for _ in range(S - 1)]
    H, W = rng.randint(max(2, nr - 3), nr + 4), rng.randint(max(2, nc - 3), nc + 4)
    purephase = rng.chance(0.6)
    real_obj = purephase and rng.chance(0.5)
    case.update({"shape": [nr, nc], "obj_shape": [H, W], "slices": S, "modes": M, "batch": B, "sampling": [sr, sc], "energy": energy,
                 "tilt": [thr, thc], "dz": dzs, "pure_phase": purephase, "real_object": real_obj})
    ctx.count()
    ctx.mark(("forward", psig(nr, nc), S, M, purephase, real_obj))
    ctx.dist[f"forward.slices={S}"] += 1
    ctx.dist[f"forward.modes={M}"] += 1
    ctx.dist[f"forward.parity={psig(nr, nc)}"] += 1
    ctx.dist[f"forward.pure_phase={purephase}"] += 1
    idx = wrap_indices(rng, H, W, B, nr, nc)
    idxl = idx.reshape(B, -1).tolist()
    if purephase:
        phi = rarr(rng, (S, H, W), -3, 3, 64)
        obj = phi if real_obj else np.exp(1j * phi)
    else:
        obj = carr(rng, (S, H, W), 1.0)
        if rng.chance(0.6):      # absorbing object: |O| <= 1 (dyadic scaling keeps the data exact)
            obj = obj / 2.0
    probe = carr(rng, (M, nr, nc))
    fract = np.array([[dy(rng, -0.5, 0.5, 64), dy(rng, -0.5, 0.5, 64)] for _ in range(B)])
    # --- the real pipeline pieces, in the order of Ptychography.reconstruct
    obj_t = T(I, obj, torch.float64 if real_obj else torch.complex128)
    patches = I.Obj._get_obj_patches(None, obj_t, T(I, idx, torch.int64))          # (S,B,nr,nc)
    shifted = I.pu.fourier_shift_expand(T(I, probe, torch.complex128), T(I, fract, torch.float64)).swapaxes(0, 1)   # (M,B,nr,nc)
    props = impl_propagators(I, ctx, nr, nc, sr, sc, energy, thr, thc, S, dzs)
    st = ptycho_self(I, ctx, M, S, props)
    pp, overlap = I.Base.overlap_projection(st, patches, shifted)
    inten = I.Det().forward(overlap)                                                 # (B,nr,nc)
    pn, sn, ppn, on, inn = patches.numpy(), shifted.numpy(), pp.numpy(), overlap.numpy(), inten.numpy()
    if ppn.shape != (S, M, B, nr, nc) or on.shape != (M, B, nr, nc) or inn.shape != (B, nr, nc):
        ctx.disagree("overlap-projection", case, [[S, M, B, nr, nc], [M, B, nr, nc], [B, nr, nc]],
                     [list(ppn.shape), list(on.shape), list(inn.shape)], "shapes")
        return
    propsn = props.numpy().astype(np.complex128) if S > 1 else np.zeros((0, nr, nc), dtype=np.complex128)
    flat = obj.reshape(S, -1)
    for b in range(B):
        # model patches
        if real_obj:
            mp = ask(drv, {"op": "get_patches_real", "obj": enc_rows(flat), "idx": idxl[b]})["ok"]
        else:
            mp = ask(drv, {"op": "get_patches", "obj": [enc_flat(flat[s]) for s in range(S)], "idx": idxl[b]})["ok"]
        mpatch = [dec_flat(j).reshape(nr, nc) for j in mp]
        for s in range(S):
            corr(ctx, "get-obj-patches", case, mpatch[s], pn[s, b], TOL64)
        r = ask(drv, {"op": "overlap_projection", "patches": [enc_img(pn[s, b]) for s in range(S)],
                      "props": [enc_img(propsn[s]) for s in range(S - 1)], "probes": [enc_img(sn[m_, b]) for m_ in range(M)]})["ok"]
        for m_ in range(M):
            corr(ctx, "overlap-projection", case, dec_img(r["overlap"][m_]), on[m_, b], TOL64, note="exit wave")
            if len(r["prop"][m_]) != S:
                ctx.disagree("overlap-projection", case, len(r["prop"][m_]), S, "number of propagated probes")
                continue
            for s in range(S):
                corr(ctx, "overlap-projection", case, dec_img(r["prop"][m_][s]), ppn[s, m_, b], TOL64, note=f"propagated probe slice {s}")
        md = dec_rows(ask(drv, {"op": "detector", "waves": [enc_img(on[m_, b]) for m_ in range(M)]})["ok"])
        corr(ctx, "detector", case, md, inn[b], TOL64)
    # --- independent multislice oracle (NumPy loop, the implementation's own complex64 kernels)
    ex = pn[0][None] * sn
    for s_ in range(1, S):
        ex = pn[s_][None] * oracle_propagate(ex, propsn[s_ - 1])
    pred(ctx, "overlap-oracle", "overlap_projection exit wave != independent multislice loop", case, on, ex, TOL64, "exit wave vs oracle multislice")
    # --- ObjectPixelated.backward (the object-model entry point of the propagation operator): for pure-phase patches
    #     back-transmitting / back-propagating the exit wave must return the entrance wave (the shifted probes)
    pobj = real_instance(ctx, 1)
    if purephase and pobj is not None:
        oself = Borrow(pobj.obj_model, _obj=torch.nn.Parameter(torch.zeros((S, H, W), dtype=torch.complex128)), num_slices=S, obj_type="complex")
        oself._over["_propagate_array"] = lambda a_, q_: I.Obj._propagate_array(oself, a_, q_)
        from quantem.diffractive_imaging.object_models import ObjectPixelated
        back_ = ObjectPixelated.backward(oself, overlap.clone(), patches.clone(), pp.clone(), props.clone() if S > 1 else props, T(I, idx, torch.int64))
        pred(ctx, f"backward-identity:S{'1' if S == 1 else 'n'}", "ObjectPixelated.backward(exit wave) != entrance wave (pure-phase object: forward then backward is the identity)", case,
             back_.numpy(), sn, TOL64 if S == 1 else TOL32, "forward-then-backward identity")
        ctx.dist["forward.backward_identity_checked"] += 1
    # --- predicates
    tot_exit = np.sum(np.abs(on) ** 2, axis=(0, 2, 3))
    pred(ctx, f"detector-parseval:{psig(nr, nc)}", "summed detector intensity != total exit-wave intensity", case, inn.sum(axis=(1, 2)), tot_exit, TOL64, "detector Parseval")
    if not purephase and maxabs(pn) <= 1.0:      # Props.absorbing_energy_le: |O| <= 1 can only remove intensity
        ctx.dist["forward.absorbing_bound_checked"] += 1
        ptot = np.sum(np.abs(probe) ** 2)
        excess = np.maximum(inn.sum(axis=(1, 2)) - ptot, 0.0)
        pred(ctx, "absorbing-energy-le", "summed predicted intensity exceeds the probe intensity for an absorbing object (|O| <= 1)", case,
             excess, np.zeros(B), 1e-5 * max(1.0, ptot), "absorbing object: intensity excess over probe")
    if purephase:
        amp = np.abs(pn)
        pred(ctx, "pure-phase-patches", "patches of a pure-phase object are not unit modulus", case, amp, np.ones_like(amp), TOL64, "|obj patch|=1")
        ptot = np.sum(np.abs(probe) ** 2)
        tol = TOL64 if S == 1 else 1e-5
        pred(ctx, f"purephase-energy:S{'1' if S == 1 else 'n'}:{psig(nr, nc)}", "summed predicted diffraction intensity != probe total intensity (pure-phase object)",
             case, inn.sum(axis=(1, 2)), np.full(B, ptot), tol, "pure-phase energy S=1" if S == 1 else "pure-phase energy S>1 (complex64 kernels)")
    ctx.sample({k: case[k] for k in ("stream", "rseed", "shape", "obj_shape", "slices", "modes", "batch", "pure_phase", "real_object")}, limit=5)


# ----------------------------------------------------------------------------- stream: Fourier projection
def oracle_amplitudes(P):
    """independent oracle of what the detector sees: fftshift(sqrt(sum_modes |fft2_ortho|^2)); P: (M,B,nr,nc)"""
    F = np.fft.fft2(P, norm="ortho")
    return np.fft.fftshift(np.sqrt(np.sum(np.abs(F) ** 2, axis=0)), axes=(-2, -1))


def s_proj(ctx, drv, I, case):
    from qv.prng import Rng
    torch = I.torch
    rng = Rng(case["rseed"])
    nr, nc = gen_shape(rng)
    M, B = rng.weighted([(1, 4), (2, 3), (3, 2)]), rng.randint(1, 2)
    scale = rng.weighted([(1.0, 5), (2.0 ** -10, 2), (2.0 ** -20, 1), (2.0 ** -30, 1)])
    akind = rng.weighted([("random", 4), ("random+zeros", 4), ("from-wave", 2), ("all-zero", 1)])
    okind = rng.weighted([("random", 8), ("zero-mode", 1), ("all-zero", 1)])
    x = carr(rng, (M, B, nr, nc)) * scale
    if okind == "zero-mode" and M > 1:
        x[rng.below(M)] = 0
    elif okind == "all-zero":
        x[:] = 0
    if akind == "from-wave":
        A = oracle_amplitudes(carr(rng, (M, B, nr, nc)))
    elif akind == "all-zero":
        A = np.zeros((B, nr, nc))
    else:
        A = rarr(rng, (B, nr, nc), 0, 2)
        if akind == "random+zeros":
            for i in range(A.size):
                if rng.chance(0.2):
                    A.reshape(-1)[i] = 0.0
    sk = "single" if M == 1 else "mixed"
    case.update({"shape": [nr, nc], "modes": M, "batch": B, "overlap_scale": scale, "amp_kind": akind, "overlap_kind": okind})
    ctx.count()
    ctx.mark(("proj", psig(nr, nc), M, akind, okind, scale))
    ctx.dist[f"proj.modes={M}"] += 1
    ctx.dist[f"proj.parity={psig(nr, nc)}"] += 1
    ctx.dist[f"proj.amp={akind}"] += 1
    ctx.dist[f"proj.overlap={okind},scale=2^{int(np.log2(scale))}"] += 1
    # bound methods of a real M-mode Ptychography instance (bare stub only if the factory is unavailable)
    st = real_instance(ctx, M) or ptycho_self(I, ctx, M, 1, None)
    At, xt = T(I, A, torch.float64), T(I, x, torch.complex128)
    P = st.fourier_projection(At.clone(), xt.clone())
    G = st.gradient_step(At.clone(), xt.clone())
    Pn, Gn = P.numpy(), G.numpy()
    if Pn.shape != x.shape:
        ctx.disagree("fourier-projection", case, list(x.shape), list(Pn.shape), "shape")
        return
    for b in range(B):
        waves = [enc_img(x[m_, b]) for m_ in range(M)]
        mp = ask(drv, {"op": "fourier_projection", "num_probes": M, "A": enc_rows(A[b]), "waves": waves})["ok"]
        mg = ask(drv, {"op": "gradient_step", "num_probes": M, "A": enc_rows(A[b]), "waves": waves})["ok"]
        for m_ in range(M):
            corr(ctx, f"fourier-projection-{sk}", case, dec_img(mp[m_]), Pn[m_, b], TOL64)
            corr(ctx, f"gradient-step-{sk}", case, dec_img(mg[m_]), Gn[m_, b], TOL64)
    # estimate_amplitudes (eps = 1e-9 inside; used by the loss path, no longer by the projection)
    cc = rng.chance(0.5)
    ea = st.estimate_amplitudes(xt.clone(), corner_centered=cc).numpy()
    for b in range(B):
        me = dec_rows(ask(drv, {"op": "estimate_amplitudes", "waves": [enc_img(x[m_, b]) for m_ in range(M)], "corner": cc})["ok"])
        corr(ctx, "estimate-amplitudes", case, me, ea[b], TOL64)
    # --- predicates on the implementation
    obs = oracle_amplitudes(Pn)
    ff_in = oracle_amplitudes(x)
    good = np.ones_like(A, dtype=bool) if M == 1 else (ff_in != 0)
    ctx.dist[f"proj.pixels_excluded_zero_farfield={'some' if not good.all() else 'none'}"] += 1
    par = psig(nr, nc)[:2]
    key_par = "odd" if "o" in par else "even"
    pred(ctx, f"proj-exact:{sk}:{key_par}", "Fourier projection does not return the measured amplitudes (detector convention)", case,
         np.where(good, obs, A), A, TOL64, f"projection exactness {sk}")
    det = np.sqrt(I.Det().forward(P).numpy())
    pred(ctx, f"proj-exact-detector:{sk}:{key_par}", "sqrt(DetectorPixelated.forward(projection)) != measured amplitudes", case,
         np.where(good, det, A), A, TOL64, f"projection exactness via detector {sk}")
    P2 = st.fourier_projection(At.clone(), P.clone()).numpy()
    pred(ctx, f"proj-idempotent:{sk}:{key_par}", "Fourier projection is not idempotent", case, P2, Pn, TOL64, f"projection idempotence {sk}")
    ctx.sample({k: case[k] for k in ("stream", "rseed", "shape", "modes", "batch", "overlap_scale", "amp_kind", "overlap_kind")}, limit=6)


# ----------------------------------------------------------------------------- stream: bound methods of a real Ptychography instance
INST_SHAPES = [(9, 9), (8, 11), (8, 8), (7, 10), (11, 8), (5, 5), (6, 4), (4, 7), (12, 9), (3, 6)]


def s_instance(ctx, drv, I, case):
    """the operators called as bound methods of a real (tiny) Ptychography object built by
    props/ptycho_tiny.py, for all three object types: projection (single + mixed state, odd / even /
    non-square ROI), the dataset's own patch indices (wrap-around, repeats), and the real forward
    path obj_model.forward -> probe_model.forward -> forward_operator(descan) -> detector_model.forward"""
    from qv.prng import Rng
    torch = I.torch
    rng = Rng(case["rseed"])
    nr, nc = rng.choice(INST_SHAPES) if rng.chance(0.7) else (rng.randint(3, 12), rng.randint(3, 12))
    M = rng.weighted([(1, 2), (2, 3), (3, 3)])
    obj_type = rng.choice(["complex", "pure_phase", "potential"])
    dkind = rng.weighted([("none", 1), ("zero", 1), ("nonzero", 3)])
    scan = (rng.randint(2, 3), rng.randint(2, 3))
    case.update({"shape": [nr, nc], "modes": M, "scan": list(scan), "obj_type": obj_type, "descan": dkind})
    ctx.count()
    ctx.mark(("instance", psig(nr, nc), M, obj_type, dkind))
    ctx.dist[f"instance.modes={M}"] += 1
    ctx.dist[f"instance.parity={psig(nr, nc)}"] += 1
    ctx.dist[f"instance.obj_type={obj_type},descan={dkind}"] += 1
    p = real_instance(ctx, M, (nr, nc), obj_type, cache=False, seed=rng.randint(0, 50), rng_seed=rng.randint(0, 50), scan=scan)
    if p is None:
        return
    if int(p.num_probes) != M or tuple(int(v) for v in p.roi_shape) != (nr, nc):
        ctx.disagree("instance", case, [M, nr, nc], [int(p.num_probes)] + [int(v) for v in p.roi_shape], "factory geometry")
        return
    sk = "single" if M == 1 else "mixed"
    key_par = "odd" if "o" in psig(nr, nc)[:2] else "even"
    # ---- (a) projection through the bound method, float64 data
    B = rng.randint(1, 2)
    x = carr(rng, (M, B, nr, nc)) * rng.choice([1.0, 2.0 ** -10])
    A = rarr(rng, (B, nr, nc), 0, 2)
    for i in range(A.size):
        if rng.chance(0.15):
            A.reshape(-1)[i] = 0.0
    At, xt = T(I, A, torch.float64), T(I, x, torch.complex128)
    P = p.fourier_projection(At.clone(), xt.clone())
    G = p.gradient_step(At.clone(), xt.clone())
    Pn = P.numpy()
    for b in range(B):
        waves = [enc_img(x[m_, b]) for m_ in range(M)]
        mp = ask(drv, {"op": "fourier_projection", "num_probes": M, "A": enc_rows(A[b]), "waves": waves})["ok"]
        mg = ask(drv, {"op": "gradient_step", "num_probes": M, "A": enc_rows(A[b]), "waves": waves})["ok"]
        for m_ in range(M):
            corr(ctx, f"instance-fourier-projection-{sk}", case, dec_img(mp[m_]), Pn[m_, b], TOL64)
            corr(ctx, f"instance-gradient-step-{sk}", case, dec_img(mg[m_]), G.numpy()[m_, b], TOL64)
    good = np.ones_like(A, dtype=bool) if M == 1 else (oracle_amplitudes(x) != 0)
    pred(ctx, f"proj-exact:{sk}:{key_par}", "Fourier projection does not return the measured amplitudes (detector convention)", case,
         np.where(good, oracle_amplitudes(Pn), A), A, TOL64, f"projection exactness {sk}")
    det = np.sqrt(p.detector_model.forward(P).numpy())
    pred(ctx, f"proj-exact-detector:{sk}:{key_par}", "sqrt(detector_model.forward(projection)) != measured amplitudes", case,
         np.where(good, det, A), A, TOL64, f"projection exactness via detector {sk}")
    P2 = p.fourier_projection(At.clone(), P.clone()).numpy()
    pred(ctx, f"proj-idempotent:{sk}:{key_par}", "Fourier projection is not idempotent", case, P2, Pn, TOL64, f"projection idempotence {sk}")
    # ---- (b) the instance's own patch indices: exact integer adjointness
    idx_t = p.dset.patch_indices
    idx = idx_t.numpy().astype(np.int64)
    H, W = (int(v) for v in p.obj_shape_full[-2:])
    n = H * W
    repeats = len(set(idx.reshape(-1).tolist())) < idx.size
    ctx.dist[f"instance.patch_index_repeats={repeats}"] += 1
    obj = iarr(rng, (1, H, W)) + 1j * iarr(rng, (1, H, W))
    pw = iarr(rng, idx.shape) + 1j * iarr(rng, idx.shape)
    g = p.obj_model._get_obj_patches(T(I, obj, torch.complex128), idx_t).numpy()
    sc_ = I.pu.sum_patches(T(I, pw, torch.complex128), idx_t, (H, W)).numpy()
    idxl = idx.reshape(-1).tolist()
    for part in (np.real, np.imag):
        mgi = ask(drv, {"op": "gather_int", "obj": part(obj[0]).astype(np.int64).reshape(-1).tolist(), "idx": idxl})
        msi = ask(drv, {"op": "scatter_int", "n": n, "patches": part(pw).astype(np.int64).reshape(-1).tolist(), "idx": idxl})
        if "err" in mgi or part(g[0]).reshape(-1).tolist() != [float(v) for v in mgi["ok"]]:
            ctx.disagree("instance-gather-int", case, str(mgi)[:200], part(g[0]).reshape(-1).tolist()[:20], "own patch indices")
        if "err" in msi or part(sc_).reshape(-1).tolist() != [float(v) for v in msi["ok"]]:
            ctx.disagree("instance-scatter-int", case, str(msi)[:200], part(sc_).reshape(-1).tolist()[:20], "own patch indices")
    ci = lambda a: [complex(int(round(z.real)), int(round(z.imag))) for z in np.asarray(a).reshape(-1)]   # noqa: E731
    lhs = sum(a.conjugate() * b for a, b in zip(ci(g[0]), ci(pw)))
    rhs = sum(a.conjugate() * b for a, b in zip(ci(obj[0]), ci(sc_)))
    if lhs != rhs:
        ctx.pred_fail("adjoint:instance", "<gather(o,idx),p> != <o,scatter(p,idx)> on the dataset's own patch indices", case, observed=str(lhs), required=str(rhs))
    # ---- (c) the real forward path in the instance's own precision (float32), all object types, descan variants
    nb = idx.shape[0]
    phi = rarr(rng, (1, H, W), 0, 3, 64).astype(np.float32)
    if obj_type == "potential":
        newobj = T(I, phi, torch.float32)                                  # patches = exp(1j*potential)
    elif obj_type == "pure_phase":
        newobj = T(I, (rarr(rng, (1, H, W), 0.25, 2, 16) * np.exp(1j * phi)).astype(np.complex64), torch.complex64)   # amplitude is discarded by the model
    else:
        newobj = T(I, np.exp(1j * phi).astype(np.complex64), torch.complex64)   # complex object that happens to be pure phase
    p.obj_model._obj.data = newobj
    patches = p.obj_model.forward(idx_t)                                   # (1, nb, nr, nc): hard constraints + _get_obj_patches
    fkind = rng.weighted([("float32", 4), ("float64", 2), ("int32", 1), ("int64", 1)])
    fvals = np.array([[dy(rng, -0.5, 0.5, 64), dy(rng, -0.5, 0.5, 64)] for _ in range(nb)])
    if fkind.startswith("int"):
        fvals = np.array([[rng.randint(-2, 2), rng.randint(-2, 2)] for _ in range(nb)], dtype=np.float64)
    ctx.dist[f"instance.probe_forward.pos={fkind}"] += 1
    case.update({"probe_pos_dtype": fkind})
    fract = mkpos(I, fvals, fkind, False)
    shifted = p.probe_model.forward(fract)                                 # (M, nb, nr, nc) complex64
    probe0 = p.probe_model.probe.detach().numpy().astype(np.complex128)
    pred(ctx, f"probe-forward-shift:{fkind}", "probe_model.forward(positions) != independently shifted probe stack", case,
         shifted.detach().numpy().astype(np.complex128), np.swapaxes(oracle_shift(probe0, fvals), 0, 1), TOL32, "probe forward vs oracle shift")
    if dkind == "none":
        descan = None
    elif dkind == "zero":
        descan = torch.zeros((nb, 2), dtype=torch.float32)
    else:
        descan = T(I, np.array([[dy(rng, -2, 2, 64), dy(rng, -2, 2, 64)] for _ in range(nb)]), torch.float32)
    pn, sn = patches.numpy().astype(np.complex128), shifted.numpy().astype(np.complex128)
    if tuple(pn.shape) != (1, nb, nr, nc) or tuple(sn.shape) != (M, nb, nr, nc):
        ctx.disagree("instance-forward", case, [[1, nb, nr, nc], [M, nb, nr, nc]], [list(pn.shape), list(sn.shape)], "patch / probe shapes")
        return
    _pp, overlap = p.forward_operator(patches.clone(), shifted.clone(), None if descan is None else descan.clone())
    inten = p.detector_model.forward(overlap).numpy().astype(np.float64)
    unit = maxabs(np.abs(pn) - 1.0) <= 1e-5
    ctx.dist[f"instance.patches_unit_modulus={unit}"] += 1
    ptot = float(np.sum(np.abs(p.probe_model.probe.detach().numpy().astype(np.complex128)) ** 2))
    if unit:
        pred(ctx, f"purephase-energy:instance:{obj_type}:descan-{dkind}", "summed predicted diffraction intensity != probe total intensity (real instance, float32)", case,
             inten.sum(axis=(1, 2)) / ptot, np.ones(nb), TOL32, "pure-phase energy on a real instance (float32)")
    # the same pass through the model for one or two patterns (float32 data -> 5e-4 rule)
    dn = None if descan is None else descan.numpy().astype(np.float64)
    for b in sorted({rng.below(nb), rng.below(nb)}):
        req = {"op": "forward_operator", "patches": [enc_img(pn[0, b])], "props": [], "probes": [enc_img(sn[m_, b]) for m_ in range(M)]}
        if dn is not None:
            req["descan"] = [f2b(dn[b, 0]), f2b(dn[b, 1])]
        r = ask(drv, req)["ok"]
        on = overlap.numpy().astype(np.complex128)
        for m_ in range(M):
            corr(ctx, f"instance-forward-operator:{obj_type}:descan-{dkind}", case, dec_img(r["overlap"][m_]), on[m_, b], TOL32)
        md = dec_rows(ask(drv, {"op": "detector", "waves": r["overlap"]})["ok"])
        corr(ctx, "instance-forward-detector", case, md, inten[b], TOL32)
    ctx.sample({k: case[k] for k in ("stream", "rseed", "shape", "modes", "scan", "obj_type", "descan")}, limit=7)


# ----------------------------------------------------------------------------- stream: call histories (state / aliasing)
def _bits(x):
    """exact byte content of a tensor / array (NaN-safe bit comparison)"""
    if hasattr(x, "detach"):
        x = x.detach().resolve_conj().resolve_neg().cpu().contiguous().numpy()
    return (str(x.dtype), tuple(x.shape), np.ascontiguousarray(x).tobytes())


def _snap(x):
    return x.detach().clone() if hasattr(x, "detach") else np.array(x, copy=True)


def _storage(x):
    if hasattr(x, "untyped_storage"):
        return None if x.numel() == 0 else ("t", x.untyped_storage().data_ptr())
    return None


def _share(a, b):
    if hasattr(a, "untyped_storage") and hasattr(b, "untyped_storage"):
        sa, sb = _storage(a), _storage(b)
        return sa is not None and sa == sb
    if isinstance(a, np.ndarray) and isinstance(b, np.ndarray):
        return a.size > 0 and b.size > 0 and np.shares_memory(a, b)
    return False


def _aslist(out):
    if isinstance(out, (tuple, list)):
        return [o for o in out if hasattr(o, "shape")]
    return [out]


def run_history(ctx, case, op, calls):
    """`calls`: list of (thunk, [input tensors/arrays]).  Every thunk is called in order and ALL results
    are kept.  Afterwards: (1) every kept result is bit-identical to the clone taken right after its
    call returned (outputs must not change once returned), (2) every input is bit-identical to its
    snapshot taken before the call, (3) results of different calls do not share storage.
    Returns the kept results (list per call)."""
    kept, clones, snaps = [], [], []
    for thunk, inputs in calls:
        snaps.append([_bits(x) for x in inputs])
        outs = _aslist(thunk())
        kept.append(outs)
        clones.append([_bits(_snap(o)) for o in outs])
    ok = True
    for i, (thunk, inputs) in enumerate(calls):
        if [_bits(x) for x in inputs] != snaps[i]:
            ctx.pred_fail(f"history-input-modified:{op}", f"{op}: an input of call {i + 1} of {len(calls)} was modified by the call history", case,
                          observed="input bytes changed", required="inputs are left untouched")
            ok = False
        if [_bits(o) for o in kept[i]] != clones[i]:
            ctx.pred_fail(f"history-result-changed:{op}", f"{op}: the result returned by call {i + 1} of {len(calls)} changed after later calls of the same operator", case,
                          observed="kept result differs bitwise from its clone taken at return time", required="returned results never change")
            ok = False
    for i in range(len(kept)):
        for j in range(i + 1, len(kept)):
            if any(_share(a, b) for a in kept[i] for b in kept[j]):
                ctx.pred_fail(f"history-aliasing:{op}", f"{op}: results of call {i + 1} and call {j + 1} share storage", case,
                              observed="same untyped_storage().data_ptr()", required="independent results")
                ok = False
    ctx.dist[f"history.{op}.calls={len(calls)}"] += 1
    ctx.dist[f"history.contract_ok={ok}"] += 1
    return kept      # the identities are evaluated on the kept results in any case


def s_history(ctx, drv, I, case):
    """2-4 calls of one operator with same-shaped inputs, all results kept: results must not change after they
    are returned, inputs must not be modified, results must not alias each other, and the operator identities
    (adjointness, additivity, energy, idempotence) must hold for EVERY kept result, not only the latest."""
    from qv.prng import Rng
    torch = I.torch
    rng = Rng(case["rseed"])
    op = rng.weighted([("sum_patches", 6), ("get_obj_patches", 2), ("translation", 2), ("shift", 2), ("propagators", 2),
                       ("propagate", 1), ("overlap", 2), ("forward_operator", 2), ("detector", 1), ("projection", 3)])
    k = rng.randint(2, 4)
    grad = rng.chance(0.3)
    case.update({"op": op, "calls": k, "requires_grad": grad})
    ctx.count()
    ctx.dist[f"history.op={op}"] += 1
    ctx.dist[f"history.requires_grad={grad}"] += 1
    with (torch.enable_grad() if grad else torch.no_grad()):
        _history_body(ctx, I, case, rng, op, k, grad)
    ctx.sample({kk: case[kk] for kk in case if kk != "note"}, limit=8)


def _history_body(ctx, I, case, rng, op, k, grad):
    torch = I.torch

    def rg(t):
        if grad and (t.is_floating_point() or t.is_complex()):
            t.requires_grad_(True)
        return t

    def ints(a):
        a = np.asarray(a.detach().resolve_conj().numpy() if hasattr(a, "detach") else a).reshape(-1)
        return [complex(int(round(z.real)), int(round(z.imag))) for z in a.astype(np.complex128)]

    if op in ("sum_patches", "get_obj_patches"):
        H, W = rng.randint(2, 8), rng.randint(2, 8)
        B, r, c = rng.randint(1, 3), rng.randint(1, 6), rng.randint(1, 6)
        same_idx = rng.chance(0.5)
        idxs = [wrap_indices(rng, H, W, B, r, c) if rng.chance(0.6) else iarr(rng, (B, r, c), 0, H * W - 1)]
        for _ in range(k):
            idxs.append(idxs[0] if same_idx else (wrap_indices(rng, H, W, B, r, c) if rng.chance(0.6) else iarr(rng, (B, r, c), 0, H * W - 1)))
        itype = rng.choice([torch.int32, torch.int64])
        idx_t = [T(I, ix, itype) for ix in idxs]
        dt = rng.choice(["float32", "float64", "complex64", "complex128"] + (["int64", "base-float32", "base-float64"] if op == "sum_patches" else []))
        case.update({"H": H, "W": W, "idx_shape": [B, r, c], "dtype": dt, "same_indices": same_idx})
        ctx.mark(("history", op, dt, grad, k, same_idx))
        ctx.dist[f"history.{op}.dtype={dt}"] += 1
        cplx = dt.startswith("complex")
        tdt = getattr(torch, dt.replace("base-", ""))
        if op == "sum_patches":
            fn = I.pu.sum_patches_base if dt in ("int64", "base-float32", "base-float64") else I.pu.sum_patches
            ps = []
            for _ in range(k):
                a = iarr(rng, (B, r, c)) + (1j * iarr(rng, (B, r, c)) if cplx else 0)
                t = T(I, a if cplx else a.real, tdt)
                ps.append(rg(t) if dt != "int64" else t)
            # the additivity call S(p1+p2) is part of the history (last call), on the indices of call 1
            psum = (ps[0].detach() + ps[1].detach()) if same_idx else None
            calls = [((lambda p=p, ix=ix: fn(p, ix, (H, W))), [p, ix]) for p, ix in zip(ps, idx_t[:k])]
            if psum is not None:
                calls.append(((lambda: fn(psum, idx_t[0], (H, W))), [psum, idx_t[0]]))
            kept = run_history(ctx, case, op, calls)
            if kept is None:
                return
            x = iarr(rng, (H, W)) + (1j * iarr(rng, (H, W)) if cplx else 0)
            xi = ints(x)
            for i in range(k):      # exact adjointness for EVERY kept result
                gi = [xi[j] for j in idxs[i].reshape(-1).tolist()]
                lhs = sum(a.conjugate() * b for a, b in zip(gi, ints(ps[i])))
                rhs = sum(a.conjugate() * b for a, b in zip(xi, ints(kept[i][0])))
                if lhs != rhs:
                    ctx.pred_fail(f"history-adjoint:{op}", f"<extract(x), p_{i + 1}> != <x, S(p_{i + 1})> for the kept result of call {i + 1} of {len(calls)}", case,
                                  observed=str(lhs), required=str(rhs))
            if psum is not None and [a + b for a, b in zip(ints(kept[0][0]), ints(kept[1][0]))] != ints(kept[-1][0]):
                ctx.pred_fail(f"history-additive:{op}", "S(p1) + S(p2) != S(p1 + p2) with all three results kept", case,
                              observed="mismatch", required="exact equality (integer-valued data)")
        else:
            objs = []
            for _ in range(k):
                a = iarr(rng, (2, H, W)) + (1j * iarr(rng, (2, H, W)) if cplx else 0)
                objs.append(rg(T(I, a if cplx else a.real / 4.0, tdt)))
            calls = [((lambda o=o, ix=ix: I.Obj._get_obj_patches(None, o, ix)), [o, ix]) for o, ix in zip(objs, idx_t[:k])]
            kept = run_history(ctx, case, op, calls)
            if kept is None:
                return
            for i in range(k):      # every kept result is still the gather of ITS object
                on = objs[i].detach().numpy()
                ref = (on if cplx else np.exp(1j * on.astype(np.float64))).reshape(2, -1)[:, idxs[i].reshape(-1)].reshape((2,) + idxs[i].shape)
                pred(ctx, f"history-gather:{op}", f"kept patches of call {i + 1} are no longer the gather of their object", case,
                     kept[i][0].detach().numpy(), ref, 0.0 if cplx else 1e-6, "history gather")
        return

    nr, nc = rng.choice(INST_SHAPES) if op in ("forward_operator", "overlap", "projection") else gen_shape(rng)
    case.update({"shape": [nr, nc]})
    f64 = rng.chance(0.5)
    rdt, cdt = (torch.float64, torch.complex128) if f64 else (torch.float32, torch.complex64)
    tol = TOL64 if f64 else TOL32
    ctx.mark(("history", op, f64, grad, k, psig(nr, nc)))
    ctx.dist[f"history.{op}.precision={'64' if f64 else '32'}"] += 1
    case.update({"float64": f64})

    if op == "translation":
        use_np = rng.chance(0.3) and not grad
        poss = [np.array([[dy(rng, -5, 5, 64), dy(rng, -5, 5, 64)]]) for _ in range(k)]
        ipos = rng.chance(0.3) and not grad
        if ipos:
            poss = [np.round(p) for p in poss]
        poss.append(poss[0] + poss[1])
        case.update({"int_positions": ipos})
        ins = [mkpos(I, p, "int64", use_np) if ipos else (p if use_np else rg(T(I, p, rdt))) for p in poss]
        kept = run_history(ctx, case, op, [((lambda p=p: I.pu.fourier_translation_operator(p, (nr, nc))), [p]) for p in ins])
        if kept is None:
            return
        tn = [np.asarray(o[0].detach().numpy() if hasattr(o[0], "detach") else o[0]) for o in kept]
        pred(ctx, "history-ramp-unit", "kept translation operators are not unit modulus", case, np.abs(np.stack(tn)), np.ones((k + 1, 1, nr, nc)), TOL32 if ipos else tol, "history |ramp|=1")
        pred(ctx, "history-ramp-additive", "T(s)*T(t) != T(s+t) with all three kept", case, tn[0] * tn[1], tn[-1], TOL32 if ipos else tol, "history ramp additivity")
        pred(ctx, "history-ramp-oracle", "kept translation operators != independent ramps", case, np.stack(tn)[:, 0], oracle_ramp(nr, nc, np.concatenate(poss)), TOL32, "history ramp vs oracle")
    elif op == "shift":
        use_np = rng.chance(0.3) and not grad
        xs = [carr(rng, (nr, nc)) for _ in range(k)]
        poss = [np.array([[dy(rng, -5, 5, 64), dy(rng, -5, 5, 64)]]) for _ in range(k)]
        xin = [x.astype(np.complex128 if f64 else np.complex64) if use_np else rg(T(I, x, cdt)) for x in xs]
        pin = [p.astype(np.float64 if f64 else np.float32) if use_np else T(I, p, rdt) for p in poss]
        kept = run_history(ctx, case, op, [((lambda x=x, p=p: I.pu.fourier_shift_expand(x, p)), [x, p]) for x, p in zip(xin, pin)])
        if kept is None:
            return
        for i in range(k):
            y = np.asarray(kept[i][0].detach().numpy() if hasattr(kept[i][0], "detach") else kept[i][0])
            pred(ctx, "history-shift-energy", f"kept shifted array of call {i + 1} lost its energy", case,
                 np.array([np.sum(np.abs(y) ** 2)]), np.array([np.sum(np.abs(xs[i]) ** 2)]), tol, "history shift energy")
            back = I.pu.fourier_shift_expand(kept[i][0], -pin[i])      # shifting the KEPT result back must give the input
            back = np.asarray(back.detach().numpy() if hasattr(back, "detach") else back)[0, 0]
            pred(ctx, "history-shift-inverse", f"shift(kept result of call {i + 1}, -s) != x", case, back, xs[i], tol, "history shift inverse")
    elif op == "propagators":
        sr, sc, energy, thr, thc = gen_physics(rng)
        d = [dy(rng, 1, 12, 8) for _ in range(k)]
        dzl = [[di] for di in d] + [[d[0] + d[1]]]
        kept = run_history(ctx, case, op, [((lambda z=z: impl_propagators(I, ctx, nr, nc, sr, sc, energy, thr, thc, 2, z)), []) for z in dzl])
        if kept is None:
            return
        pn = [o[0].detach().numpy().astype(np.complex128)[0] for o in kept]
        pred(ctx, "history-prop-unit", "kept propagators are not unit modulus", case, np.abs(np.stack(pn)), np.ones((k + 1, nr, nc)), 1e-5, "history |propagator|=1")
        pred(ctx, "history-prop-additive", "P(d1)*P(d2) != P(d1+d2) with all three kept", case, pn[0] * pn[1], pn[-1], TOL32, "history propagator additivity")
    elif op == "propagate":
        sr, sc, energy, thr, thc = gen_physics(rng)
        d1 = dy(rng, 1, 12, 8)
        Q = impl_propagators(I, ctx, nr, nc, sr, sc, energy, thr, thc, 3, [d1, -d1]).to(cdt)
        xs = [carr(rng, (2, nr, nc)) for _ in range(k)]
        xin = [rg(T(I, x, cdt)) for x in xs]
        which = rng.choice(["base", "obj"])
        f = (lambda a, q: I.Base._propagate_array(None, a, q)) if which == "base" else (lambda a, q: I.Obj._propagate_array(None, a, q))
        kept = run_history(ctx, case, op, [((lambda x=x: f(x, Q[0])), [x, Q]) for x in xin])
        if kept is None:
            return
        for i in range(k):
            back = f(kept[i][0], Q[1]).detach().numpy()
            pred(ctx, "history-prop-inverse", f"prop(kept result of call {i + 1}, -d) != a", case, back, xs[i], TOL32, "history propagation inverse")
    elif op in ("overlap", "forward_operator"):
        M = rng.randint(1, 3)
        B = rng.randint(1, 2)
        case.update({"modes": M})
        if op == "overlap":
            S = rng.randint(1, 3)
            sr, sc, energy, thr, thc = gen_physics(rng)
            props = impl_propagators(I, ctx, nr, nc, sr, sc, energy, thr, thc, S, [dy(rng, 1, 12, 8) for _ in range(S - 1)])
            st = ptycho_self(I, ctx, M, S, props)
            desc = [None] * k
        else:
            S = 1
            st = real_instance(ctx, M, (nr, nc))
            if st is None:
                return
            desc = [None if rng.chance(0.3) else T(I, np.array([[dy(rng, -2, 2, 64), dy(rng, -2, 2, 64)] for _ in range(B)]), rdt) for _ in range(k)]
        phis = [rarr(rng, (S, B, nr, nc), -3, 3, 64) for _ in range(k)]
        pats = [rg(T(I, np.exp(1j * ph), cdt)) for ph in phis]
        prbs = [rg(T(I, carr(rng, (M, B, nr, nc)), cdt)) for _ in range(k)]
        if op == "overlap":
            calls = [((lambda a=a, b=b: st.overlap_projection(a, b)), [a, b]) for a, b in zip(pats, prbs)]
        else:
            calls = [((lambda a=a, b=b, dsc=dsc: st.forward_operator(a, b, dsc)), [a, b] + ([dsc] if dsc is not None else [])) for a, b, dsc in zip(pats, prbs, desc)]
        kept = run_history(ctx, case, op, calls)
        if kept is None:
            return
        for i in range(k):      # pure-phase energy for EVERY kept exit wave
            ex = kept[i][1].detach().numpy().astype(np.complex128)
            pr = prbs[i].detach().numpy().astype(np.complex128)
            pred(ctx, f"history-purephase-energy:{op}", f"kept exit wave of call {i + 1} does not carry the probe intensity (pure-phase patches)", case,
                 np.sum(np.abs(ex) ** 2, axis=(0, 2, 3)), np.sum(np.abs(pr) ** 2, axis=(0, 2, 3)), 1e-5 if S > 1 else tol, "history pure-phase energy")
    elif op == "detector":
        M, B = rng.randint(1, 3), rng.randint(1, 2)
        ws = [carr(rng, (M, B, nr, nc)) for _ in range(k)]
        win = [rg(T(I, w, cdt)) for w in ws]
        det = I.Det()
        kept = run_history(ctx, case, op, [((lambda w=w: det.forward(w)), [w]) for w in win])
        if kept is None:
            return
        for i in range(k):
            pred(ctx, "history-detector-parseval", f"kept detector image of call {i + 1}: summed intensity != exit-wave intensity", case,
                 kept[i][0].detach().numpy().astype(np.float64).sum(axis=(1, 2)), np.sum(np.abs(ws[i]) ** 2, axis=(0, 2, 3)), tol, "history detector Parseval")
    elif op == "projection":
        M, B = rng.weighted([(1, 1), (2, 2), (3, 2)]), rng.randint(1, 2)
        case.update({"modes": M})
        st = real_instance(ctx, M) or ptycho_self(I, ctx, M, 1, None)
        As = [rarr(rng, (B, nr, nc), 0, 2) for _ in range(k)]
        for A in As:
            for i in range(A.size):
                if rng.chance(0.15):
                    A.reshape(-1)[i] = 0.0
        xs = [carr(rng, (M, B, nr, nc)) for _ in range(k)]
        Ain = [T(I, A, rdt) for A in As]
        xin = [rg(T(I, x, cdt)) for x in xs]
        which = rng.choice(["fourier_projection", "gradient_step"])
        case.update({"method": which})
        f = getattr(st, which)
        kept = run_history(ctx, case, f"{which}", [((lambda A=A, x=x: f(A, x)), [A, x]) for A, x in zip(Ain, xin)])
        if kept is None:
            return
        sk = "single" if M == 1 else "mixed"
        for i in range(k):      # exactness for EVERY kept projection
            P = kept[i][0].detach().numpy().astype(np.complex128)
            if which == "gradient_step":
                P = P + xs[i]
            good = np.ones_like(As[i], dtype=bool) if M == 1 else (oracle_amplitudes(xs[i]) != 0)
            pred(ctx, f"history-proj-exact:{sk}", f"kept projection of call {i + 1} no longer has the measured amplitudes", case,
                 np.where(good, oracle_amplitudes(P), As[i]), As[i], tol, f"history projection exactness {sk}")


STREAMS = {           # name: (function, quick count, thorough count)
    "gs": (s_gs, 250, 4000),
    "shiftint": (s_shiftint, 100, 1500),
    "shift": (s_shift, 130, 2000),
    "prop": (s_prop, 110, 2000),
    "forward": (s_forward, 110, 2000),
    "proj": (s_proj, 200, 3000),
    "instance": (s_instance, 50, 600),
    "history": (s_history, 130, 2500),
}


def run_case(ctx, drv, I, name, case):
    """one case; an exception that comes out of the real code on a valid input is a predicate
    failure with that input (never a harness crash); anything else is a harness bug and propagates"""
    fn = STREAMS[name][0]
    try:
        fn(ctx, drv, I, case)
    except Exception as e:   # noqa: BLE001
        if not raised_in_real_code(e):
            raise
        if isinstance(e, AttributeError) and "SimpleNamespace" in str(e):
            ctx.dist[f"stub-insufficient:{name}"] += 1      # bare stub (factory unavailable) lacks an attribute
            return
        import traceback
        where = [f"{fr.filename.split('/src/')[-1]}:{fr.lineno}" for fr in traceback.extract_tb(e.__traceback__) if "/quantem/" in fr.filename][-1:]
        ctx.pred_fail(f"raises:{name}:{type(e).__name__}", f"the real code raised on a valid input ({name} stream)", case,
                      observed=f"{type(e).__name__}: {str(e)[:200]} at {where}", required="no exception")


def run(ctx):
    from qv.driver import Driver
    I = _imports()
    I.torch.set_grad_enabled(False)
    _INST.clear()
    drv = Driver("C16")
    try:
        for name, (fn, nq, nt) in STREAMS.items():
            for i in range(ctx.n(nq, nt)):
                case = {"stream": name, "rseed": ctx.rng.next()}
                run_case(ctx, drv, I, name, case)
    finally:
        drv.close()
        I.torch.set_grad_enabled(True)
        _INST.clear()


def replay(ctx, rep):
    from qv.driver import Driver
    I = _imports()
    I.torch.set_grad_enabled(False)
    case = rep.get("case") or (rep.get("correspondence_disagreements") or rep.get("disagreements") or [{}])[0].get("case")
    if not case:
        return False
    _INST.clear()
    drv = Driver("C16")
    try:
        run_case(ctx, drv, I, case["stream"], {"stream": case["stream"], "rseed": case["rseed"]})
    finally:
        drv.close()
        I.torch.set_grad_enabled(True)
        _INST.clear()
    return True
