"""C16 — forward-model operator identities (energy, adjoint, projection).

Correspondence of Model/PtychoOps.lean (run at Int / Float by Driver/C16.lean) with the real
quantem operators, plus the property predicates evaluated on the real code with independent
NumPy / integer oracles (the failing-input search)."""
import types

import numpy as np

from props import c16_g6 as _g6

LEVEL = "proof"
EXTRA_PROPS = ["QuantemModel.Props.C16Ext"]   # growth 6: propagator stacks, composed / periodic integer shifts, translation-operator options
MANIFEST_ENTRY = {
    "category": "proof",
    "text": "Lean 4 theorems over an executable model (generic numeric carrier, defining DFT sums) of the ptychography forward-model operators: index_add scatter is the exact adjoint of patch gathering for every index list (repeats, wrap) - also for the model WITH torch's argument checks and the partial writes of index_add_ before an IndexError, in every history of accepted and rejected calls (adjoint_checked, adjoint_history, rejected_calls_erasable, scatter_checked_ok_iff); phase ramps and Fresnel kernels have unit modulus, compose additively and invert; Fourier shift and propagation preserve total intensity (Parseval for the modelled DFT, proved from root-of-unity orthogonality); integer shifts equal circular rolls; pure-phase multislice exit waves carry the probe's total intensity for any number of slices/modes, and back-transmitting / back-propagating them through the chain of ObjectPixelated.backward returns the entrance wave (backward_forward_identity); the Fourier magnitude projection is idempotent and returns exactly the measured amplitudes (single state everywhere incl. exactly vanishing Fourier coefficients, mixed state wherever the current far field is non-zero); reset_recon restores the object constraints after every history of accepted / rejected (partially written) constraint updates, and the class-level defaults never change (reset_restores_defaults, defaults_never_change, rejected_add_is_noop, reset_modulus_neutral). Every run ties the model to the code by exact integer streams (gather/scatter, integer shifts, call histories with raising calls, constraint-dictionary sessions) and float streams (translation operator, shift, propagators, propagation, multislice overlap, backward chain, detector, estimate_amplitudes/intensities, projection) and evaluates the identities on the real functions, on real Ptychography instances, over call histories with kept results, raising calls, in-place updated argument objects and reset/configure/reset sessions. Growth 6 (Props/C16Ext.lean, Model/PtychoOpsExt2.lean): propagator STACKS - every gap of a stack carries the single-gap kernel of its own thickness (stack_gap_eq_single, stack_gap_indep_of_stack), a run through a stack of arbitrary thicknesses is one propagation by their sum (stack_compose), preserves the intensity (stack_energy), does not depend on the order of the gaps (stack_perm), may be cut / merged anywhere (stack_append, stack_merge_block), is the identity when the thicknesses sum to zero ([d,-d]: stack_inverse, stack_d_minus_d), and IS the modelled overlap_projection through vacuum slices (overlap_vacuum_eq_stack, overlap_vacuum_compose); integer shifts compose to the roll by the sum and are periodic in each axis length separately (shift_int_compose, shift_int_periodic); expand_dim / dtype of the translation operator never change a value (translation_opt_values / _axes / _unit_add). Streams `stack` (genuine multislice Ptychography instances through the public API: kernels per gap, refresh after slice_thicknesses / tilt changes, learn_probe_tilt branch, two instances alive, >= 2 modes with >= 2 slices) and `geom` (non-square shapes both ways, shifts negative or >= axis length, patch windows wrapping at the last row / column, several sum_patches results alive, option combinations, call sequences with changing shape).",
    "note": "Trusted: Lean kernel + propext/Classical.choice/Quot.sound; torch/NumPy FFT assumed to compute the defining sums (exercised by every float case); IEEE rounding outside the theorems (measured: float32 fftfreq/complex64 propagators limit translation/propagation identities to ~1e-6, 5e-4 rule). Mixed-state exactness is undecidable at pixels whose current far field is exactly zero (code defines the output as 0 there); for a constant mixed-state exit wave idempotence is evaluated in the far field at the other pixels (the operator is discontinuous at far field = 0 and rounding refills exact zeros). Real-valued inputs of fourier_shift_expand (the `.real` branch) are covered by correspondence only - the property quantifies over complex arrays. Measured only: that modulus-neutral constraints (the gates of apply_hard_constraints, modelled as a predicate on the constraint dictionary) give unit-modulus patches - apply_hard_constraints itself belongs to C10's model; absence of hidden state / aliasing in the real code (history, rhist, session streams). fourier_translation_operator is additionally tied by a mechanical translator (harness/translator/ptychokernel2lean.py traces the NumPy branch of the current source on symbolic positions every run -> Generated/PtychoKernels.lean -> generated_table_eq_model / generated_eq_model / generated_axes_eq_model in Props/C16Ext.lean); _compute_propagator_arrays (torch-only code) is still tied by correspondence + independent oracles only. Growth 6: that the instance's kernels follow its CURRENT thicknesses / tilt (setter refresh, learn_probe_tilt branch) is measured by the `stack` stream on real instances, not proved (the Lean model is heap-free); the dtype= option is modelled as a value-preserving cast (its rounding is outside the theorems).",
    "technique": "Lean 4 proof (Finset sum rearrangement, roots of unity, induction on slices / call histories / constraint sessions) + model-vs-implementation correspondence",
}
RULE = ("a case is one generated input (or call history / session) pushed through the real operator(s) and the model; distinct non-trivial = distinct "
        "(stream, row parity, col parity, square?, #modes, #slices, index kind / shift kind / amplitude kind / value class / history kinds / session op sequence) "
        "with at least 1x1 pixels or a non-empty index list; the fixed blocks (proj 36, rhist 24, session 60, stack 6, geom 7 cases) are the same for every seed")
TRUSTED = ["torch.fft / numpy.fft compute the defining DFT sums; torch index_add_ (sequential accumulation, IndexError at the first index outside [0,n) after partial writes, RuntimeError on a length mismatch) and advanced indexing (negative indices wrap once) - modelled, sampled",
           "fourier_translation_operator evaluates `-2j*pi*fftfreq` in float32/complex64 even for float64 positions, propagators are complex64: integer-shift = roll and the propagation identities hold to float32 accuracy only (5e-4 rule; measured ~4e-6, values in `measured`)",
           "Python dict semantics of the constraint dictionaries (insertion order, key-by-key writes, KeyError after partial writes) - modelled, sampled by the session stream"]
ASSUMPTIONS = [
    "one model call handles one batch element; the batch/mode broadcasting of the torch code is exercised by the harness looping over the batch",
    "`self` of every Ptychography/Probe method is a real preprocessed Ptychography object from props/ptycho_tiny.py: bound calls where the instance fits (projection, forward_operator, detector, patches, reset_recon, constraints), and for multislice / arbitrary-physics cases an unbound call on a `Borrow` of a real instance that overrides only num_slices, _propagators (resp. roi_shape, probe_params, probe_tilt of the probe model); bare attribute stubs are used only if the factory itself fails (counted as self=bare-stub / stub-insufficient)",
    "PRIVATE helpers (_get_obj_patches, _propagate_array x2, _compute_propagator_arrays, obj_model._obj, _propagators) are resolved by name defensively: if a name is gone the entry-point sub-stream is skipped or served by a flagged public / definitional fallback (evidence: coverage.private_names_missing, dist skipped:private-name-gone:*); the public-API streams (sum_patches, fourier_shift_expand, fourier_translation_operator, overlap_projection, forward_operator, DetectorPixelated.forward, fourier_projection, gradient_step, estimate_*, reset_recon, constraints) stay authoritative",
    "public signatures / defaults of the anchored operators are pinned (listed parameters in order with their defaults; further parameters with defaults are tolerated)",
    "the `history` stream checks the no-hidden-state contract that the identities presuppose (results never change after they are returned, inputs are not modified, results of different calls do not share storage) by keeping the results of 2-4 same-shaped calls of every operator and re-evaluating the identities on ALL of them; the `rhist` stream does the same across calls that RAISE (index outside the grid after in-range entries, index set of a larger grid, negative index, length / shape mismatch) and across in-place updates of the same argument objects; the heap-free Lean model cannot express aliasing, so this part is measured only",
    "the `session` stream evaluates the energy clause only where the Lean session model says the constraints in force keep the modulus of a pure-phase object (after reset_recon, on a fresh model, or modulus-neutral settings); what a user-set blur / Butterworth filter does to the modulus is not C16's business",
    "the `stack` stream builds genuine multislice Ptychography objects with the public constructors (ObjectPixelated.from_uniform(num_slices, slice_thicknesses), ProbePixelated.from_array, Ptychography.from_models, preprocess) and reads / writes kernels only through the public `propagators`, `slice_thicknesses`, `compute_propagator_arrays`, `probe_tilt`, `learn_probe_tilt`; negative thicknesses ([d,-d]) exist only at the level of _compute_propagator_arrays / the `propagators` setter (the thickness setter rejects them); a kernel that is not the Fresnel kernel of the gap's CURRENT thickness / tilt is reported as a predicate failure (stack-kernel-current:*): the anchored state 'Fresnel kernels per slice gap' is read as 'of the gap as it is now'",
    "an exception that escapes the real code on a valid input is reported as a predicate failure (key raises:<stream>:<type>) with that input",
    "mixed-state exactness predicate is evaluated only at pixels whose input far field is not exactly zero",
    "negative flat indices: torch indexing wraps them, index_add_ rejects them - modelled (gatherChecked / indexAddSeq) and compared, but outside the stated domain of the adjoint clause",
]
EXPLANATION = ("Theorems in Props/C16.lean are about Model/PtychoOps.lean at the real-number instance; every run pushes the same inputs "
               "through the real torch/NumPy code and the Lean model (exactly on integers, to tolerance on floats) and evaluates each "
               "identity of the property on the real outputs.")

def pregenerate():
    """called by the runner before `lake build`: TRACE the current fourier_translation_operator of $QVERIF_REPO on symbolic
    positions and rewrite lean/QuantemModel/Generated/PtychoKernels.lean (frequency numerators per pixel, inserted unit axes);
    Props/C16Ext.lean proves generated = model (generated_table_eq_model, generated_eq_model, generated_axes_eq_model).
    A construct the tracer cannot follow comes back as a note (the last good file stays); never raises."""
    try:
        from translator import ptychokernel2lean
        return ptychokernel2lean.regenerate()
    except Exception as e:   # noqa: BLE001
        return f"ptychokernel2lean unavailable: {type(e).__name__}: {str(e)[:120]}"


TOL64 = 1e-9     # float64 paths
TOL32 = 5e-4     # paths where the library forces float32 / complex64


# ----------------------------------------------------------------------------- helpers
def _imports():
    import torch
    from quantem.diffractive_imaging import ptycho_utils as pu
    from quantem.diffractive_imaging.detector_models import DetectorPixelated
    from quantem.diffractive_imaging.object_models import ObjectBase
    from quantem.diffractive_imaging.probe_models import ProbeBase
    from quantem.diffractive_imaging.ptychography import Ptychography
    from quantem.diffractive_imaging.ptychography_base import PtychographyBase
    from quantem.core.utils.utils import electron_wavelength_angstrom
    return types.SimpleNamespace(torch=torch, pu=pu, Det=DetectorPixelated, Obj=ObjectBase, Probe=ProbeBase,
                                 Pty=Ptychography, Base=PtychographyBase, wl=electron_wavelength_angstrom)


# private helpers the harness reaches by NAME: a harmless refactoring may rename / inline / move them.  They are
# resolved defensively: a missing name never crashes or alarms; the entry-point sub-stream is skipped (or served by an
# explicitly flagged public / definitional fallback) and the fact is written into the evidence.
PRIVATE_NAMES = {"ObjectBase._get_obj_patches": ("Obj", "_get_obj_patches"),
                 "PtychographyBase._propagate_array": ("Base", "_propagate_array"),
                 "ObjectBase._propagate_array": ("Obj", "_propagate_array"),
                 "ProbeBase._compute_propagator_arrays": ("Probe", "_compute_propagator_arrays")}


def resolve_private(I, ctx):
    I.priv = {}
    missing = []
    for key, (owner, name) in PRIVATE_NAMES.items():
        f = getattr(getattr(I, owner), name, None)
        I.priv[key] = f if callable(f) else None
        if I.priv[key] is None:
            missing.append(key)
    ctx.extra["private_names_missing"] = missing
    ctx.extra["private_names_resolved"] = sorted(k for k in I.priv if I.priv[k] is not None)
    return I


def skip_private(ctx, what):
    ctx.dist[f"skipped:private-name-gone:{what}"] += 1


def get_patches(I, ctx, obj_t, idx_t):
    """ObjectBase._get_obj_patches; if that private helper is gone: the definitional extraction (flagged)"""
    f = I.priv["ObjectBase._get_obj_patches"]
    if f is not None:
        return f(None, obj_t, idx_t)
    skip_private(ctx, "ObjectBase._get_obj_patches->definitional-gather")
    o2 = obj_t if obj_t.is_complex() else I.torch.exp(1.0j * obj_t)
    return o2.reshape(o2.shape[0], -1)[:, idx_t.long()]


def propagate_base(I, ctx, a, q):
    """PtychographyBase._propagate_array; None if that private helper is gone"""
    f = I.priv["PtychographyBase._propagate_array"]
    if f is None:
        skip_private(ctx, "PtychographyBase._propagate_array")
        return None
    return f(None, a, q)


def f2b(x):
    from qv.driver import f2b as _f
    return _f(x)


def b2f(x):
    from qv.driver import b2f as _b
    return _b(x)


def enc_rows(x):
    return [[f2b(v) for v in row] for row in np.asarray(x, dtype=np.float64).tolist()]


def dec_rows(j):
    return np.array([[b2f(v) for v in r] for r in j], dtype=np.float64).reshape(len(j), -1)


def enc_img(x):
    x = np.asarray(x, dtype=np.complex128)
    return {"re": enc_rows(x.real), "im": enc_rows(x.imag)}


def dec_img(j):
    return dec_rows(j["re"]) + 1j * dec_rows(j["im"])


def enc_flat(x):
    x = np.asarray(x, dtype=np.complex128).reshape(-1)
    return {"re": [f2b(v) for v in x.real.tolist()], "im": [f2b(v) for v in x.imag.tolist()]}


def dec_flat(j):
    return np.array([b2f(v) for v in j["re"]]) + 1j * np.array([b2f(v) for v in j["im"]])


def dy(rng, lo, hi, den=16):
    """dyadic rational in [lo, hi] (exactly representable)"""
    return rng.randint(int(lo * den), int(hi * den)) / den


def carr(rng, shape, amp=2.0, den=16):
    n = int(np.prod(shape))
    re = np.array([dy(rng, -amp, amp, den) for _ in range(n)])
    im = np.array([dy(rng, -amp, amp, den) for _ in range(n)])
    return (re + 1j * im).reshape(shape)


VALUE_KINDS = [("random", 8), ("zeros", 1), ("neg-zeros", 1), ("constant", 1), ("delta", 1), ("real-only", 1)]


def carr_kind(rng, shape, kind, amp=2.0):
    """complex array of a structural value class (the last two axes are the image): exact zeros, -0.0, one constant,
    a single non-zero pixel, purely real -- the classes on which `x or default`, sgn(0), 0/0 and friends differ"""
    if kind == "random":
        return carr(rng, shape, amp)
    x = np.zeros(shape, dtype=np.complex128)
    if kind == "neg-zeros":
        x = x - 0.0 - 0.0j
        x.real[...] = -0.0
        x.imag[...] = -0.0
    elif kind == "constant":
        x[...] = carr(rng, shape[:-2] + (1, 1), amp)
        x[x == 0] = 1.0
    elif kind == "delta":
        flat = x.reshape(-1, shape[-2] * shape[-1])
        for i in range(flat.shape[0]):
            flat[i, rng.below(flat.shape[1])] = complex(dy(rng, 0.25, amp), dy(rng, -amp, amp))
    elif kind == "real-only":
        x = carr(rng, shape, amp).real + 0j
    return x


def rarr(rng, shape, lo=0.0, hi=2.0, den=16):
    n = int(np.prod(shape))
    return np.array([dy(rng, lo, hi, den) for _ in range(n)], dtype=np.float64).reshape(shape)


def iarr(rng, shape, lo=-9, hi=9):
    n = int(np.prod(shape))
    return np.array([rng.randint(lo, hi) for _ in range(n)], dtype=np.int64).reshape(shape)


def gen_shape(rng):
    k = rng.weighted([("any", 6), ("square", 1), ("oddodd", 1), ("eveneven", 1), ("oddeven", 1), ("pow2", 1), ("tiny", 1)])
    nr, nc = rng.randint(3, 12), rng.randint(3, 12)
    if k == "pow2":
        return rng.choice([4, 8]), rng.choice([4, 8])
    if k == "tiny":      # degenerate axes: length 1 or 2 (fftfreq = [0] / [0, -1/2], fftshift = identity / swap, broadcasting of length-1 axes)
        a, b = rng.choice([1, 2]), rng.choice([1, 2, 3, 5])
        return (a, b) if rng.chance(0.5) else (b, a)
    if k == "square":
        nc = nr
    elif k == "oddodd":
        nr, nc = nr | 1, nc | 1
    elif k == "eveneven":
        nr, nc = (nr + 1) & ~1, (nc + 1) & ~1
    elif k == "oddeven":
        nr, nc = nr | 1, (nc + 1) & ~1
    nr, nc = min(nr, 12) if nr != 13 else 11, min(nc, 12) if nc != 13 else 11
    return nr, nc


def psig(nr, nc):
    return ("o" if nr % 2 else "e") + ("o" if nc % 2 else "e") + ("=" if nr == nc else "#")


def maxabs(a):
    a = np.asarray(a)
    return float(np.max(np.abs(a))) if a.size else 0.0


def dist(model, impl):
    """(absolute distance, scale) of the DESIGN §3 rule"""
    model, impl = np.asarray(model), np.asarray(impl)
    if model.shape != impl.shape:
        return float("inf"), 1.0
    if model.size == 0:
        return 0.0, 1.0
    return float(np.max(np.abs(impl - model))), max(1.0, maxabs(model))


def corr(ctx, stream, case, model, impl, tol, note=""):
    d, s = dist(model, impl)
    ctx.stat_max(f"corr_reldist[{stream}]", d / s)
    if not (d <= tol * s):
        ctx.disagree(stream, case, {"max": maxabs(model), "shape": list(np.shape(model))},
                     {"max": maxabs(impl), "shape": list(np.shape(impl))}, f"{note} |impl-model|={d:.3g} > {tol:g}*{s:.3g}")
        return False
    return True


def pred(ctx, key, what, case, lhs, rhs, tol, stat):
    """identity lhs == rhs on implementation outputs, |lhs-rhs| <= tol*max(1,max|rhs|)"""
    d, s = dist(rhs, lhs)
    ctx.stat_max(f"pred_reldist[{stat}]", d / s)
    if not (d <= tol * s):
        ctx.pred_fail(key, what, case, observed=f"max|lhs-rhs|={d:.4g} (scale {s:.3g})", required=f"<= {tol:g}*scale")
        return False
    return True


def ask(drv, obj):
    r = drv.ask(obj)
    if "ok" not in r and r.get("err") != "IndexError":
        raise RuntimeError(f"driver error {r} on op {obj.get('op')}")
    return r


POS_KINDS = ["float64", "float32", "int32", "int64"]     # python lists are rejected by the clean code (TypeError): outside the domain


def mkpos(I, a, kind, use_np):
    """a shift / position argument in the drawn dtype and container (numpy array or torch tensor)"""
    arr = np.asarray(a).astype(kind)
    return arr if use_np else I.torch.tensor(arr)


def oracle_ramp(nr, nc, pos):
    """independent float64 phase ramp exp(-2 pi i (k_r r + k_c c)), shape (B, nr, nc)"""
    pos = np.asarray(pos, dtype=np.float64).reshape(-1, 2)
    kr, kc = np.fft.fftfreq(nr), np.fft.fftfreq(nc)
    return np.exp(-2j * np.pi * (kr[None, :, None] * pos[:, 0, None, None] + kc[None, None, :] * pos[:, 1, None, None]))


def oracle_shift(x, pos):
    """independent Fourier shift of x (..., nr, nc) by every row of pos -> (B, ..., nr, nc)"""
    x = np.asarray(x, dtype=np.complex128)
    ramp = oracle_ramp(x.shape[-2], x.shape[-1], pos)
    ramp = ramp.reshape((ramp.shape[0],) + (1,) * (x.ndim - 2) + ramp.shape[1:])
    return np.fft.ifft2(np.fft.fft2(x)[None] * ramp)


def oracle_wavelength(E):
    """relativistic electron wavelength in Angstrom (independent float64 evaluation, same constants as utils.py)"""
    import math
    m, e, c, h = 9.109383e-31, 1.602177e-19, 299792458.0, 6.62607e-34
    return h / math.sqrt(2 * m * e * E * (1 + e * E / (2 * m * c * c))) * 1e10


def oracle_propagator(nr, nc, sr, sc, energy, dz, thr, thc):
    """independent float64 Fresnel kernel  exp(-i pi lam dz |k|^2) * exp(-2 pi i dz (k_r tan(theta_r) + k_c tan(theta_c))),
    theta in mrad, k = fftfreq(n, sampling): the tilt term is ODD in k, so evaluating the kernel at -k is visible"""
    kr, kc = np.fft.fftfreq(nr, sr)[:, None], np.fft.fftfreq(nc, sc)[None, :]
    lam = oracle_wavelength(energy)
    return (np.exp(-1j * np.pi * lam * dz * (kr ** 2 + kc ** 2))
            * np.exp(-2j * np.pi * dz * (kr * np.tan(thr / 1e3) + kc * np.tan(thc / 1e3))))


def oracle_propagate(a, K):
    """independent propagation: ifft2(fft2(a) * K) with NumPy's FFT"""
    return np.fft.ifft2(np.fft.fft2(np.asarray(a, dtype=np.complex128)) * K)


def propagate_entry_points(I, ctx):
    """every entry point of the propagation operator in the anchored files"""
    eps = {}
    for key in ("PtychographyBase._propagate_array", "ObjectBase._propagate_array"):
        if I.priv[key] is not None:
            eps[key] = (lambda a, q, f=I.priv[key]: f(None, a, q))
        else:
            skip_private(ctx, key)
    p = real_instance(ctx, 1)
    if p is not None:
        for nm, owner in (("Ptychography()._propagate_array", p), ("ObjectPixelated()._propagate_array", p.obj_model)):
            f = getattr(owner, "_propagate_array", None)
            if callable(f):
                eps[nm] = f
            else:
                skip_private(ctx, nm)
    return eps


def T(I, a, dtype=None):
    return I.torch.tensor(np.asarray(a), dtype=dtype)


# ----------------------------------------------------------------------------- `self` for unbound calls
class Borrow:
    """`self` for an unbound call of a real method: every attribute comes from a REAL object
    (a preprocessed tiny Ptychography / its probe model) except the few that are overridden, so a
    refactor that merely reads another attribute of `self` keeps working."""

    def __init__(self, real, **over):
        object.__setattr__(self, "_real", real)
        object.__setattr__(self, "_over", over)

    def __getattr__(self, name):
        over = object.__getattribute__(self, "_over")
        if name in over:
            return over[name]
        real = object.__getattribute__(self, "_real")
        v = getattr(real, name)
        if getattr(v, "__self__", None) is real and hasattr(v, "__func__"):
            return types.MethodType(v.__func__, self)      # methods see the overrides too
        return v


class StubInsufficient(Exception):
    pass


class PrivateGone(Exception):
    """a private name this sub-stream depends on no longer exists: the case is skipped with a note"""


_INST = {}


def real_instance(ctx, M, roi=(8, 8), obj_type="complex", cache=True, seed=0, rng_seed=1, scan=(2, 2)):
    """a real preprocessed Ptychography (props/ptycho_tiny.py) with M probe modes; None if the factory fails"""
    import warnings
    from props import ptycho_tiny as pt
    key = (M, tuple(roi), obj_type)
    if cache and key in _INST:
        return _INST[key]
    try:
        with warnings.catch_warnings():
            warnings.simplefilter("ignore")
            p = pt.make_ptycho(scan=scan, roi=tuple(roi), seed=seed, rng_seed=rng_seed, num_probes=M, obj_type=obj_type)
    except Exception as e:   # noqa: BLE001  (factory, not the operators under test)
        ctx.dist[f"factory-failed:{type(e).__name__}"] += 1
        p = None
    if cache:
        _INST[key] = p
    return p


def probe_self(I, ctx, roi_shape, energy, tilt):
    over = dict(roi_shape=np.array(roi_shape), device="cpu", probe_params={"energy": energy},
                probe_tilt=I.torch.tensor(tilt, dtype=I.torch.float32))
    p = real_instance(ctx, 1)
    if p is None:
        ctx.dist["self=bare-stub"] += 1
        return types.SimpleNamespace(**over)
    return Borrow(p.probe_model, **over)


def ptycho_self(I, ctx, num_probes, num_slices, propagators):
    """`self` for PtychographyBase/Ptychography methods: a real instance with `num_probes` modes,
    with num_slices/_propagators overridden (the factory builds single-slice objects)"""
    p = real_instance(ctx, num_probes)
    if p is None:
        ctx.dist["self=bare-stub"] += 1
        s = types.SimpleNamespace(num_probes=num_probes, num_slices=num_slices, _propagators=propagators)
        if I.priv["PtychographyBase._propagate_array"] is not None:
            s._propagate_array = lambda a, q: I.priv["PtychographyBase._propagate_array"](s, a, q)
        s.estimate_amplitudes = lambda *a, **k: I.Base.estimate_amplitudes(s, *a, **k)
        s.fourier_projection = lambda *a, **k: I.Pty.fourier_projection(s, *a, **k)
        s.overlap_projection = lambda *a, **k: I.Base.overlap_projection(s, *a, **k)
        s.gradient_step = lambda *a, **k: I.Pty.gradient_step(s, *a, **k)
        return s
    if num_slices > 1 and not hasattr(p, "_propagators"):
        # the multislice cases override the private attribute `_propagators` of a single-slice instance
        skip_private(ctx, "Ptychography()._propagators")
        raise PrivateGone("_propagators")
    b = Borrow(p, num_slices=num_slices, _propagators=propagators)
    over = object.__getattribute__(b, "_over")
    # methods that the methods under test call on `self` must see the overrides too
    if I.priv["PtychographyBase._propagate_array"] is not None:
        over["_propagate_array"] = lambda a, q: I.priv["PtychographyBase._propagate_array"](b, a, q)
    over["overlap_projection"] = lambda *a, **k: I.Base.overlap_projection(b, *a, **k)
    over["estimate_amplitudes"] = lambda *a, **k: I.Base.estimate_amplitudes(b, *a, **k)
    over["fourier_projection"] = lambda *a, **k: I.Pty.fourier_projection(b, *a, **k)
    return b


def raised_in_real_code(exc):
    """True if the traceback passes through the quantem tree under test"""
    import os
    import traceback
    root = os.path.join(os.path.realpath(os.environ.get("QVERIF_REPO", "/repo")), "src") + os.sep
    return any(os.path.realpath(fr.filename).startswith(root) for fr in traceback.extract_tb(exc.__traceback__))


def impl_propagators(I, ctx, nr, nc, sr, sc, energy, thr, thc, num_slices, dzs):
    st = probe_self(I, ctx, (nr, nc), energy, (thr, thc))
    f = I.priv["ProbeBase._compute_propagator_arrays"]
    if f is not None:
        return f(st, (sr, sc), num_slices, np.asarray(dzs, dtype=np.float64))
    # private helper gone: the public instance-level entry point PtychographyBase.compute_propagator_arrays
    skip_private(ctx, "ProbeBase._compute_propagator_arrays->public-compute_propagator_arrays")
    pinst = real_instance(ctx, 1)
    if pinst is None:
        raise PrivateGone("_compute_propagator_arrays")
    bself = Borrow(pinst, probe_model=st, sampling=np.array([sr, sc]), num_slices=num_slices,
                   slice_thicknesses=np.asarray(dzs, dtype=np.float64), roi_shape=np.array([nr, nc]))
    I.Base.compute_propagator_arrays(bself)
    return bself.propagators


def gen_physics(rng):
    sr, sc = dy(rng, 0.15, 0.5, 64), dy(rng, 0.15, 0.5, 64)
    energy = rng.choice([60e3, 80e3, 120e3, 200e3, 300e3]) if rng.chance(0.6) else float(rng.randint(60, 300)) * 1e3
    thr = 0.0 if rng.chance(0.4) else dy(rng, -30, 30, 8)
    thc = 0.0 if rng.chance(0.4) else dy(rng, -30, 30, 8)
    if thr == 0.0 and rng.chance(0.1):
        thr = 0.0
    return sr, sc, energy, thr, thc


def model_propagators(drv, nr, nc, sr, sc, energy, thr, thc, num_slices, dzs):
    r = ask(drv, {"op": "propagators", "nr": nr, "nc": nc, "sr": f2b(sr), "sc": f2b(sc), "energy": f2b(energy),
                  "thr": f2b(thr), "thc": f2b(thc), "num_slices": num_slices, "dz": [f2b(d) for d in dzs]})["ok"]
    return [dec_img(j) for j in r]


# ----------------------------------------------------------------------------- stream: gather / scatter (exact)
def wrap_indices(rng, H, W, B, r, c):
    fr = np.fft.fftfreq(r, 1 / r).astype(np.int64)
    fc = np.fft.fftfreq(c, 1 / c).astype(np.int64)
    out = []
    for _ in range(B):
        r0, c0 = rng.randint(0, H - 1), rng.randint(0, W - 1)
        rows = (r0 + fr) % H
        cols = (c0 + fc) % W
        out.append(rows[:, None] * W + cols[None, :])
    return np.stack(out).astype(np.int64)


def s_gs(ctx, drv, I, case):
    from qv.prng import Rng
    torch = I.torch
    rng = Rng(case["rseed"])
    H, W, S = rng.randint(2, 8), rng.randint(2, 8), rng.randint(1, 3)
    n = H * W
    B, r, c = rng.randint(1, 3), rng.randint(1, 6), rng.randint(1, 6)
    kind = rng.weighted([("wrap", 5), ("random", 3), ("const", 1), ("perm", 1)])
    if kind == "wrap":
        idx = wrap_indices(rng, H, W, B, r, c)
    elif kind == "random":
        idx = iarr(rng, (B, r, c), 0, n - 1)
    elif kind == "const":
        idx = np.full((B, r, c), rng.randint(0, n - 1), dtype=np.int64)
    else:
        idx = np.array(rng.shuffle(list(range(n))), dtype=np.int64).reshape(1, H, W)
    bad = rng.chance(0.07)
    if bad:
        flat = idx.reshape(-1)
        flat[rng.below(flat.size)] = n + rng.randint(0, 3)
        idx = flat.reshape(idx.shape)
    itype = rng.choice(["int32", "int64"])
    obj = iarr(rng, (S, H, W)) + 1j * iarr(rng, (S, H, W))
    p = iarr(rng, idx.shape) + 1j * iarr(rng, idx.shape)
    case.update({"H": H, "W": W, "S": S, "idx_kind": kind, "idx_shape": list(idx.shape), "bad_index": bad, "itype": itype})
    ctx.dist[f"gs.idx={kind}"] += 1
    ctx.dist[f"gs.bad={bad}"] += 1
    repeats = len(set(idx.reshape(-1).tolist())) < idx.size
    ctx.dist[f"gs.repeats={repeats}"] += 1
    ctx.count()
    ctx.mark(("gs", kind, bad, repeats, S, H == W))
    idx_t = T(I, idx, getattr(torch, itype))
    idxl = idx.reshape(-1).tolist()
    # ---- gather: ObjectBase._get_obj_patches (complex branch), exact on integer-valued complex128
    try:
        g = get_patches(I, ctx, T(I, obj, torch.complex128), idx_t).numpy()
        g_err = None
    except Exception as e:   # noqa: BLE001
        g, g_err = None, "IndexError"
    for part, name in ((np.real, "re"), (np.imag, "im")):
        for s in range(S):
            m = ask(drv, {"op": "gather_int", "obj": part(obj[s]).astype(np.int64).reshape(-1).tolist(), "idx": idxl})
            if "err" in m or g_err:
                if ("err" in m) != bool(g_err):
                    ctx.disagree("gather-int", case, m, g_err or "ok", "error behaviour differs")
                continue
            impl = part(g[s]).reshape(-1)
            if not np.array_equal(impl, np.round(impl)) or impl.astype(np.int64).tolist() != m["ok"]:
                ctx.disagree("gather-int", case, m["ok"][:20], impl.tolist()[:20], f"slice {s} {name}")
    # ---- scatter: sum_patches (complex: re/im separately) and sum_patches_base on int64
    try:
        sc_ = I.pu.sum_patches(T(I, p, torch.complex128), idx_t, (H, W)).numpy()
        sb = I.pu.sum_patches_base(T(I, p.real.astype(np.int64)), idx_t, (H, W)).numpy()
        s_err = None
    except Exception as e:   # noqa: BLE001
        sc_, sb, s_err = None, None, "IndexError"
    mre = ask(drv, {"op": "scatter_int", "n": n, "patches": p.real.astype(np.int64).reshape(-1).tolist(), "idx": idxl})
    mim = ask(drv, {"op": "scatter_int", "n": n, "patches": p.imag.astype(np.int64).reshape(-1).tolist(), "idx": idxl})
    if "err" in mre or s_err:
        if ("err" in mre) != bool(s_err):
            ctx.disagree("scatter-int", case, mre, s_err or "ok", "error behaviour differs")
    else:
        if sc_.real.reshape(-1).tolist() != [float(v) for v in mre["ok"]] or sc_.imag.reshape(-1).tolist() != [float(v) for v in mim["ok"]]:
            ctx.disagree("scatter-int", case, {"re": [float(v) for v in mre["ok"][:24]], "im": [float(v) for v in mim["ok"][:24]]},
                         {"re": sc_.real.reshape(-1).tolist()[:24], "im": sc_.imag.reshape(-1).tolist()[:24]}, "sum_patches complex")
        if sb.reshape(-1).tolist() != mre["ok"]:
            ctx.disagree("scatter-int", case, mre["ok"][:20], sb.reshape(-1).tolist()[:20], "sum_patches_base int64")
        # float model of the complex path (re/im scattered separately)
        mf = ask(drv, {"op": "sum_patches_cx", "n": n, "patches": enc_flat(p), "idx": idxl})
        if not np.array_equal(dec_flat(mf["ok"]), sc_.reshape(-1)):
            ctx.disagree("scatter-cx", case, str(dec_flat(mf["ok"])[:12].tolist()), str(sc_.reshape(-1)[:12].tolist()), "sum_patches_cx float model differs")
    if g_err or s_err:
        ctx.dist["gs.error-cases"] += 1
        if not bad:
            ctx.pred_fail("gs-raises-on-valid", "gather/scatter raised on valid indices", case, observed=g_err or s_err, required="no error")
        return
    # float model of _get_obj_patches (must be bit-exact: pure data movement)
    mg = ask(drv, {"op": "get_patches", "obj": [enc_flat(obj[s]) for s in range(S)], "idx": idxl})["ok"]
    for s in range(S):
        if not np.array_equal(dec_flat(mg[s]), g[s].reshape(-1)):
            ctx.disagree("gather-cx", case, str(dec_flat(mg[s])[:12].tolist()), str(g[s].reshape(-1)[:12].tolist()), f"get_patches float model differs in slice {s}")
    # ---- property predicate: exact adjointness in integer arithmetic, per slice
    def cint(a):
        a = np.asarray(a).reshape(-1)
        return [complex(int(round(z.real)), int(round(z.imag))) for z in a]
    pi_, si_ = cint(p), cint(sc_)
    for s in range(S):
        gi, oi = cint(g[s]), cint(obj[s])
        lhs = sum(a.conjugate() * b for a, b in zip(gi, pi_))
        rhs = sum(a.conjugate() * b for a, b in zip(oi, si_))
        lhs2 = sum(a * b for a, b in zip(gi, pi_))
        rhs2 = sum(a * b for a, b in zip(oi, si_))
        if lhs != rhs or lhs2 != rhs2:
            ctx.pred_fail(f"adjoint:{kind}", "<gather(o,idx),p> != <o,scatter(p,idx)> (exact integers)", case,
                          observed=str((lhs, lhs2)), required=str((rhs, rhs2)))
    ctx.sample({k: case[k] for k in ("stream", "rseed", "H", "W", "S", "idx_kind", "idx_shape")}, limit=1)


# ----------------------------------------------------------------------------- stream: integer shifts = roll (exact model)
def s_shiftint(ctx, drv, I, case):
    from qv.prng import Rng
    torch = I.torch
    rng = Rng(case["rseed"])
    nr, nc = gen_shape(rng)
    sr = rng.weighted([(0, 1), (rng.randint(-2 * nr, 2 * nr), 5), (nr, 1), (-1, 1)])
    sc = rng.weighted([(0, 1), (rng.randint(-2 * nc, 2 * nc), 5), (-nc, 1), (1, 1)])
    x = iarr(rng, (nr, nc), -8, 8) + 1j * iarr(rng, (nr, nc), -8, 8)
    use_np = rng.chance(0.25)
    real_in = rng.chance(0.3)     # real dtype: the `.real` branch of fourier_shift_expand
    if real_in:
        x = x.real + 0j
    pkind = rng.choice(POS_KINDS)     # dtype of the shift vector: whole-pixel shifts are naturally integer-typed
    case.update({"shape": [nr, nc], "shift": [sr, sc], "numpy_branch": use_np, "real_input": real_in, "pos_dtype": pkind})
    ctx.count()
    ctx.mark(("shiftint", psig(nr, nc), sr % nr == 0, sc % nc == 0, sr < 0, sc < 0, use_np, real_in, pkind))
    ctx.dist[f"shiftint.parity={psig(nr, nc)}"] += 1
    ctx.dist[f"shiftint.real_input={real_in}"] += 1
    ctx.dist[f"shiftint.pos={'numpy' if use_np else 'torch'}.{pkind}"] += 1
    pos = mkpos(I, [[sr, sc]], pkind, use_np)
    if use_np:
        impl = I.pu.fourier_shift_expand(x.real.astype(np.float64) if real_in else x.astype(np.complex128), pos)[0]
    else:
        impl = I.pu.fourier_shift_expand(T(I, x.real, torch.float64) if real_in else T(I, x, torch.complex128), pos)[0].numpy()
    # the translation operator itself against an independent ramp, and additivity against the independent ramp of a+b
    br, bc = rng.randint(-nr, nr), rng.randint(-nc, nc)
    pos_b = mkpos(I, [[br, bc]], pkind, use_np)
    ta = np.asarray(I.pu.fourier_translation_operator(pos, (nr, nc)))
    tb = np.asarray(I.pu.fourier_translation_operator(pos_b, (nr, nc)))
    tab = np.asarray(I.pu.fourier_translation_operator(pos + pos_b, (nr, nc)))
    pred(ctx, f"ramp-int-oracle:{pkind}", "translation operator of an integer shift != exp(-2 pi i k s) (independent oracle)", case, ta, oracle_ramp(nr, nc, [[sr, sc]]), TOL32, "int ramp vs oracle")
    pred(ctx, f"ramp-int-additive:{pkind}", "T(a)*T(b) != independent ramp of a+b (integer shifts)", case, ta * tb, oracle_ramp(nr, nc, [[sr + br, sc + bc]]), TOL32, "int ramp additivity vs oracle")
    pred(ctx, f"ramp-int-sum:{pkind}", "T(a+b) != independent ramp of a+b (integer shifts)", case, tab, oracle_ramp(nr, nc, [[sr + br, sc + bc]]), TOL32, "int ramp of sum vs oracle")
    if real_in and np.iscomplexobj(impl):
        ctx.disagree("shift-int", case, "real", "complex", "real input must give a real result")
    mre = ask(drv, {"op": "roll_int", "x": x.real.astype(np.int64).tolist(), "sr": sr, "sc": sc})["ok"]
    mim = ask(drv, {"op": "roll_int", "x": x.imag.astype(np.int64).tolist(), "sr": sr, "sc": sc})["ok"]
    model = np.array(mre) + 1j * np.array(mim)
    oracle = np.roll(x, (sr, sc), axis=(0, 1))
    if not np.array_equal(model, oracle):
        ctx.disagree("roll-int", case, np.array(mre).tolist(), oracle.real.tolist(), "model roll2 != np.roll")
    if not np.array_equal(np.round(impl.real) + 1j * np.round(impl.imag), model):
        ctx.disagree("shift-int", case, np.array(mre).tolist(), np.round(impl.real).tolist(), "rounded fourier_shift_expand != model roll")
    # NB: not sharper for power-of-two sizes either: `-2j*pi*kr` is evaluated in complex64 (pi rounded to float32)
    pred(ctx, f"shift-int-roll:{'real' if real_in else 'complex'}:{pkind}", "integer Fourier shift is not the circular roll", case, impl, oracle,
         TOL32, "shift-int=roll (complex64 phase ramp)")
    ctx.sample({k: case[k] for k in ("stream", "rseed", "shape", "shift", "real_input", "pos_dtype")}, limit=2)


# ----------------------------------------------------------------------------- stream: translation operator + sub-pixel shift
def gen_pos(rng):
    k = rng.weighted([("frac", 6), ("int", 1), ("zero", 1), ("half", 1), ("tiny", 1)])
    if k == "frac":
        return dy(rng, -6, 6, 64), k
    if k == "int":
        return float(rng.randint(-5, 5)), k
    if k == "zero":
        return 0.0, k
    if k == "half":
        return rng.randint(-4, 4) + 0.5, k
    return dy(rng, -1, 1, 4096) / 64, k


def s_shift(ctx, drv, I, case):
    from qv.prng import Rng
    torch = I.torch
    rng = Rng(case["rseed"])
    nr, nc = gen_shape(rng)
    B = rng.randint(1, 3)
    M = rng.weighted([(0, 2), (1, 1), (2, 1), (3, 1)])    # 0: plain 2-D array, else stack of M
    pos, kinds = [], []
    for _ in range(B):
        (r, kr_), (c, kc_) = gen_pos(rng), gen_pos(rng)
        pos.append([r, c])
        kinds.append(kr_ + "/" + kc_)
    pos = np.array(pos, dtype=np.float64)
    tpos = np.array([[gen_pos(rng)[0], gen_pos(rng)[0]]], dtype=np.float64)
    real_in = rng.chance(0.15)
    use_np = rng.chance(0.2)
    pkind = rng.weighted([("float64", 5), ("float32", 2), ("int32", 1), ("int64", 1)])
    if pkind.startswith("int"):     # integer-typed position arrays hold whole-pixel shifts
        pos, tpos = np.round(pos), np.round(tpos)
        kinds = ["int/int"] * B
    tolp = TOL64 if pkind == "float64" else TOL32      # float32 / integer positions give a complex64 ramp
    ctx.dist[f"shift.pos={'numpy' if use_np else 'torch'}.{pkind}"] += 1
    shape = (nr, nc) if M == 0 else (M, nr, nc)
    vkind = rng.weighted(VALUE_KINDS)
    x = rarr(rng, shape, -2, 2) if real_in else carr_kind(rng, shape, vkind)
    ctx.dist[f"shift.values={'real' if real_in else vkind}"] += 1
    case.update({"values": vkind})
    case.update({"shape": list(shape), "positions": pos.tolist(), "second_shift": tpos.tolist(), "real_input": real_in, "numpy_branch": use_np, "pos_dtype": pkind})
    ctx.count()
    ctx.mark(("shift", psig(nr, nc), M, real_in, use_np, kinds[0], pkind))
    ctx.dist[f"shift.parity={psig(nr, nc)}"] += 1
    ctx.dist[f"shift.modes={M}"] += 1
    ctx.dist[f"shift.real_input={real_in}"] += 1
    for k in kinds:
        ctx.dist[f"shift.pos={k}"] += 1
    conv = (lambda a, dt=None: np.asarray(a)) if use_np else (lambda a, dt=None: T(I, a, dt))
    back = (lambda a: np.asarray(a)) if use_np else (lambda a: a.numpy())
    # ---- translation operator
    P = lambda a: mkpos(I, a, pkind, use_np)      # noqa: E731  positions in the drawn dtype / container
    top = back(I.pu.fourier_translation_operator(P(pos), shape))
    want_shape = (B,) + (1,) * (len(shape) - 2) + (nr, nc)
    if top.shape != want_shape:
        ctx.disagree("translation-operator", case, list(want_shape), list(top.shape), "shape")
        return
    top2 = top.reshape(B, nr, nc)
    for b in range(B):
        m = dec_img(ask(drv, {"op": "translation_operator", "nr": nr, "nc": nc, "r": f2b(pos[b, 0]), "c": f2b(pos[b, 1])})["ok"])
        corr(ctx, "translation-operator", case, m, top2[b], TOL32)
    pred(ctx, "ramp-unit-modulus", "|translation operator| != 1", case, np.abs(top2), np.ones_like(top2.real), tolp, "|ramp|=1")
    tt = back(I.pu.fourier_translation_operator(P(tpos), shape)).reshape(1, nr, nc)
    tsum = back(I.pu.fourier_translation_operator(P(pos) + P(tpos), shape)).reshape(B, nr, nc)
    pred(ctx, "ramp-additive", "T(s)*T(t) != T(s+t)", case, top2 * tt, tsum, tolp, "ramp additivity")
    # the same against an independently computed ramp (not against the operator itself)
    pred(ctx, f"ramp-oracle:{pkind}", "translation operator != exp(-2 pi i (k_r r + k_c c)) (independent oracle)", case, top2, oracle_ramp(nr, nc, pos), TOL32, "ramp vs oracle")
    pred(ctx, f"ramp-additive-oracle:{pkind}", "T(s)*T(t) != independent ramp of s+t", case, top2 * tt, oracle_ramp(nr, nc, pos + tpos), TOL32, "ramp additivity vs oracle")
    # ---- fourier_shift_expand
    xin = conv(x, torch.float64 if real_in else torch.complex128)
    y = back(I.pu.fourier_shift_expand(xin, P(pos)))
    if y.shape != (B,) + tuple(shape):
        ctx.disagree("fourier-shift", case, [B] + list(shape), list(y.shape), "shape")
        return
    xs = x.reshape((-1, nr, nc))
    ys = y.reshape((B, -1, nr, nc))
    for b in range(B):
        for m_ in range(xs.shape[0]):
            if real_in:
                mo = dec_rows(ask(drv, {"op": "fourier_shift_real", "x": enc_rows(xs[m_]), "r": f2b(pos[b, 0]), "c": f2b(pos[b, 1])})["ok"])
            else:
                mo = dec_img(ask(drv, {"op": "fourier_shift", "x": enc_img(xs[m_]), "r": f2b(pos[b, 0]), "c": f2b(pos[b, 1])})["ok"])
            corr(ctx, "fourier-shift" + ("-real" if real_in else ""), case, mo, ys[b, m_], TOL32)
    osh = oracle_shift(x, pos)
    pred(ctx, f"shift-oracle:{pkind}", "fourier_shift_expand != independently computed Fourier shift", case, y, osh.real if real_in else osh, TOL32, "shift vs oracle")
    if real_in:
        return      # the property quantifies over complex arrays; `.real` branch: correspondence + oracle only
    e0 = np.sum(np.abs(xs) ** 2, axis=(-2, -1))
    e1 = np.sum(np.abs(ys) ** 2, axis=(-2, -1))
    pred(ctx, f"shift-energy:{psig(nr, nc)}", "sub-pixel Fourier shift changes total intensity", case, e1, np.broadcast_to(e0, e1.shape), tolp, "shift energy")
    # additivity: shift the b-th result by t, compare with one shift by s+t and with the independent shift by s+t
    for b in range(B):
        yb = conv(y[b], torch.complex128)
        y2 = back(I.pu.fourier_shift_expand(yb, P(tpos)))[0]
        y12 = back(I.pu.fourier_shift_expand(xin, P(pos[b:b + 1]) + P(tpos)))[0]
        pred(ctx, f"shift-additive:{psig(nr, nc)}", "shift(shift(x,s),t) != shift(x,s+t)", case, y2, y12, tolp, "shift additivity")
        pred(ctx, f"shift-additive-oracle:{pkind}", "shift(shift(x,s),t) != independent shift by s+t", case, y2, oracle_shift(x, pos[b:b + 1] + tpos)[0], TOL32, "shift additivity vs oracle")
    ctx.sample({k: case[k] for k in ("stream", "rseed", "shape", "positions")}, limit=3)


# ----------------------------------------------------------------------------- stream: propagators + propagation
def s_prop(ctx, drv, I, case):
    from qv.prng import Rng
    torch = I.torch
    rng = Rng(case["rseed"])
    nr, nc = gen_shape(rng)
    sr, sc, energy, thr, thc = gen_physics(rng)
    S = rng.randint(1, 4)
    dzs = [dy(rng, 1, 20, 8) for _ in range(S - 1)]
    d1, d2 = dy(rng, 1, 20, 8), dy(rng, 1, 20, 8)
    case.update({"shape": [nr, nc], "sampling": [sr, sc], "energy": energy, "tilt": [thr, thc], "num_slices": S, "dz": dzs, "d1d2": [d1, d2]})
    ctx.count()
    ctx.mark(("prop", psig(nr, nc), S, thr != 0, thc != 0))
    ctx.dist[f"prop.slices={S}"] += 1
    ctx.dist[f"prop.tilt_r={'0' if thr == 0 else 'nz'},tilt_c={'0' if thc == 0 else 'nz'}"] += 1
    ctx.dist[f"prop.parity={psig(nr, nc)}"] += 1
    # wavelength
    mw = b2f(ask(drv, {"op": "wavelength", "energy": f2b(energy)})["ok"])
    corr(ctx, "wavelength", case, np.array([mw]), np.array([I.wl(energy)]), TOL64)
    # the call as the reconstruction makes it
    P = impl_propagators(I, ctx, nr, nc, sr, sc, energy, thr, thc, S, dzs)
    mP = model_propagators(drv, nr, nc, sr, sc, energy, thr, thc, S, dzs)
    if S == 1:
        if P.numel() != 0 or mP != []:
            ctx.disagree("propagators", case, len(mP), list(P.shape), "num_slices == 1 must give an empty tensor")
    else:
        Pn = P.numpy()
        if Pn.shape != (S - 1, nr, nc):
            ctx.disagree("propagators", case, [S - 1, nr, nc], list(Pn.shape), "shape")
            return
        for s in range(S - 1):
            corr(ctx, "propagators", case, mP[s], Pn[s], TOL32)
    # identities: thickness list [d1, d2, d1+d2, -d1]
    dl = [d1, d2, d1 + d2, -d1]
    Q = impl_propagators(I, ctx, nr, nc, sr, sc, energy, thr, thc, 5, dl).numpy().astype(np.complex128)
    mQ = model_propagators(drv, nr, nc, sr, sc, energy, thr, thc, 5, dl)
    for s in range(4):
        corr(ctx, "propagators", case, mQ[s], Q[s], TOL32, note=f"dz={dl[s]}")
    pred(ctx, "prop-unit-modulus", "|propagator| != 1 for real dz", case, np.abs(Q), np.ones_like(Q.real), 1e-5, "|propagator|=1 (complex64)")
    pred(ctx, "prop-kernel-additive", "P(d1)*P(d2) != P(d1+d2)", case, Q[0] * Q[1], Q[2], TOL32, "propagator additivity (complex64)")
    pred(ctx, "prop-kernel-inverse", "P(d)*P(-d) != 1", case, Q[0] * Q[3], np.ones_like(Q[0]), TOL32, "propagator inverse (complex64)")
    # every kernel (tilted / untilted, dz > 0 and dz < 0) against the independent float64 kernel, through both kernel entry points
    OK = np.stack([oracle_propagator(nr, nc, sr, sc, energy, d, thr, thc) for d in dl])
    pred(ctx, "prop-kernel-oracle:ProbeBase._compute_propagator_arrays", "propagator != independent Fresnel kernel (incl. tilt term, negative dz)", case, Q, OK, TOL32, "propagator vs oracle kernel")
    pinst = real_instance(ctx, 1)
    if pinst is not None:      # PtychographyBase.compute_propagator_arrays: the instance-level entry point
        bself = Borrow(pinst, probe_model=probe_self(I, ctx, (nr, nc), energy, (thr, thc)), sampling=np.array([sr, sc]), num_slices=5,
                       slice_thicknesses=np.asarray(dl, dtype=np.float64))
        I.Base.compute_propagator_arrays(bself)
        Q2 = np.asarray(bself.propagators).astype(np.complex128)
        pred(ctx, "prop-kernel-oracle:PtychographyBase.compute_propagator_arrays", "instance-level propagators != independent Fresnel kernel", case, Q2, OK, TOL32, "propagator vs oracle kernel (instance entry)")
    # propagation of arrays with the real kernels
    M, B = rng.randint(1, 2), rng.randint(1, 2)
    vkind = rng.weighted(VALUE_KINDS)
    a = carr_kind(rng, (M, B, nr, nc), vkind)
    ctx.dist[f"prop.values={vkind}"] += 1
    case.update({"values": vkind})
    at = T(I, a, torch.complex128)
    Qt = [T(I, Q[s], torch.complex128) for s in range(4)]
    # every entry point of the propagation operator against the independent ifft2(fft2(a)*K), for P(d) and P(-d)
    eps = propagate_entry_points(I, ctx)
    fwd = {}
    for name, f in eps.items():
        for s_, lab in ((0, "d"), (3, "-d")):
            out = f(at.clone(), Qt[s_].clone()).numpy()
            pred(ctx, f"propagate-oracle:{name}", f"{name}(a, P({lab})) != independent ifft2(fft2(a)*P)", case, out, oracle_propagate(a, Q[s_]), TOL64, "propagate entry points vs oracle")
            if s_ == 0:
                fwd[name] = out
    names = sorted(eps)
    for n1 in names:          # P(d) through one entry point, P(-d) through another = identity
        for n2 in names:
            if n1 != n2:
                back_ = eps[n2](T(I, fwd[n1], torch.complex128), Qt[3].clone()).numpy()
                pred(ctx, f"propagate-cross-inverse:{n2}", f"{n2}({n1}(a, P(d)), P(-d)) != a", case, back_, a, TOL32, "cross-entry-point inverse propagation")
    ctx.dist[f"prop.entry_points={len(eps)}"] += 1
    # the identities below go through PtychographyBase._propagate_array; if that private name is gone, through any
    # surviving entry point of the operator; if none is left the part is skipped (overlap_projection, public, is
    # compared with an independent multislice oracle in the `forward` stream in any case)
    prop1 = (lambda a_, q_: propagate_base(I, ctx, a_, q_)) if I.priv["PtychographyBase._propagate_array"] is not None else (eps[names[0]] if names else None)
    if prop1 is None:
        skip_private(ctx, "prop.identities:no-propagation-entry-point")
        return
    p1 = prop1(at, Qt[0])
    p1n = p1.numpy()
    for m_ in range(M):
        for b in range(B):
            mo = dec_img(ask(drv, {"op": "propagate", "a": enc_img(a[m_, b]), "p": enc_img(Q[0])})["ok"])
            corr(ctx, "propagate", case, mo, p1n[m_, b], TOL64)
    e0 = np.sum(np.abs(a) ** 2, axis=(-2, -1))
    e1 = np.sum(np.abs(p1n) ** 2, axis=(-2, -1))
    pred(ctx, f"prop-energy:{psig(nr, nc)}", "propagation changes total intensity", case, e1, e0, 1e-5, "propagation energy (complex64 kernel)")
    p12 = prop1(p1, Qt[1]).numpy()
    p3 = prop1(at, Qt[2]).numpy()
    pred(ctx, f"prop-additive:{psig(nr, nc)}", "prop(prop(a,d1),d2) != prop(a,d1+d2)", case, p12, p3, TOL32, "propagation additivity (complex64 kernel)")
    pinv = prop1(p1, Qt[3]).numpy()
    pred(ctx, f"prop-inverse:{psig(nr, nc)}", "prop(prop(a,d),-d) != a", case, pinv, a, TOL32, "propagation inverse (complex64 kernel)")
    ctx.sample({k: case[k] for k in ("stream", "rseed", "shape", "sampling", "energy", "tilt", "num_slices", "dz")}, limit=4)


# ----------------------------------------------------------------------------- stream: multislice overlap, detector, pure-phase energy
def s_forward(ctx, drv, I, case):
    from qv.prng import Rng
    torch = I.torch
    rng = Rng(case["rseed"])
    nr, nc = gen_shape(rng)
    S, M, B = rng.randint(1, 4), rng.randint(1, 3), rng.randint(1, 2)
    sr, sc, energy, thr, thc = gen_physics(rng)
    dzs = [dy(rng, 1, 20, 8) for _ in range(S - 1)]
    H, W = rng.randint(max(2, nr - 3), nr + 4), rng.randint(max(2, nc - 3), nc + 4)
    purephase = rng.chance(0.6)
    real_obj = purephase and rng.chance(0.5)
    case.update({"shape": [nr, nc], "obj_shape": [H, W], "slices": S, "modes": M, "batch": B, "sampling": [sr, sc], "energy": energy,
                 "tilt": [thr, thc], "dz": dzs, "pure_phase": purephase, "real_object": real_obj})
    ctx.count()
    ctx.mark(("forward", psig(nr, nc), S, M, purephase, real_obj))
    ctx.dist[f"forward.slices={S}"] += 1
    ctx.dist[f"forward.modes={M}"] += 1
    ctx.dist[f"forward.parity={psig(nr, nc)}"] += 1
    ctx.dist[f"forward.pure_phase={purephase}"] += 1
    idx = wrap_indices(rng, H, W, B, nr, nc)
    idxl = idx.reshape(B, -1).tolist()
    if purephase:
        phi = rarr(rng, (S, H, W), -3, 3, 64)
        obj = phi if real_obj else np.exp(1j * phi)
    else:
        obj = carr(rng, (S, H, W), 1.0)
        if rng.chance(0.6):      # absorbing object: |O| <= 1 (dyadic scaling keeps the data exact)
            obj = obj / 2.0
    probe = carr(rng, (M, nr, nc))
    fract = np.array([[dy(rng, -0.5, 0.5, 64), dy(rng, -0.5, 0.5, 64)] for _ in range(B)])
    # --- the real pipeline pieces, in the order of Ptychography.reconstruct
    obj_t = T(I, obj, torch.float64 if real_obj else torch.complex128)
    patches = get_patches(I, ctx, obj_t, T(I, idx, torch.int64))          # (S,B,nr,nc)
    shifted = I.pu.fourier_shift_expand(T(I, probe, torch.complex128), T(I, fract, torch.float64)).swapaxes(0, 1)   # (M,B,nr,nc)
    props = impl_propagators(I, ctx, nr, nc, sr, sc, energy, thr, thc, S, dzs)
    st = ptycho_self(I, ctx, M, S, props)
    pp, overlap = I.Base.overlap_projection(st, patches, shifted)
    inten = I.Det().forward(overlap)                                                 # (B,nr,nc)
    pn, sn, ppn, on, inn = patches.numpy(), shifted.numpy(), pp.numpy(), overlap.numpy(), inten.numpy()
    if ppn.shape != (S, M, B, nr, nc) or on.shape != (M, B, nr, nc) or inn.shape != (B, nr, nc):
        ctx.disagree("overlap-projection", case, [[S, M, B, nr, nc], [M, B, nr, nc], [B, nr, nc]],
                     [list(ppn.shape), list(on.shape), list(inn.shape)], "shapes")
        return
    propsn = props.numpy().astype(np.complex128) if S > 1 else np.zeros((0, nr, nc), dtype=np.complex128)
    flat = obj.reshape(S, -1)
    for b in range(B):
        # model patches
        if real_obj:
            mp = ask(drv, {"op": "get_patches_real", "obj": enc_rows(flat), "idx": idxl[b]})["ok"]
        else:
            mp = ask(drv, {"op": "get_patches", "obj": [enc_flat(flat[s]) for s in range(S)], "idx": idxl[b]})["ok"]
        mpatch = [dec_flat(j).reshape(nr, nc) for j in mp]
        for s in range(S):
            corr(ctx, "get-obj-patches", case, mpatch[s], pn[s, b], TOL64)
        r = ask(drv, {"op": "overlap_projection", "patches": [enc_img(pn[s, b]) for s in range(S)],
                      "props": [enc_img(propsn[s]) for s in range(S - 1)], "probes": [enc_img(sn[m_, b]) for m_ in range(M)]})["ok"]
        for m_ in range(M):
            corr(ctx, "overlap-projection", case, dec_img(r["overlap"][m_]), on[m_, b], TOL64, note="exit wave")
            if len(r["prop"][m_]) != S:
                ctx.disagree("overlap-projection", case, len(r["prop"][m_]), S, "number of propagated probes")
                continue
            for s in range(S):
                corr(ctx, "overlap-projection", case, dec_img(r["prop"][m_][s]), ppn[s, m_, b], TOL64, note=f"propagated probe slice {s}")
        md = dec_rows(ask(drv, {"op": "detector", "waves": [enc_img(on[m_, b]) for m_ in range(M)]})["ok"])
        corr(ctx, "detector", case, md, inn[b], TOL64)
    # --- independent multislice oracle (NumPy loop, the implementation's own complex64 kernels)
    ex = pn[0][None] * sn
    for s_ in range(1, S):
        ex = pn[s_][None] * oracle_propagate(ex, propsn[s_ - 1])
    pred(ctx, "overlap-oracle", "overlap_projection exit wave != independent multislice loop", case, on, ex, TOL64, "exit wave vs oracle multislice")
    # --- ObjectPixelated.backward (the object-model entry point of the propagation operator): for pure-phase patches
    #     back-transmitting / back-propagating the exit wave must return the entrance wave (the shifted probes)
    pobj = real_instance(ctx, 1)
    if pobj is not None and not hasattr(pobj.obj_model, "_obj"):
        skip_private(ctx, "ObjectPixelated()._obj (backward)")
    elif pobj is not None:
        oself = Borrow(pobj.obj_model, _obj=torch.nn.Parameter(torch.zeros((S, H, W), dtype=torch.complex128)), num_slices=S, obj_type="complex")
        if I.priv["ObjectBase._propagate_array"] is not None:
            oself._over["_propagate_array"] = lambda a_, q_: I.priv["ObjectBase._propagate_array"](oself, a_, q_)
        from quantem.diffractive_imaging.object_models import ObjectPixelated
        back_ = ObjectPixelated.backward(oself, overlap.clone(), patches.clone(), pp.clone(), props.clone() if S > 1 else props, T(I, idx, torch.int64)).numpy()
        # the returned gradient against the model's back-transmit / back-propagate chain (Props.backward_forward_identity)
        for b in range(B):
            for m_ in range(M):
                mb = dec_img(ask(drv, {"op": "backward_gradient", "patches": [enc_img(pn[s, b]) for s in range(S)],
                                       "props": [enc_img(propsn[s]) for s in range(S - 1)], "g": enc_img(on[m_, b])})["ok"])
                corr(ctx, "backward-gradient", case, mb, back_[m_, b], TOL64)
        if purephase:
            pred(ctx, f"backward-identity:S{'1' if S == 1 else 'n'}", "ObjectPixelated.backward(exit wave) != entrance wave (pure-phase object: forward then backward is the identity)", case,
                 back_, sn, TOL64 if S == 1 else TOL32, "forward-then-backward identity")
            ctx.dist["forward.backward_identity_checked"] += 1
    # --- predicates
    tot_exit = np.sum(np.abs(on) ** 2, axis=(0, 2, 3))
    pred(ctx, f"detector-parseval:{psig(nr, nc)}", "summed detector intensity != total exit-wave intensity", case, inn.sum(axis=(1, 2)), tot_exit, TOL64, "detector Parseval")
    if not purephase and maxabs(pn) <= 1.0:      # Props.absorbing_energy_le: |O| <= 1 can only remove intensity
        ctx.dist["forward.absorbing_bound_checked"] += 1
        ptot = np.sum(np.abs(probe) ** 2)
        excess = np.maximum(inn.sum(axis=(1, 2)) - ptot, 0.0)
        pred(ctx, "absorbing-energy-le", "summed predicted intensity exceeds the probe intensity for an absorbing object (|O| <= 1)", case,
             excess, np.zeros(B), 1e-5 * max(1.0, ptot), "absorbing object: intensity excess over probe")
    if purephase:
        amp = np.abs(pn)
        pred(ctx, "pure-phase-patches", "patches of a pure-phase object are not unit modulus", case, amp, np.ones_like(amp), TOL64, "|obj patch|=1")
        ptot = np.sum(np.abs(probe) ** 2)
        tol = TOL64 if S == 1 else 1e-5
        pred(ctx, f"purephase-energy:S{'1' if S == 1 else 'n'}:{psig(nr, nc)}", "summed predicted diffraction intensity != probe total intensity (pure-phase object)",
             case, inn.sum(axis=(1, 2)), np.full(B, ptot), tol, "pure-phase energy S=1" if S == 1 else "pure-phase energy S>1 (complex64 kernels)")
    ctx.sample({k: case[k] for k in ("stream", "rseed", "shape", "obj_shape", "slices", "modes", "batch", "pure_phase", "real_object")}, limit=5)


# ----------------------------------------------------------------------------- stream: Fourier projection
PROJ_FIXED_OKINDS = ["all-zero", "neg-zero", "constant", "delta", "real-only", "zero-mode"]


def oracle_amplitudes(P):
    """independent oracle of what the detector sees: fftshift(sqrt(sum_modes |fft2_ortho|^2)); P: (M,B,nr,nc)"""
    F = np.fft.fft2(P, norm="ortho")
    return np.fft.fftshift(np.sqrt(np.sum(np.abs(F) ** 2, axis=0)), axes=(-2, -1))


def s_proj(ctx, drv, I, case):
    from qv.prng import Rng
    torch = I.torch
    rng = Rng(case["rseed"])
    nr, nc = gen_shape(rng)
    M, B = rng.weighted([(1, 4), (2, 3), (3, 2)]), rng.randint(1, 2)
    scale = rng.weighted([(1.0, 5), (2.0 ** -10, 2), (2.0 ** -20, 1), (2.0 ** -30, 1)])
    akind = rng.weighted([("random", 4), ("random+zeros", 4), ("from-wave", 2), ("all-zero", 1)])
    okind = rng.weighted([("random", 8), ("zero-mode", 1), ("all-zero", 1), ("neg-zero", 1), ("constant", 1), ("delta", 1), ("real-only", 1)])
    fx = case.get("fixed")
    if fx is not None:      # fixed block: every structural exit-wave class x {single, mixed} x {random amplitudes, amplitudes with zeros, all-zero}
        okind = PROJ_FIXED_OKINDS[fx % len(PROJ_FIXED_OKINDS)]
        M = [1, 2][(fx // len(PROJ_FIXED_OKINDS)) % 2]
        akind = ["random", "random+zeros", "all-zero"][(fx // (2 * len(PROJ_FIXED_OKINDS))) % 3]
    x = carr(rng, (M, B, nr, nc)) * scale
    if okind == "zero-mode" and M > 1:
        x[rng.below(M)] = 0
    elif okind == "all-zero":
        x[:] = 0
    elif okind in ("neg-zero", "constant", "delta", "real-only"):
        # exactly vanishing Fourier coefficients (all of them / all but DC), a flat far field, a Hermitian far field
        x = carr_kind(rng, (M, B, nr, nc), {"neg-zero": "neg-zeros"}.get(okind, okind)) * scale
    # a constant exit wave has exactly-zero (or rounding-level) non-DC coefficients: their phase is not defined, so the
    # model-vs-implementation comparison is ill-conditioned there; the property predicates do not depend on that phase
    illcond = okind == "constant"
    if akind == "from-wave":
        A = oracle_amplitudes(carr(rng, (M, B, nr, nc)))
    elif akind == "all-zero":
        A = np.zeros((B, nr, nc))
    else:
        A = rarr(rng, (B, nr, nc), 0, 2)
        if akind == "random+zeros":
            for i in range(A.size):
                if rng.chance(0.2):
                    A.reshape(-1)[i] = 0.0
    sk = "single" if M == 1 else "mixed"
    case.update({"shape": [nr, nc], "modes": M, "batch": B, "overlap_scale": scale, "amp_kind": akind, "overlap_kind": okind})
    if case.get("fixed") is not None:
        ctx.dist["proj.fixed_block"] += 1
    ctx.count()
    ctx.mark(("proj", psig(nr, nc), M, akind, okind, scale))
    ctx.dist[f"proj.modes={M}"] += 1
    ctx.dist[f"proj.parity={psig(nr, nc)}"] += 1
    ctx.dist[f"proj.amp={akind}"] += 1
    ctx.dist[f"proj.overlap={okind},scale=2^{int(np.log2(scale))}"] += 1
    # bound methods of a real M-mode Ptychography instance (bare stub only if the factory is unavailable)
    st = real_instance(ctx, M) or ptycho_self(I, ctx, M, 1, None)
    At, xt = T(I, A, torch.float64), T(I, x, torch.complex128)
    P = st.fourier_projection(At.clone(), xt.clone())
    G = st.gradient_step(At.clone(), xt.clone())
    Pn, Gn = P.numpy(), G.numpy()
    if Pn.shape != x.shape:
        ctx.disagree("fourier-projection", case, list(x.shape), list(Pn.shape), "shape")
        return
    for b in range(B):
        waves = [enc_img(x[m_, b]) for m_ in range(M)]
        mp = ask(drv, {"op": "fourier_projection", "num_probes": M, "A": enc_rows(A[b]), "waves": waves})["ok"]
        mg = ask(drv, {"op": "gradient_step", "num_probes": M, "A": enc_rows(A[b]), "waves": waves})["ok"]
        for m_ in range(M):
            if illcond:
                ctx.dist["proj.corr_skipped_illconditioned"] += 1
                continue
            corr(ctx, f"fourier-projection-{sk}", case, dec_img(mp[m_]), Pn[m_, b], TOL64)
            corr(ctx, f"gradient-step-{sk}", case, dec_img(mg[m_]), Gn[m_, b], TOL64)
    # estimate_amplitudes (eps = 1e-9 inside; used by the loss path, no longer by the projection)
    cc = rng.chance(0.5)
    ea = st.estimate_amplitudes(xt.clone(), corner_centered=cc).numpy()
    for b in range(B):
        me = dec_rows(ask(drv, {"op": "estimate_amplitudes", "waves": [enc_img(x[m_, b]) for m_ in range(M)], "corner": cc})["ok"])
        corr(ctx, "estimate-amplitudes", case, me, ea[b], TOL64)
    ei = getattr(st, "estimate_intensities", None)
    if callable(ei):
        ein = ei(xt.clone()).numpy()
        for b in range(B):
            mi = dec_rows(ask(drv, {"op": "estimate_intensities", "waves": [enc_img(x[m_, b]) for m_ in range(M)]})["ok"])
            corr(ctx, "estimate-intensities", case, mi, ein[b], TOL64)
        pred(ctx, "estimate-intensities-parseval", "summed estimate_intensities != total exit-wave intensity", case,
             ein.sum(axis=(1, 2)), np.sum(np.abs(x) ** 2, axis=(0, 2, 3)), TOL64, "estimate_intensities Parseval")
    # --- predicates on the implementation
    obs = oracle_amplitudes(Pn)
    ff_in = oracle_amplitudes(x)
    good = np.ones_like(A, dtype=bool) if M == 1 else (ff_in != 0)
    ctx.dist[f"proj.pixels_excluded_zero_farfield={'some' if not good.all() else 'none'}"] += 1
    par = psig(nr, nc)[:2]
    key_par = "odd" if "o" in par else "even"
    pred(ctx, f"proj-exact:{sk}:{key_par}", "Fourier projection does not return the measured amplitudes (detector convention)", case,
         np.where(good, obs, A), A, TOL64, f"projection exactness {sk}")
    det = np.sqrt(I.Det().forward(P).numpy())
    pred(ctx, f"proj-exact-detector:{sk}:{key_par}", "sqrt(DetectorPixelated.forward(projection)) != measured amplitudes", case,
         np.where(good, det, A), A, TOL64, f"projection exactness via detector {sk}")
    P2 = st.fourier_projection(At.clone(), P.clone()).numpy()
    if illcond and M > 1:
        # mixed state, constant exit wave: the far field vanishes EXACTLY at some non-DC pixels (the code defines the output as
        # 0 there) and is rounding noise at others; after one projection the exact zeros are refilled by rounding noise of the
        # FFT round trip, and the operator is discontinuous at far field = 0 (ill-conditioned point, DESIGN s.3): idempotence is
        # evaluated in the far field at the pixels whose input far field is not exactly zero, plus finiteness everywhere
        gm = np.fft.ifftshift(good, axes=(-2, -1))[None]
        F1, F2 = np.fft.fft2(Pn, norm="ortho"), np.fft.fft2(P2, norm="ortho")
        pred(ctx, f"proj-idempotent-farfield:{sk}:{key_par}", "Fourier projection is not idempotent (far field, pixels with non-vanishing input far field)", case,
             np.where(gm, F2, 0), np.where(gm, F1, 0), TOL64, f"projection idempotence {sk} (constant exit wave)")
        if not (np.isfinite(P2).all() and np.isfinite(Pn).all()):
            ctx.pred_fail(f"proj-finite:{sk}", "Fourier projection produced NaN / inf", case, observed="non-finite values", required="finite")
    else:
        pred(ctx, f"proj-idempotent:{sk}:{key_par}", "Fourier projection is not idempotent", case, P2, Pn, TOL64, f"projection idempotence {sk}")
    ctx.sample({k: case[k] for k in ("stream", "rseed", "shape", "modes", "batch", "overlap_scale", "amp_kind", "overlap_kind")}, limit=6)


# ----------------------------------------------------------------------------- stream: bound methods of a real Ptychography instance
INST_SHAPES = [(9, 9), (8, 11), (8, 8), (7, 10), (11, 8), (5, 5), (6, 4), (4, 7), (12, 9), (3, 6)]


def s_instance(ctx, drv, I, case):
    """the operators called as bound methods of a real (tiny) Ptychography object built by
    props/ptycho_tiny.py, for all three object types: projection (single + mixed state, odd / even /
    non-square ROI), the dataset's own patch indices (wrap-around, repeats), and the real forward
    path obj_model.forward -> probe_model.forward -> forward_operator(descan) -> detector_model.forward"""
    from qv.prng import Rng
    torch = I.torch
    rng = Rng(case["rseed"])
    nr, nc = rng.choice(INST_SHAPES) if rng.chance(0.7) else (rng.randint(3, 12), rng.randint(3, 12))
    M = rng.weighted([(1, 2), (2, 3), (3, 3)])
    obj_type = rng.choice(["complex", "pure_phase", "potential"])
    dkind = rng.weighted([("none", 1), ("zero", 1), ("nonzero", 3)])
    scan = (rng.randint(2, 3), rng.randint(2, 3))
    case.update({"shape": [nr, nc], "modes": M, "scan": list(scan), "obj_type": obj_type, "descan": dkind})
    ctx.count()
    ctx.mark(("instance", psig(nr, nc), M, obj_type, dkind))
    ctx.dist[f"instance.modes={M}"] += 1
    ctx.dist[f"instance.parity={psig(nr, nc)}"] += 1
    ctx.dist[f"instance.obj_type={obj_type},descan={dkind}"] += 1
    p = real_instance(ctx, M, (nr, nc), obj_type, cache=False, seed=rng.randint(0, 50), rng_seed=rng.randint(0, 50), scan=scan)
    if p is None:
        return
    if int(p.num_probes) != M or tuple(int(v) for v in p.roi_shape) != (nr, nc):
        ctx.disagree("instance", case, [M, nr, nc], [int(p.num_probes)] + [int(v) for v in p.roi_shape], "factory geometry")
        return
    sk = "single" if M == 1 else "mixed"
    key_par = "odd" if "o" in psig(nr, nc)[:2] else "even"
    # ---- (a) projection through the bound method, float64 data
    B = rng.randint(1, 2)
    x = carr(rng, (M, B, nr, nc)) * rng.choice([1.0, 2.0 ** -10])
    A = rarr(rng, (B, nr, nc), 0, 2)
    for i in range(A.size):
        if rng.chance(0.15):
            A.reshape(-1)[i] = 0.0
    At, xt = T(I, A, torch.float64), T(I, x, torch.complex128)
    P = p.fourier_projection(At.clone(), xt.clone())
    G = p.gradient_step(At.clone(), xt.clone())
    Pn = P.numpy()
    for b in range(B):
        waves = [enc_img(x[m_, b]) for m_ in range(M)]
        mp = ask(drv, {"op": "fourier_projection", "num_probes": M, "A": enc_rows(A[b]), "waves": waves})["ok"]
        mg = ask(drv, {"op": "gradient_step", "num_probes": M, "A": enc_rows(A[b]), "waves": waves})["ok"]
        for m_ in range(M):
            corr(ctx, f"instance-fourier-projection-{sk}", case, dec_img(mp[m_]), Pn[m_, b], TOL64)
            corr(ctx, f"instance-gradient-step-{sk}", case, dec_img(mg[m_]), G.numpy()[m_, b], TOL64)
    good = np.ones_like(A, dtype=bool) if M == 1 else (oracle_amplitudes(x) != 0)
    pred(ctx, f"proj-exact:{sk}:{key_par}", "Fourier projection does not return the measured amplitudes (detector convention)", case,
         np.where(good, oracle_amplitudes(Pn), A), A, TOL64, f"projection exactness {sk}")
    det = np.sqrt(p.detector_model.forward(P).numpy())
    pred(ctx, f"proj-exact-detector:{sk}:{key_par}", "sqrt(detector_model.forward(projection)) != measured amplitudes", case,
         np.where(good, det, A), A, TOL64, f"projection exactness via detector {sk}")
    P2 = p.fourier_projection(At.clone(), P.clone()).numpy()
    pred(ctx, f"proj-idempotent:{sk}:{key_par}", "Fourier projection is not idempotent", case, P2, Pn, TOL64, f"projection idempotence {sk}")
    # ---- (b) the instance's own patch indices: exact integer adjointness
    idx_t = p.dset.patch_indices
    idx = idx_t.numpy().astype(np.int64)
    H, W = (int(v) for v in p.obj_shape_full[-2:])
    n = H * W
    repeats = len(set(idx.reshape(-1).tolist())) < idx.size
    ctx.dist[f"instance.patch_index_repeats={repeats}"] += 1
    obj = iarr(rng, (1, H, W)) + 1j * iarr(rng, (1, H, W))
    pw = iarr(rng, idx.shape) + 1j * iarr(rng, idx.shape)
    gp = getattr(p.obj_model, "_get_obj_patches", None)      # bound private helper; definitional gather (flagged) if the name is gone
    g = (gp(T(I, obj, torch.complex128), idx_t) if callable(gp) else get_patches(I, ctx, T(I, obj, torch.complex128), idx_t)).numpy()
    sc_ = I.pu.sum_patches(T(I, pw, torch.complex128), idx_t, (H, W)).numpy()
    idxl = idx.reshape(-1).tolist()
    for part in (np.real, np.imag):
        mgi = ask(drv, {"op": "gather_int", "obj": part(obj[0]).astype(np.int64).reshape(-1).tolist(), "idx": idxl})
        msi = ask(drv, {"op": "scatter_int", "n": n, "patches": part(pw).astype(np.int64).reshape(-1).tolist(), "idx": idxl})
        if "err" in mgi or part(g[0]).reshape(-1).tolist() != [float(v) for v in mgi["ok"]]:
            ctx.disagree("instance-gather-int", case, str(mgi)[:200], part(g[0]).reshape(-1).tolist()[:20], "own patch indices")
        if "err" in msi or part(sc_).reshape(-1).tolist() != [float(v) for v in msi["ok"]]:
            ctx.disagree("instance-scatter-int", case, str(msi)[:200], part(sc_).reshape(-1).tolist()[:20], "own patch indices")
    ci = lambda a: [complex(int(round(z.real)), int(round(z.imag))) for z in np.asarray(a).reshape(-1)]   # noqa: E731
    lhs = sum(a.conjugate() * b for a, b in zip(ci(g[0]), ci(pw)))
    rhs = sum(a.conjugate() * b for a, b in zip(ci(obj[0]), ci(sc_)))
    if lhs != rhs:
        ctx.pred_fail("adjoint:instance", "<gather(o,idx),p> != <o,scatter(p,idx)> on the dataset's own patch indices", case, observed=str(lhs), required=str(rhs))
    # ---- (c) the real forward path in the instance's own precision (float32), all object types, descan variants
    nb = idx.shape[0]
    phi = rarr(rng, (1, H, W), 0, 3, 64).astype(np.float32)
    if obj_type == "potential":
        newobj = T(I, phi, torch.float32)                                  # patches = exp(1j*potential)
    elif obj_type == "pure_phase":
        newobj = T(I, (rarr(rng, (1, H, W), 0.25, 2, 16) * np.exp(1j * phi)).astype(np.complex64), torch.complex64)   # amplitude is discarded by the model
    else:
        newobj = T(I, np.exp(1j * phi).astype(np.complex64), torch.complex64)   # complex object that happens to be pure phase
    if not hasattr(p.obj_model, "_obj"):
        skip_private(ctx, "ObjectPixelated()._obj (instance forward path)")
        return
    p.obj_model._obj.data = newobj
    patches = p.obj_model.forward(idx_t)                                   # (1, nb, nr, nc): hard constraints + _get_obj_patches
    fkind = rng.weighted([("float32", 4), ("float64", 2), ("int32", 1), ("int64", 1)])
    fvals = np.array([[dy(rng, -0.5, 0.5, 64), dy(rng, -0.5, 0.5, 64)] for _ in range(nb)])
    if fkind.startswith("int"):
        fvals = np.array([[rng.randint(-2, 2), rng.randint(-2, 2)] for _ in range(nb)], dtype=np.float64)
    ctx.dist[f"instance.probe_forward.pos={fkind}"] += 1
    case.update({"probe_pos_dtype": fkind})
    fract = mkpos(I, fvals, fkind, False)
    shifted = p.probe_model.forward(fract)                                 # (M, nb, nr, nc) complex64
    probe0 = p.probe_model.probe.detach().numpy().astype(np.complex128)
    pred(ctx, f"probe-forward-shift:{fkind}", "probe_model.forward(positions) != independently shifted probe stack", case,
         shifted.detach().numpy().astype(np.complex128), np.swapaxes(oracle_shift(probe0, fvals), 0, 1), TOL32, "probe forward vs oracle shift")
    if dkind == "none":
        descan = None
    elif dkind == "zero":
        descan = torch.zeros((nb, 2), dtype=torch.float32)
    else:
        descan = T(I, np.array([[dy(rng, -2, 2, 64), dy(rng, -2, 2, 64)] for _ in range(nb)]), torch.float32)
    pn, sn = patches.numpy().astype(np.complex128), shifted.numpy().astype(np.complex128)
    if tuple(pn.shape) != (1, nb, nr, nc) or tuple(sn.shape) != (M, nb, nr, nc):
        ctx.disagree("instance-forward", case, [[1, nb, nr, nc], [M, nb, nr, nc]], [list(pn.shape), list(sn.shape)], "patch / probe shapes")
        return
    _pp, overlap = p.forward_operator(patches.clone(), shifted.clone(), None if descan is None else descan.clone())
    inten = p.detector_model.forward(overlap).numpy().astype(np.float64)
    unit = maxabs(np.abs(pn) - 1.0) <= 1e-5
    ctx.dist[f"instance.patches_unit_modulus={unit}"] += 1
    ptot = float(np.sum(np.abs(p.probe_model.probe.detach().numpy().astype(np.complex128)) ** 2))
    if unit:
        pred(ctx, f"purephase-energy:instance:{obj_type}:descan-{dkind}", "summed predicted diffraction intensity != probe total intensity (real instance, float32)", case,
             inten.sum(axis=(1, 2)) / ptot, np.ones(nb), TOL32, "pure-phase energy on a real instance (float32)")
    # the same pass through the model for one or two patterns (float32 data -> 5e-4 rule)
    dn = None if descan is None else descan.numpy().astype(np.float64)
    for b in sorted({rng.below(nb), rng.below(nb)}):
        req = {"op": "forward_operator", "patches": [enc_img(pn[0, b])], "props": [], "probes": [enc_img(sn[m_, b]) for m_ in range(M)]}
        if dn is not None:
            req["descan"] = [f2b(dn[b, 0]), f2b(dn[b, 1])]
        r = ask(drv, req)["ok"]
        on = overlap.numpy().astype(np.complex128)
        for m_ in range(M):
            corr(ctx, f"instance-forward-operator:{obj_type}:descan-{dkind}", case, dec_img(r["overlap"][m_]), on[m_, b], TOL32)
        md = dec_rows(ask(drv, {"op": "detector", "waves": r["overlap"]})["ok"])
        corr(ctx, "instance-forward-detector", case, md, inten[b], TOL32)
    ctx.sample({k: case[k] for k in ("stream", "rseed", "shape", "modes", "scan", "obj_type", "descan")}, limit=7)


# ----------------------------------------------------------------------------- stream: call histories (state / aliasing)
def _bits(x):
    """exact byte content of a tensor / array (NaN-safe bit comparison)"""
    if hasattr(x, "detach"):
        x = x.detach().resolve_conj().resolve_neg().cpu().contiguous().numpy()
    return (str(x.dtype), tuple(x.shape), np.ascontiguousarray(x).tobytes())


def _snap(x):
    return x.detach().clone() if hasattr(x, "detach") else np.array(x, copy=True)


def _storage(x):
    if hasattr(x, "untyped_storage"):
        return None if x.numel() == 0 else ("t", x.untyped_storage().data_ptr())
    return None


def _share(a, b):
    if hasattr(a, "untyped_storage") and hasattr(b, "untyped_storage"):
        sa, sb = _storage(a), _storage(b)
        return sa is not None and sa == sb
    if isinstance(a, np.ndarray) and isinstance(b, np.ndarray):
        return a.size > 0 and b.size > 0 and np.shares_memory(a, b)
    return False


def _aslist(out):
    if isinstance(out, (tuple, list)):
        return [o for o in out if hasattr(o, "shape")]
    return [out]


def run_history(ctx, case, op, calls):
    """`calls`: list of (thunk, [input tensors/arrays]).  Every thunk is called in order and ALL results
    are kept.  Afterwards: (1) every kept result is bit-identical to the clone taken right after its
    call returned (outputs must not change once returned), (2) every input is bit-identical to its
    snapshot taken before the call, (3) results of different calls do not share storage.
    Returns the kept results (list per call)."""
    kept, clones, snaps = [], [], []
    for thunk, inputs in calls:
        snaps.append([_bits(x) for x in inputs])
        outs = _aslist(thunk())
        kept.append(outs)
        clones.append([_bits(_snap(o)) for o in outs])
    ok = True
    for i, (thunk, inputs) in enumerate(calls):
        if [_bits(x) for x in inputs] != snaps[i]:
            ctx.pred_fail(f"history-input-modified:{op}", f"{op}: an input of call {i + 1} of {len(calls)} was modified by the call history", case,
                          observed="input bytes changed", required="inputs are left untouched")
            ok = False
        if [_bits(o) for o in kept[i]] != clones[i]:
            ctx.pred_fail(f"history-result-changed:{op}", f"{op}: the result returned by call {i + 1} of {len(calls)} changed after later calls of the same operator", case,
                          observed="kept result differs bitwise from its clone taken at return time", required="returned results never change")
            ok = False
    for i in range(len(kept)):
        for j in range(i + 1, len(kept)):
            if any(_share(a, b) for a in kept[i] for b in kept[j]):
                ctx.pred_fail(f"history-aliasing:{op}", f"{op}: results of call {i + 1} and call {j + 1} share storage", case,
                              observed="same untyped_storage().data_ptr()", required="independent results")
                ok = False
    ctx.dist[f"history.{op}.calls={len(calls)}"] += 1
    ctx.dist[f"history.contract_ok={ok}"] += 1
    return kept      # the identities are evaluated on the kept results in any case


def s_history(ctx, drv, I, case):
    """2-4 calls of one operator with same-shaped inputs, all results kept: results must not change after they
    are returned, inputs must not be modified, results must not alias each other, and the operator identities
    (adjointness, additivity, energy, idempotence) must hold for EVERY kept result, not only the latest."""
    from qv.prng import Rng
    torch = I.torch
    rng = Rng(case["rseed"])
    op = rng.weighted([("sum_patches", 6), ("get_obj_patches", 2), ("translation", 2), ("shift", 2), ("propagators", 2),
                       ("propagate", 1), ("overlap", 2), ("forward_operator", 2), ("detector", 1), ("projection", 3)])
    k = rng.randint(2, 4)
    grad = rng.chance(0.3)
    case.update({"op": op, "calls": k, "requires_grad": grad})
    ctx.count()
    ctx.dist[f"history.op={op}"] += 1
    ctx.dist[f"history.requires_grad={grad}"] += 1
    with (torch.enable_grad() if grad else torch.no_grad()):
        _history_body(ctx, I, case, rng, op, k, grad)
    ctx.sample({kk: case[kk] for kk in case if kk != "note"}, limit=8)


def _history_body(ctx, I, case, rng, op, k, grad):
    torch = I.torch

    def rg(t):
        if grad and (t.is_floating_point() or t.is_complex()):
            t.requires_grad_(True)
        return t

    def ints(a):
        a = np.asarray(a.detach().resolve_conj().numpy() if hasattr(a, "detach") else a).reshape(-1)
        return [complex(int(round(z.real)), int(round(z.imag))) for z in a.astype(np.complex128)]

    if op in ("sum_patches", "get_obj_patches"):
        H, W = rng.randint(2, 8), rng.randint(2, 8)
        B, r, c = rng.randint(1, 3), rng.randint(1, 6), rng.randint(1, 6)
        same_idx = rng.chance(0.5)
        idxs = [wrap_indices(rng, H, W, B, r, c) if rng.chance(0.6) else iarr(rng, (B, r, c), 0, H * W - 1)]
        for _ in range(k):
            idxs.append(idxs[0] if same_idx else (wrap_indices(rng, H, W, B, r, c) if rng.chance(0.6) else iarr(rng, (B, r, c), 0, H * W - 1)))
        itype = rng.choice([torch.int32, torch.int64])
        idx_t = [T(I, ix, itype) for ix in idxs]
        dt = rng.choice(["float32", "float64", "complex64", "complex128"] + (["int64", "base-float32", "base-float64"] if op == "sum_patches" else []))
        case.update({"H": H, "W": W, "idx_shape": [B, r, c], "dtype": dt, "same_indices": same_idx})
        ctx.mark(("history", op, dt, grad, k, same_idx))
        ctx.dist[f"history.{op}.dtype={dt}"] += 1
        cplx = dt.startswith("complex")
        tdt = getattr(torch, dt.replace("base-", ""))
        if op == "sum_patches":
            fn = I.pu.sum_patches_base if dt in ("int64", "base-float32", "base-float64") else I.pu.sum_patches
            ps = []
            for _ in range(k):
                a = iarr(rng, (B, r, c)) + (1j * iarr(rng, (B, r, c)) if cplx else 0)
                t = T(I, a if cplx else a.real, tdt)
                ps.append(rg(t) if dt != "int64" else t)
            # the additivity call S(p1+p2) is part of the history (last call), on the indices of call 1
            psum = (ps[0].detach() + ps[1].detach()) if same_idx else None
            calls = [((lambda p=p, ix=ix: fn(p, ix, (H, W))), [p, ix]) for p, ix in zip(ps, idx_t[:k])]
            if psum is not None:
                calls.append(((lambda: fn(psum, idx_t[0], (H, W))), [psum, idx_t[0]]))
            kept = run_history(ctx, case, op, calls)
            if kept is None:
                return
            x = iarr(rng, (H, W)) + (1j * iarr(rng, (H, W)) if cplx else 0)
            xi = ints(x)
            for i in range(k):      # exact adjointness for EVERY kept result
                gi = [xi[j] for j in idxs[i].reshape(-1).tolist()]
                lhs = sum(a.conjugate() * b for a, b in zip(gi, ints(ps[i])))
                rhs = sum(a.conjugate() * b for a, b in zip(xi, ints(kept[i][0])))
                if lhs != rhs:
                    ctx.pred_fail(f"history-adjoint:{op}", f"<extract(x), p_{i + 1}> != <x, S(p_{i + 1})> for the kept result of call {i + 1} of {len(calls)}", case,
                                  observed=str(lhs), required=str(rhs))
            if psum is not None and [a + b for a, b in zip(ints(kept[0][0]), ints(kept[1][0]))] != ints(kept[-1][0]):
                ctx.pred_fail(f"history-additive:{op}", "S(p1) + S(p2) != S(p1 + p2) with all three results kept", case,
                              observed="mismatch", required="exact equality (integer-valued data)")
        else:
            objs = []
            for _ in range(k):
                a = iarr(rng, (2, H, W)) + (1j * iarr(rng, (2, H, W)) if cplx else 0)
                objs.append(rg(T(I, a if cplx else a.real / 4.0, tdt)))
            calls = [((lambda o=o, ix=ix: get_patches(I, ctx, o, ix)), [o, ix]) for o, ix in zip(objs, idx_t[:k])]
            kept = run_history(ctx, case, op, calls)
            if kept is None:
                return
            for i in range(k):      # every kept result is still the gather of ITS object
                on = objs[i].detach().numpy()
                ref = (on if cplx else np.exp(1j * on.astype(np.float64))).reshape(2, -1)[:, idxs[i].reshape(-1)].reshape((2,) + idxs[i].shape)
                pred(ctx, f"history-gather:{op}", f"kept patches of call {i + 1} are no longer the gather of their object", case,
                     kept[i][0].detach().numpy(), ref, 0.0 if cplx else 1e-6, "history gather")
        return

    nr, nc = rng.choice(INST_SHAPES) if op in ("forward_operator", "overlap", "projection") else gen_shape(rng)
    case.update({"shape": [nr, nc]})
    f64 = rng.chance(0.5)
    rdt, cdt = (torch.float64, torch.complex128) if f64 else (torch.float32, torch.complex64)
    tol = TOL64 if f64 else TOL32
    ctx.mark(("history", op, f64, grad, k, psig(nr, nc)))
    ctx.dist[f"history.{op}.precision={'64' if f64 else '32'}"] += 1
    case.update({"float64": f64})

    if op == "translation":
        use_np = rng.chance(0.3) and not grad
        poss = [np.array([[dy(rng, -5, 5, 64), dy(rng, -5, 5, 64)]]) for _ in range(k)]
        ipos = rng.chance(0.3) and not grad
        if ipos:
            poss = [np.round(p) for p in poss]
        poss.append(poss[0] + poss[1])
        case.update({"int_positions": ipos})
        ins = [mkpos(I, p, "int64", use_np) if ipos else (p if use_np else rg(T(I, p, rdt))) for p in poss]
        kept = run_history(ctx, case, op, [((lambda p=p: I.pu.fourier_translation_operator(p, (nr, nc))), [p]) for p in ins])
        if kept is None:
            return
        tn = [np.asarray(o[0].detach().numpy() if hasattr(o[0], "detach") else o[0]) for o in kept]
        pred(ctx, "history-ramp-unit", "kept translation operators are not unit modulus", case, np.abs(np.stack(tn)), np.ones((k + 1, 1, nr, nc)), TOL32 if ipos else tol, "history |ramp|=1")
        pred(ctx, "history-ramp-additive", "T(s)*T(t) != T(s+t) with all three kept", case, tn[0] * tn[1], tn[-1], TOL32 if ipos else tol, "history ramp additivity")
        pred(ctx, "history-ramp-oracle", "kept translation operators != independent ramps", case, np.stack(tn)[:, 0], oracle_ramp(nr, nc, np.concatenate(poss)), TOL32, "history ramp vs oracle")
    elif op == "shift":
        use_np = rng.chance(0.3) and not grad
        xs = [carr(rng, (nr, nc)) for _ in range(k)]
        poss = [np.array([[dy(rng, -5, 5, 64), dy(rng, -5, 5, 64)]]) for _ in range(k)]
        xin = [x.astype(np.complex128 if f64 else np.complex64) if use_np else rg(T(I, x, cdt)) for x in xs]
        pin = [p.astype(np.float64 if f64 else np.float32) if use_np else T(I, p, rdt) for p in poss]
        kept = run_history(ctx, case, op, [((lambda x=x, p=p: I.pu.fourier_shift_expand(x, p)), [x, p]) for x, p in zip(xin, pin)])
        if kept is None:
            return
        for i in range(k):
            y = np.asarray(kept[i][0].detach().numpy() if hasattr(kept[i][0], "detach") else kept[i][0])
            pred(ctx, "history-shift-energy", f"kept shifted array of call {i + 1} lost its energy", case,
                 np.array([np.sum(np.abs(y) ** 2)]), np.array([np.sum(np.abs(xs[i]) ** 2)]), tol, "history shift energy")
            back = I.pu.fourier_shift_expand(kept[i][0], -pin[i])      # shifting the KEPT result back must give the input
            back = np.asarray(back.detach().numpy() if hasattr(back, "detach") else back)[0, 0]
            pred(ctx, "history-shift-inverse", f"shift(kept result of call {i + 1}, -s) != x", case, back, xs[i], tol, "history shift inverse")
    elif op == "propagators":
        sr, sc, energy, thr, thc = gen_physics(rng)
        d = [dy(rng, 1, 12, 8) for _ in range(k)]
        dzl = [[di] for di in d] + [[d[0] + d[1]]]
        kept = run_history(ctx, case, op, [((lambda z=z: impl_propagators(I, ctx, nr, nc, sr, sc, energy, thr, thc, 2, z)), []) for z in dzl])
        if kept is None:
            return
        pn = [o[0].detach().numpy().astype(np.complex128)[0] for o in kept]
        pred(ctx, "history-prop-unit", "kept propagators are not unit modulus", case, np.abs(np.stack(pn)), np.ones((k + 1, nr, nc)), 1e-5, "history |propagator|=1")
        pred(ctx, "history-prop-additive", "P(d1)*P(d2) != P(d1+d2) with all three kept", case, pn[0] * pn[1], pn[-1], TOL32, "history propagator additivity")
    elif op == "propagate":
        sr, sc, energy, thr, thc = gen_physics(rng)
        d1 = dy(rng, 1, 12, 8)
        Q = impl_propagators(I, ctx, nr, nc, sr, sc, energy, thr, thc, 3, [d1, -d1]).to(cdt)
        xs = [carr(rng, (2, nr, nc)) for _ in range(k)]
        xin = [rg(T(I, x, cdt)) for x in xs]
        which = rng.choice(["base", "obj"])
        fp = I.priv["PtychographyBase._propagate_array" if which == "base" else "ObjectBase._propagate_array"]
        if fp is None:
            skip_private(ctx, f"history.propagate.{which}")
            return
        f = lambda a, q: fp(None, a, q)      # noqa: E731
        kept = run_history(ctx, case, op, [((lambda x=x: f(x, Q[0])), [x, Q]) for x in xin])
        if kept is None:
            return
        for i in range(k):
            back = f(kept[i][0], Q[1]).detach().numpy()
            pred(ctx, "history-prop-inverse", f"prop(kept result of call {i + 1}, -d) != a", case, back, xs[i], TOL32, "history propagation inverse")
    elif op in ("overlap", "forward_operator"):
        M = rng.randint(1, 3)
        B = rng.randint(1, 2)
        case.update({"modes": M})
        if op == "overlap":
            S = rng.randint(1, 3)
            sr, sc, energy, thr, thc = gen_physics(rng)
            props = impl_propagators(I, ctx, nr, nc, sr, sc, energy, thr, thc, S, [dy(rng, 1, 12, 8) for _ in range(S - 1)])
            st = ptycho_self(I, ctx, M, S, props)
            desc = [None] * k
        else:
            S = 1
            st = real_instance(ctx, M, (nr, nc))
            if st is None:
                return
            desc = [None if rng.chance(0.3) else T(I, np.array([[dy(rng, -2, 2, 64), dy(rng, -2, 2, 64)] for _ in range(B)]), rdt) for _ in range(k)]
        phis = [rarr(rng, (S, B, nr, nc), -3, 3, 64) for _ in range(k)]
        pats = [rg(T(I, np.exp(1j * ph), cdt)) for ph in phis]
        prbs = [rg(T(I, carr(rng, (M, B, nr, nc)), cdt)) for _ in range(k)]
        if op == "overlap":
            calls = [((lambda a=a, b=b: st.overlap_projection(a, b)), [a, b]) for a, b in zip(pats, prbs)]
        else:
            calls = [((lambda a=a, b=b, dsc=dsc: st.forward_operator(a, b, dsc)), [a, b] + ([dsc] if dsc is not None else [])) for a, b, dsc in zip(pats, prbs, desc)]
        kept = run_history(ctx, case, op, calls)
        if kept is None:
            return
        for i in range(k):      # pure-phase energy for EVERY kept exit wave
            ex = kept[i][1].detach().numpy().astype(np.complex128)
            pr = prbs[i].detach().numpy().astype(np.complex128)
            pred(ctx, f"history-purephase-energy:{op}", f"kept exit wave of call {i + 1} does not carry the probe intensity (pure-phase patches)", case,
                 np.sum(np.abs(ex) ** 2, axis=(0, 2, 3)), np.sum(np.abs(pr) ** 2, axis=(0, 2, 3)), 1e-5 if S > 1 else tol, "history pure-phase energy")
    elif op == "detector":
        M, B = rng.randint(1, 3), rng.randint(1, 2)
        ws = [carr(rng, (M, B, nr, nc)) for _ in range(k)]
        win = [rg(T(I, w, cdt)) for w in ws]
        det = I.Det()
        kept = run_history(ctx, case, op, [((lambda w=w: det.forward(w)), [w]) for w in win])
        if kept is None:
            return
        for i in range(k):
            pred(ctx, "history-detector-parseval", f"kept detector image of call {i + 1}: summed intensity != exit-wave intensity", case,
                 kept[i][0].detach().numpy().astype(np.float64).sum(axis=(1, 2)), np.sum(np.abs(ws[i]) ** 2, axis=(0, 2, 3)), tol, "history detector Parseval")
    elif op == "projection":
        M, B = rng.weighted([(1, 1), (2, 2), (3, 2)]), rng.randint(1, 2)
        case.update({"modes": M})
        st = real_instance(ctx, M) or ptycho_self(I, ctx, M, 1, None)
        As = [rarr(rng, (B, nr, nc), 0, 2) for _ in range(k)]
        for A in As:
            for i in range(A.size):
                if rng.chance(0.15):
                    A.reshape(-1)[i] = 0.0
        xs = [carr(rng, (M, B, nr, nc)) for _ in range(k)]
        Ain = [T(I, A, rdt) for A in As]
        xin = [rg(T(I, x, cdt)) for x in xs]
        which = rng.choice(["fourier_projection", "gradient_step"])
        case.update({"method": which})
        f = getattr(st, which)
        kept = run_history(ctx, case, f"{which}", [((lambda A=A, x=x: f(A, x)), [A, x]) for A, x in zip(Ain, xin)])
        if kept is None:
            return
        sk = "single" if M == 1 else "mixed"
        for i in range(k):      # exactness for EVERY kept projection
            P = kept[i][0].detach().numpy().astype(np.complex128)
            if which == "gradient_step":
                P = P + xs[i]
            good = np.ones_like(As[i], dtype=bool) if M == 1 else (oracle_amplitudes(xs[i]) != 0)
            pred(ctx, f"history-proj-exact:{sk}", f"kept projection of call {i + 1} no longer has the measured amplitudes", case,
                 np.where(good, oracle_amplitudes(P), As[i]), As[i], tol, f"history projection exactness {sk}")



# ----------------------------------------------------------------------------- public signatures / defaults (pinned)
REQ = "<required>"
SIGNATURES = {      # the parameters the model / the streams rely on, in order, with their defaults
    "pu.fourier_shift_expand": [("array", REQ), ("positions", REQ), ("expand_dim", True)],
    "pu.fourier_translation_operator": [("positions", REQ), ("shape", REQ), ("expand_dim", True), ("dtype", None)],
    "pu.sum_patches": [("patches", REQ), ("indices", REQ), ("obj_shape", REQ)],
    "pu.sum_patches_base": [("patches", REQ), ("indices", REQ), ("obj_shape", REQ)],
    "Det.forward": [("self", REQ), ("exit_waves", REQ)],
    "Pty.fourier_projection": [("self", REQ), ("measured_amplitudes", REQ), ("overlap_array", REQ)],
    "Pty.gradient_step": [("self", REQ), ("amplitudes", REQ), ("overlap", REQ)],
    "Base.forward_operator": [("self", REQ), ("obj_patches", REQ), ("shifted_input_probes", REQ), ("descan", None)],
    "Base.overlap_projection": [("self", REQ), ("obj_patches", REQ), ("input_probe", REQ)],
    "Base.estimate_amplitudes": [("self", REQ), ("overlap_array", REQ), ("corner_centered", False)],
    "Base.estimate_intensities": [("self", REQ), ("overlap_array", REQ)],
    "Base.reset_recon": [("self", REQ)],
}


def check_signatures(ctx, I):
    """public signatures / defaults of the anchored operators: the listed parameters must be there, in this order, with
    these defaults; FURTHER parameters are tolerated as long as they have a default (a harmless extension)"""
    import inspect
    for path, want in SIGNATURES.items():
        owner, name = path.split(".")
        f = getattr(getattr(I, owner), name, None)
        case = {"stream": "signature", "rseed": 0, "function": path}
        ctx.count()
        if f is None:
            ctx.disagree("signature", case, [list(w) for w in want], "missing", f"public operator {path} is gone")
            continue
        ps = list(inspect.signature(f).parameters.values())
        got = [(q.name, REQ if q.default is inspect.Parameter.empty else q.default) for q in ps]
        ok = len(got) >= len(want) and all(g[0] == w[0] and (g[1] is w[1] or g[1] == w[1]) for g, w in zip(got, want)) \
            and all(g[1] is not REQ or ps[i + len(want)].kind in (inspect.Parameter.VAR_POSITIONAL, inspect.Parameter.VAR_KEYWORD)
                    for i, g in enumerate(got[len(want):]))
        ctx.dist[f"signature.ok={ok}"] += 1
        if not ok:
            ctx.disagree("signature", case, [[w[0], repr(w[1])] for w in want], [[g[0], repr(g[1])] for g in got], f"signature / defaults of {path} changed")


# ----------------------------------------------------------------------------- stream: histories with RAISING calls
MUTATE_WHICH = ["translation", "shift", "forward_operator", "projection", "sum_patches"]


def exc_name(e):
    return "IndexError" if isinstance(e, IndexError) else ("RuntimeError" if isinstance(e, RuntimeError) else type(e).__name__)


def s_rhist(ctx, drv, I, case):
    """exception safety: a call is rejected or raises part-way (bad index after some good ones, index set of a larger
    grid, negative index, length mismatch, wrong shape), the caller carries on with valid calls on the same grid / dtype.
    EVERY call of the history is compared with the Lean history model (exact integers; error kind included), and every
    accepted call with an independent oracle (exact adjointness / NumPy oracle); results kept from before the raising
    call must not change."""
    from qv.prng import Rng
    torch = I.torch
    rng = Rng(case["rseed"])
    op = rng.weighted([("sum_patches", 6), ("get_obj_patches", 2), ("shift", 1), ("projection", 2), ("propagate", 1), ("detector", 1), ("forward_operator", 1), ("mutate_args", 4)])
    fx = case.get("fixed")
    if fx is not None:      # fixed block: 14 sum_patches histories with raising calls, then every in-place-update target twice
        op = "sum_patches" if fx < 14 else "mutate_args"
        ctx.dist["rhist.fixed_block"] += 1
    case.update({"op": op})
    ctx.count()
    ctx.dist[f"rhist.op={op}"] += 1
    if op in ("sum_patches", "get_obj_patches"):
        H, W = rng.randint(2, 7), rng.randint(2, 7)
        n = H * W
        k = rng.randint(3, 7)
        dt = rng.choice(["int64", "base-float32", "base-float64", "float32", "float64", "complex64", "complex128"]) if op == "sum_patches" \
            else rng.choice(["complex64", "complex128"])
        if fx is not None:
            dt = ["int64", "base-float32", "base-float64", "float32", "float64", "complex64", "complex128"][fx % 7]
        cplx = dt.startswith("complex")
        tdt = getattr(torch, dt.replace("base-", ""))
        itype = rng.choice([torch.int32, torch.int64])
        fn = I.pu.sum_patches_base if dt in ("int64", "base-float32", "base-float64") else I.pu.sum_patches
        case.update({"H": H, "W": W, "dtype": dt, "calls": k})
        kinds, idxs, pats = [], [], []
        plan = None
        if fx is not None:      # fixed block: every dtype x {in-range entries then an outside index | index set of a larger grid}, then valid calls
            plan = [["valid", "oob-partway", "valid", "valid"], ["bigger-grid", "valid", "valid"]][(fx // 7) % 2]
            k = len(plan)
            case.update({"calls": k})
        for j in range(k):
            kind = plan[j] if plan else ("valid" if j == k - 1 else rng.weighted([("valid", 4), ("oob-partway", 4), ("oob-first", 1), ("bigger-grid", 3), ("negative", 1), ("length", 1)]))
            if op == "get_obj_patches" and kind == "length":
                kind = "oob-partway"
            B, r, c = rng.randint(1, 2), rng.randint(1, 5), rng.randint(1, 5)
            idx = wrap_indices(rng, H, W, B, r, c) if rng.chance(0.6) else iarr(rng, (B, r, c), 0, n - 1)
            flat = idx.reshape(-1)
            if kind == "oob-partway":           # some in-range entries first, then an index outside the grid
                flat[rng.randint(1, flat.size - 1) if flat.size > 1 else 0] = n + rng.randint(0, 3)
            elif kind == "oob-first":
                flat[0] = n + rng.randint(0, 3)
            elif kind == "bigger-grid":         # an index set computed for a larger (padded) object grid
                H2, W2 = H + rng.randint(0, 2), W + rng.randint(1, 3)
                flat[:] = wrap_indices(rng, H2, W2, B, r, c).reshape(-1)
                if flat.max() < n:
                    flat[-1] = H2 * W2 - 1
            elif kind == "negative":
                flat[rng.below(flat.size)] = -1 - rng.below(n + 2)
            idx = flat.reshape(B, r, c)
            pshape = (B, r, c + 1) if kind == "length" else (B, r, c)
            pw = iarr(rng, pshape) + (1j * iarr(rng, pshape) if cplx else 0)
            kinds.append(kind)
            idxs.append(idx)
            pats.append(pw)
        case.update({"kinds": kinds})
        ctx.mark(("rhist", op, dt, tuple(sorted(set(kinds)))))
        for kd in kinds:
            ctx.dist[f"rhist.{op}.call={kd}"] += 1
        x = iarr(rng, (H, W)) + (1j * iarr(rng, (H, W)) if cplx else 0)      # the object the adjoint identity is tested against
        xi = [complex(int(v.real), int(v.imag)) for v in np.asarray(x, dtype=np.complex128).reshape(-1)]
        cint = lambda a: [complex(int(round(z.real)), int(round(z.imag))) for z in np.asarray(a, dtype=np.complex128).reshape(-1)]   # noqa: E731
        if op == "sum_patches":
            mre = ask(drv, {"op": "scatter_history", "calls": [{"n": n, "patches": np.real(pw).astype(np.int64).reshape(-1).tolist(), "idx": ix.reshape(-1).tolist()} for pw, ix in zip(pats, idxs)]})["ok"]
            mim = ask(drv, {"op": "scatter_history", "calls": [{"n": n, "patches": np.imag(pw).astype(np.int64).reshape(-1).tolist(), "idx": ix.reshape(-1).tolist()} for pw, ix in zip(pats, idxs)]})["ok"]
        kept = []
        for j in range(k):
            it = T(I, idxs[j], itype)
            if op == "sum_patches":
                pt_ = T(I, pats[j] if cplx else pats[j].real, tdt)
                try:
                    out, err = fn(pt_, it, (H, W)), None
                except Exception as e:   # noqa: BLE001
                    out, err = None, exc_name(e)
                merr = mre[j].get("err") or mim[j].get("err")
                if (err or None) != (merr or None):
                    ctx.disagree("rhist-scatter", case, merr or "ok", err or "ok", f"call {j + 1} of {k} ({kinds[j]}): error behaviour differs from the model")
                if err is None:
                    oi = cint(out.numpy())
                    kept.append((j, out, _bits(_snap(out))))
                    if merr is None and oi != [complex(a, b) for a, b in zip(mre[j]["ok"], mim[j]["ok"] if cplx else [0] * n)]:
                        ctx.disagree("rhist-scatter", case, mre[j]["ok"][:24], [v.real for v in oi][:24], f"call {j + 1} of {k} ({kinds[j]}) after {kinds[:j]}: result differs from the model history")
                    if kinds[j] == "valid":      # the property predicate, exact integers, independent extraction x[idx]
                        gi = [xi[t] for t in idxs[j].reshape(-1).tolist()]
                        pj = cint(pats[j])
                        lhs = sum(a.conjugate() * b for a, b in zip(gi, pj))
                        rhs = sum(a.conjugate() * b for a, b in zip(xi, oi))
                        if lhs != rhs:
                            ctx.pred_fail("adjoint-after-raise:sum_patches", f"<extract(x), p> != <x, sum_patches(p)> for valid call {j + 1} of a history whose earlier calls were {kinds[:j]}", case,
                                          observed=str(rhs), required=str(lhs))
                elif kinds[j] == "valid":
                    ctx.pred_fail("raises-on-valid-after-raise:sum_patches", f"valid call {j + 1} raised after {kinds[:j]}", case, observed=err, required="no error")
            else:
                obj2 = np.stack([x, np.conj(x) * 2]) if cplx else np.stack([x.real, x.real * 2])
                try:
                    out, err = get_patches(I, ctx, T(I, obj2, tdt), it), None
                except Exception as e:   # noqa: BLE001
                    out, err = None, exc_name(e)
                for sl, part in ((0, np.real), (1, np.imag)):
                    mg = ask(drv, {"op": "gather_checked_int", "obj": part(obj2[sl]).astype(np.int64).reshape(-1).tolist(), "idx": idxs[j].reshape(-1).tolist()})
                    if ("err" in mg) != (err is not None):
                        ctx.disagree("rhist-gather", case, mg.get("err", "ok"), err or "ok", f"call {j + 1} ({kinds[j]}): error behaviour differs from the model")
                    elif err is None and part(out.numpy()[sl]).reshape(-1).tolist() != [float(v) for v in mg["ok"]]:
                        ctx.disagree("rhist-gather", case, mg["ok"][:24], part(out.numpy()[sl]).reshape(-1).tolist()[:24], f"call {j + 1} ({kinds[j]}) after {kinds[:j]}")
                if err is None:
                    kept.append((j, out, _bits(_snap(out))))
                    if kinds[j] == "valid":
                        ref = obj2.reshape(2, -1)[:, idxs[j].reshape(-1)].reshape((2,) + idxs[j].shape)
                        pred(ctx, "gather-after-raise", f"patches of valid call {j + 1} are not the gather of the object after {kinds[:j]}", case, out.numpy(), ref, 0.0, "gather after raise")
                elif kinds[j] == "valid":
                    ctx.pred_fail("raises-on-valid-after-raise:get_obj_patches", f"valid call {j + 1} raised after {kinds[:j]}", case, observed=err, required="no error")
        for j, out, bits in kept:
            if _bits(out) != bits:
                ctx.pred_fail(f"history-result-changed:{op}", f"{op}: the result of call {j + 1} changed after later (raising / valid) calls", case,
                              observed="kept result differs bitwise from its clone", required="returned results never change")
        ctx.sample({kk: case[kk] for kk in ("stream", "rseed", "op", "H", "W", "dtype", "kinds")}, limit=9)
        return
    # ---- stateless float operators: valid call, a call that raises, the same valid call again
    nr, nc = gen_shape(rng)
    M, B = rng.randint(1, 3), rng.randint(1, 2)
    case.update({"shape": [nr, nc], "modes": M})
    ctx.mark(("rhist", op, psig(nr, nc), M))
    if op == "mutate_args":
        # build, derive, mutate the parent IN PLACE, derive again: the SAME argument objects (same id / data_ptr, as the
        # optimiser updates descan shifts / positions / amplitudes in place) are given new values between calls; every
        # call must equal the call on fresh clones of the current values and satisfy its identity against an oracle
        which = rng.choice(MUTATE_WHICH)
        if fx is not None:
            which = MUTATE_WHICH[(fx - 14) % len(MUTATE_WHICH)]
        case.update({"which": which})
        ctx.dist[f"rhist.mutate_args.{which}"] += 1
        gpos = lambda: np.array([[dy(rng, -3, 3, 64), dy(rng, -3, 3, 64)] for _ in range(B)])      # noqa: E731
        if which == "translation":
            gens = [gpos]
            args = [T(I, gpos(), torch.float64)]
            f = lambda pos: I.pu.fourier_translation_operator(pos, (nr, nc))      # noqa: E731
            chk = lambda out, a: pred(ctx, "ramp-oracle-after-inplace-update", "translation operator of an in-place updated position tensor != independent ramp", case,      # noqa: E731
                                      out.numpy(), oracle_ramp(nr, nc, a[0].numpy()), TOL32, "ramp after in-place update")
        elif which == "shift":
            gens = [lambda: carr(rng, (M, nr, nc)), gpos]
            args = [T(I, gens[0](), torch.complex128), T(I, gpos(), torch.float64)]
            f = lambda x_, pos: I.pu.fourier_shift_expand(x_, pos)      # noqa: E731
            chk = lambda out, a: pred(ctx, "shift-oracle-after-inplace-update", "fourier_shift_expand of in-place updated arguments != independent shift", case,      # noqa: E731
                                      out.numpy(), oracle_shift(a[0].numpy(), a[1].numpy()), TOL32, "shift after in-place update")
        elif which == "forward_operator":
            st = real_instance(ctx, M, (nr, nc)) if (nr, nc) in INST_SHAPES else real_instance(ctx, M, INST_SHAPES[rng.below(len(INST_SHAPES))])
            if st is None:
                return
            r0_, c0_ = (int(v) for v in st.roi_shape)
            gens = [lambda: np.exp(1j * rarr(rng, (1, B, r0_, c0_), -3, 3, 64)), lambda: carr(rng, (M, B, r0_, c0_)), gpos]
            args = [T(I, gens[0](), torch.complex128), T(I, gens[1](), torch.complex128), T(I, gpos(), torch.float64)]
            f = lambda pa, pr, ds: st.forward_operator(pa.clone(), pr.clone(), ds)[1]      # noqa: E731  (descan: the same object every time)
            chk = lambda out, a: pred(ctx, "forward-operator-oracle-after-inplace-update", "exit wave for an in-place updated descan tensor != patches*probes*independent ramp", case,      # noqa: E731
                                      out.numpy(), a[0].numpy()[0][None] * a[1].numpy() * oracle_ramp(r0_, c0_, a[2].numpy())[None], TOL32, "forward_operator after in-place update")
        elif which == "projection":
            st = real_instance(ctx, M) or ptycho_self(I, ctx, M, 1, None)
            gens = [lambda: rarr(rng, (B, nr, nc), 0, 2), lambda: carr(rng, (M, B, nr, nc))]
            args = [T(I, gens[0](), torch.float64), T(I, gens[1](), torch.complex128)]
            f = lambda A_, x_: st.fourier_projection(A_, x_)      # noqa: E731
            chk = lambda out, a: pred(ctx, f"proj-exact-after-inplace-update:{'single' if M == 1 else 'mixed'}", "Fourier projection of in-place updated amplitudes does not return them", case,      # noqa: E731
                                      np.where(np.ones_like(a[0].numpy(), dtype=bool) if M == 1 else (oracle_amplitudes(a[1].numpy()) != 0), oracle_amplitudes(out.numpy()), a[0].numpy()), a[0].numpy(), TOL64, "projection after in-place update")
        else:
            H, W = rng.randint(2, 6), rng.randint(2, 6)
            gens = [lambda: iarr(rng, (B, nr, nc)).astype(np.float64), lambda: iarr(rng, (B, nr, nc), 0, H * W - 1)]
            args = [T(I, gens[0](), torch.float64), T(I, gens[1](), torch.int64)]
            f = lambda p_, ix: I.pu.sum_patches(p_, ix, (H, W))      # noqa: E731

            def chk(out, a):
                ref = np.zeros(H * W)
                np.add.at(ref, a[1].numpy().reshape(-1), a[0].numpy().reshape(-1))
                pred(ctx, "scatter-oracle-after-inplace-update", "sum_patches of in-place updated arguments != independent np.add.at scatter", case, out.numpy().reshape(-1), ref, 0.0, "scatter after in-place update")
        for step in range(rng.randint(2, 3)):
            if step:
                for a_, g_ in zip(args, gens):
                    a_.copy_(T(I, g_(), a_.dtype))      # same objects, new values
            out = f(*args)      # no other call in between: an identity-keyed cache would still hold the previous values
            chk(out, args)
        fresh = f(*[a_.clone() for a_ in args])
        if _bits(out) != _bits(fresh):
            ctx.pred_fail(f"stale-after-inplace-update:{which}", f"{which}: the last call on in-place updated argument objects differs from the same call on fresh clones (stale cached value)", case,
                          observed="bitwise difference", required="identical results")
        ctx.sample({kk: case[kk] for kk in ("stream", "rseed", "op", "which", "shape", "modes")}, limit=12)
        return
    if op == "shift":
        x, pos = T(I, carr(rng, (M, nr, nc)), torch.complex128), np.array([[dy(rng, -4, 4, 64), dy(rng, -4, 4, 64)] for _ in range(B)])
        valid = lambda: I.pu.fourier_shift_expand(x, T(I, pos, torch.float64))      # noqa: E731
        bad = lambda: I.pu.fourier_shift_expand(x, T(I, pos[0], torch.float64))     # noqa: E731  1-D positions
        oracle = lambda out: pred(ctx, "shift-oracle-after-raise", "fourier_shift_expand after a rejected call != independent Fourier shift", case, out.numpy(), oracle_shift(x.numpy(), pos), TOL32, "shift after raise")   # noqa: E731
    elif op == "projection":
        st = real_instance(ctx, M) or ptycho_self(I, ctx, M, 1, None)
        A, xx = rarr(rng, (B, nr, nc), 0, 2), carr(rng, (M, B, nr, nc))
        At, xt = T(I, A, torch.float64), T(I, xx, torch.complex128)
        valid = lambda: st.fourier_projection(At.clone(), xt.clone())      # noqa: E731
        bad = lambda: st.fourier_projection(T(I, rarr(rng, (B, nr + 1, nc + 2), 0, 2), torch.float64), xt.clone())      # noqa: E731
        good = np.ones_like(A, dtype=bool) if M == 1 else (oracle_amplitudes(xx) != 0)
        oracle = lambda out: pred(ctx, f"proj-exact-after-raise:{'single' if M == 1 else 'mixed'}", "Fourier projection after a rejected call does not return the measured amplitudes", case,   # noqa: E731
                                  np.where(good, oracle_amplitudes(out.numpy()), A), A, TOL64, "projection exactness after raise")
    elif op == "propagate":
        names = [kk for kk in ("PtychographyBase._propagate_array", "ObjectBase._propagate_array") if I.priv[kk] is not None]
        if not names:
            skip_private(ctx, "rhist.propagate")
            return
        f = I.priv[rng.choice(names)]
        sr, sc, energy, thr, thc = gen_physics(rng)
        Q = impl_propagators(I, ctx, nr, nc, sr, sc, energy, thr, thc, 2, [dy(rng, 1, 12, 8)]).to(torch.complex128)
        a = T(I, carr(rng, (M, B, nr, nc)), torch.complex128)
        valid = lambda: f(None, a, Q[0])      # noqa: E731
        bad = lambda: f(None, a, torch.ones((nr + 1, nc + 2), dtype=torch.complex128))      # noqa: E731
        oracle = lambda out: pred(ctx, "propagate-oracle-after-raise", "propagation after a rejected call != independent ifft2(fft2(a)*P)", case, out.numpy(), oracle_propagate(a.numpy(), Q[0].numpy()), TOL64, "propagate after raise")   # noqa: E731
    elif op == "detector":
        det = I.Det()
        w = T(I, carr(rng, (M, B, nr, nc)), torch.complex128)
        valid = lambda: det.forward(w)      # noqa: E731
        bad = lambda: det.forward(torch.ones(3, dtype=torch.complex128))      # noqa: E731  1-D: no last two axes
        oracle = lambda out: pred(ctx, "detector-parseval-after-raise", "detector after a rejected call: summed intensity != exit-wave intensity", case,   # noqa: E731
                                  out.numpy().sum(axis=(1, 2)), np.sum(np.abs(w.numpy()) ** 2, axis=(0, 2, 3)), TOL64, "detector after raise")
    else:
        st = real_instance(ctx, M, (nr, nc))
        if st is None:
            return
        pat = T(I, np.exp(1j * rarr(rng, (1, B, nr, nc), -3, 3, 64)), torch.complex128)
        prb = T(I, carr(rng, (M, B, nr, nc)), torch.complex128)
        dsc = T(I, np.array([[dy(rng, -2, 2, 64), dy(rng, -2, 2, 64)] for _ in range(B)]), torch.float64)
        valid = lambda: st.forward_operator(pat.clone(), prb.clone(), dsc.clone())[1]      # noqa: E731
        bad = lambda: st.forward_operator(pat.clone(), prb.clone(), torch.zeros((B + 2, 2), dtype=torch.float64))[1]      # noqa: E731  descan for a different batch
        oracle = lambda out: pred(ctx, "purephase-energy-after-raise", "exit wave after a rejected forward_operator call does not carry the probe intensity (pure-phase patches)", case,   # noqa: E731
                                  np.sum(np.abs(out.numpy()) ** 2, axis=(0, 2, 3)), np.sum(np.abs(prb.numpy()) ** 2, axis=(0, 2, 3)), TOL32, "pure-phase energy after raise")
    r0 = valid()
    b0 = _bits(_snap(r0))
    try:
        bad()
        ctx.dist[f"rhist.{op}.bad-call=accepted"] += 1
    except Exception as e:   # noqa: BLE001
        ctx.dist[f"rhist.{op}.bad-call={exc_name(e)}"] += 1
    r1 = valid()
    if _bits(r1) != b0 or _bits(r0) != b0:
        ctx.pred_fail(f"result-differs-after-raise:{op}", f"{op}: the same valid call gives a different result after a rejected call (or the kept result changed)", case,
                      observed="bitwise difference", required="identical results")
    oracle(r1)
    ctx.sample({kk: case[kk] for kk in ("stream", "rseed", "op", "shape", "modes")}, limit=10)


# ----------------------------------------------------------------------------- stream: reset / configure / reset sessions
def ctext(v):
    """canonical text of a constraint value (what the Lean session model stores)"""
    if v is None or isinstance(v, (bool, int, float, str)):
        return repr(v) if not isinstance(v, str) else v
    if hasattr(v, "item") and getattr(v, "ndim", 1) == 0:
        return repr(v.item())
    return f"<{type(v).__name__}>"


def cdict(d):
    return [[str(k), ctext(v)] for k, v in d.items()]


OBJ_VALUES = {"gaussian_sigma": [None, 0.5, 1.0, 2.0], "q_lowpass": [None, 0, 0.0, 0.35], "q_highpass": [None, 0.0, 0.05],
              "identical_slices": [False, True], "apply_fov_mask": [False, True], "tv_weight_xy": [0, 0.1], "tv_weight_z": [0, 0.2],
              "positivity": [True, False], "butterworth_order": [4, 2], "surface_zero_weight": [0, 0.5]}
OTHER_VALUES = {"probe": {"orthogonalize_probe": [True, False], "center_probe": [False, True], "tv_weight": [0.0, 0.1]},
                "dataset": {"descan_tv_weight": [0.0, 0.1], "descan_shifts_constant": [False, True]}}
_SESSION_DEFAULTS = {}
SESSION_FIXED_KEYS = [("gaussian_sigma", 2.0), ("q_lowpass", 0.35), ("q_highpass", 0.05)]


def forward_energy(ctx, I, p, rng, case, tag, obj_type):
    """random pure-phase object state -> the real forward path -> unit-modulus patches and per-pattern energy"""
    torch = I.torch
    if not hasattr(p.obj_model, "_obj"):
        skip_private(ctx, "ObjectPixelated()._obj (session forward)")
        return
    idx_t = p.dset.patch_indices
    nb = idx_t.shape[0]
    H, W = (int(v) for v in p.obj_shape_full[-2:])
    phi = rarr(rng, (1, H, W), 0, 3, 64).astype(np.float32)
    if obj_type == "potential":
        newobj = T(I, phi, torch.float32)
    else:
        newobj = T(I, (rarr(rng, (1, H, W), 0.25, 2, 16) * np.exp(1j * phi)).astype(np.complex64), torch.complex64)
    p.obj_model._obj.data = newobj
    patches = p.obj_model.forward(idx_t)
    fract = T(I, np.array([[dy(rng, -0.5, 0.5, 64), dy(rng, -0.5, 0.5, 64)] for _ in range(nb)]), torch.float32)
    shifted = p.probe_model.forward(fract)
    descan = None if rng.chance(0.5) else T(I, np.array([[dy(rng, -2, 2, 64), dy(rng, -2, 2, 64)] for _ in range(nb)]), torch.float32)
    _pp, overlap = p.forward_operator(patches.clone(), shifted.clone(), descan)
    inten = p.detector_model.forward(overlap).detach().numpy().astype(np.float64)
    amp = np.abs(patches.detach().numpy().astype(np.complex128))
    ptot = float(np.sum(np.abs(p.probe_model.probe.detach().numpy().astype(np.complex128)) ** 2))
    pred(ctx, f"session-purephase-patches:{obj_type}:{tag}", "patches of a pure-phase object model under modulus-neutral (default) constraints are not unit modulus", case,
         amp, np.ones_like(amp), 1e-5, "session |obj patch|=1")
    pred(ctx, f"session-purephase-energy:{obj_type}:{tag}", "summed predicted diffraction intensity != probe total intensity (pure-phase object, constraints restored by reset_recon / fresh model)", case,
         inten.sum(axis=(1, 2)) / ptot, np.ones(nb), TOL32, "session pure-phase energy (float32)")
    ctx.dist[f"session.forward_checked:{tag}"] += 1


def s_session(ctx, drv, I, case):
    """histories of reset_recon / constraints setters (accepted and rejected with KeyError, partial writes included) on
    a real pure-phase reconstruction: the constraint dictionaries after EVERY operation against the Lean session model
    (Props.reset_restores_defaults), and whenever the model says the constraints in force keep a pure-phase object's
    modulus (after a reset, on a fresh model) the energy clause on the real forward path."""
    import warnings
    from qv.prng import Rng
    from props import ptycho_tiny as pt
    rng = Rng(case["rseed"])
    nr, nc = rng.choice(INST_SHAPES)
    M = rng.randint(1, 3)
    obj_type = rng.weighted([("pure_phase", 3), ("potential", 1)])
    if case.get("fixed") is not None:
        obj_type = "pure_phase"
        ctx.dist["session.fixed_block"] += 1
    p = real_instance(ctx, M, (nr, nc), obj_type, cache=False, seed=rng.randint(0, 50), rng_seed=rng.randint(0, 50), scan=(2, rng.randint(2, 3)))
    ctx.count()
    if p is None:
        return
    if not _SESSION_DEFAULTS:      # the defaults as the classes state them before the first session of this run
        _SESSION_DEFAULTS.update({"object": cdict(type(p.obj_model).DEFAULT_CONSTRAINTS), "probe": cdict(type(p.probe_model).DEFAULT_CONSTRAINTS),
                                  "dataset": cdict(type(p.dset).DEFAULT_CONSTRAINTS)})
    D = _SESSION_DEFAULTS
    okeys = [k for k, _ in D["object"]]

    def obj_items(nmax=3, bad=False):
        ks = [k for k in OBJ_VALUES if k in okeys]
        items = [(k, rng.choice(OBJ_VALUES[k])) for k in rng.sample(ks, min(len(ks), rng.randint(1, nmax)))]
        if rng.chance(0.5) and "gaussian_sigma" in okeys:      # the modulus-changing keys more often
            items.insert(rng.below(len(items) + 1), (rng.choice([k for k in ("gaussian_sigma", "q_lowpass", "q_highpass") if k in okeys]), rng.choice([0.5, 1.0, 0.35])))
        if bad:
            items.insert(rng.below(len(items) + 1), (rng.choice(["bogus", "gaussian_sigma_px", "tv_weight"]), 1))
        return items

    ops, mops = [], []
    mitems = lambda d: [[a, ctext(b)] for a, b in d.items()]      # noqa: E731

    def add(kind, payload=None):
        """append one operation (real call description + the model operations it stands for)"""
        if kind == "reset":
            ops.append(("reset",))
            mops.append([{"k": "reset"}])
        elif kind in ("ptycho_set", "reconstruct", "reconstruct_reset", "reconstruct_reset_empty"):
            entries = list(payload or [])
            ops.append((kind, entries))
            m = [{"k": "ptycho_set", "entries": [dict(cat=c, **({"items": mitems(v)} if isinstance(v, dict) else {})) for c, v in entries]}]
            mops.append(([{"k": "reset"}] if kind.startswith("reconstruct_reset") else []) + m)
        elif kind == "obj_set":
            ops.append(("obj_set", dict(payload)))
            mops.append([{"k": "obj_set", "items": mitems(dict(payload))}])
        else:
            ops.append(("obj_add", payload[0], payload[1]))
            mops.append([{"k": "obj_add", "key": payload[0], "value": ctext(payload[1])}])

    fx = case.get("fixed")
    if fx is not None:
        # fixed block (independent of the seed): reset -> set a modulus-changing object constraint through every setter ->
        # reset, the shorter history set -> reset, and the same with a rejected (partially written) dict in between
        key, val = SESSION_FIXED_KEYS[fx % len(SESSION_FIXED_KEYS)]
        setter = ["ptycho_set", "obj_add", "obj_set", "reconstruct", "reconstruct_reset"][(fx // len(SESSION_FIXED_KEYS)) % 5]
        variant = (fx // (5 * len(SESSION_FIXED_KEYS))) % 4
        if key not in okeys:
            return
        if variant in (0, 2):
            add("reset")
        if setter == "obj_add":
            add("obj_add", (key, val))
        elif setter == "obj_set":
            add("obj_set", {key: val})
        else:
            add(setter, [("object", {key: val})])
        if variant == 2:
            add("ptycho_set", [("object", {"tv_weight_xy": 0.1, "bogus": 1, key: None})])
        if variant == 3:      # un-set explicitly (the falsy value None) instead of resetting
            add("ptycho_set", [("object", {key: None})])
        else:
            add("reset")
    else:
        k = rng.randint(2, 7)
        for j in range(k):
            kind = rng.weighted([("reset", 4), ("ptycho_set", 4), ("ptycho_set_multi", 2), ("obj_set", 1), ("obj_add", 1), ("obj_add_bad", 1), ("reconstruct_reset", 1), ("reconstruct", 1)])
            if j == k - 1 and rng.chance(0.6):
                kind = rng.choice(["reset", "reset", "reconstruct_reset_empty"])
            if kind == "reset":
                add("reset")
            elif kind in ("ptycho_set", "reconstruct", "reconstruct_reset", "reconstruct_reset_empty"):
                items = [] if kind.endswith("empty") else obj_items(bad=rng.chance(0.25))
                add(kind, [("object", dict(items))] if items else [])
            elif kind == "ptycho_set_multi":
                entries = []
                for cat in rng.sample(["object", "probe", "dataset", "detector", "objectx"], rng.randint(2, 4)):
                    if cat == "object":
                        entries.append((cat, dict(obj_items(bad=rng.chance(0.3))) if rng.chance(0.85) else 3))
                    elif cat in OTHER_VALUES:
                        vals = OTHER_VALUES[cat]
                        d = {kk: rng.choice(vals[kk]) for kk in rng.sample(sorted(vals), rng.randint(1, 2)) if any(kk == q for q, _ in D[cat])}
                        if rng.chance(0.2):
                            d["bogus"] = 0
                        entries.append((cat, d))
                    else:
                        entries.append((cat, {} if rng.chance(0.7) else None))
                add("ptycho_set", entries)
            elif kind == "obj_set":
                add("obj_set", dict(obj_items(bad=rng.chance(0.3))))
            else:
                key = rng.choice(["bogus", "tv_weight"]) if kind == "obj_add_bad" else rng.choice([kk for kk in OBJ_VALUES if kk in okeys])
                add("obj_add", (key, 1 if kind == "obj_add_bad" else rng.choice(OBJ_VALUES[key])))
    case.update({"shape": [nr, nc], "modes": M, "obj_type": obj_type, "ops": [[o[0]] + [str(a) for a in o[1:]] for o in ops]})
    ctx.mark(("session", obj_type, tuple(o[0] for o in ops)))
    for o in ops:
        ctx.dist[f"session.op={o[0]}"] += 1
    flat = [m for grp in mops for m in grp]
    mres = ask(drv, {"op": "session", "obj_defaults": D["object"], "probe_defaults": D["probe"], "dset_defaults": D["dataset"], "num_slices": int(p.num_slices), "ops": flat})["ok"]
    # the fresh instance must start from the defaults
    if cdict(p.obj_model.constraints) != D["object"]:
        ctx.disagree("session-constraints", case, D["object"], cdict(p.obj_model.constraints), "a freshly built object model does not start from the default constraints")
    pos = 0
    with warnings.catch_warnings(), pt.no_gc():
        warnings.simplefilter("ignore")
        for j, (o, grp) in enumerate(zip(ops, mops)):
            raised = None
            try:
                if o[0] == "reset":
                    p.reset_recon()
                elif o[0] == "ptycho_set":
                    p.constraints = dict(o[1])
                elif o[0].startswith("reconstruct"):
                    p.reconstruct(num_iters=0, reset=o[0].startswith("reconstruct_reset"), constraints=dict(o[1]))
                elif o[0] == "obj_set":
                    p.obj_model.constraints = dict(o[1])
                else:
                    p.obj_model.add_constraint(o[1], o[2])
            except KeyError:
                raised = "KeyError"
            pos += len(grp)
            m = mres[pos - 1]
            m_raised = any(mres[q]["raised"] for q in range(pos - len(grp), pos))
            ctx.dist[f"session.raised={raised is not None}"] += 1
            got = {"raised": raised is not None, "obj": cdict(p.obj_model.constraints), "probe": cdict(p.probe_model.constraints), "dset": cdict(p.dset.constraints)}
            want = {"raised": m_raised, "obj": m["obj"], "probe": m["probe"], "dset": m["dset"]}
            if got != want:
                ctx.disagree("session-constraints", case, want, got, f"after operation {j + 1} of {len(ops)} ({o[0]}): constraint dictionaries / KeyError behaviour differ from the session model")
            # the energy clause whenever the MODEL says the constraints in force keep the modulus of a pure-phase object
            was_neutral = mres[pos - len(grp) - 1]["neutral"] if pos - len(grp) > 0 else True
            if m["neutral"] and (o[0] in ("reset", "reconstruct_reset_empty") or (j == len(ops) - 1) or not was_neutral or rng.chance(0.3)):
                forward_energy(ctx, I, p, rng, case, "after-reset" if o[0] in ("reset", "reconstruct_reset_empty") else "neutral-constraints", obj_type)
        if rng.chance(0.4):      # a model built AFTER the history starts from the defaults as well
            p2 = real_instance(ctx, M, (nr, nc), obj_type, cache=False, seed=1, rng_seed=1, scan=(2, 2))
            if p2 is not None:
                if cdict(p2.obj_model.constraints) != D["object"]:
                    ctx.disagree("session-constraints", case, D["object"], cdict(p2.obj_model.constraints), "an object model built after the history does not start from the default constraints")
                if all(mm["neutral"] for mm in mres[:1]) and ask(drv, {"op": "session", "obj_defaults": D["object"], "probe_defaults": D["probe"], "dset_defaults": D["dataset"], "num_slices": 1, "ops": [{"k": "reset"}]})["ok"][0]["neutral"]:
                    forward_energy(ctx, I, p2, rng, case, "fresh-model-after-history", obj_type)
    ctx.sample({kk: case[kk] for kk in ("stream", "rseed", "shape", "modes", "obj_type", "ops")}, limit=11)


STREAMS = {           # name: (function, quick count, thorough count)
    "gs": (s_gs, 250, 4000),
    "shiftint": (s_shiftint, 100, 1500),
    "shift": (s_shift, 130, 2000),
    "prop": (s_prop, 110, 2000),
    "forward": (s_forward, 110, 2000),
    "proj": (s_proj, 200, 3000),
    "instance": (s_instance, 50, 600),
    "history": (s_history, 130, 2500),
    "rhist": (s_rhist, 90, 2000),
    "session": (s_session, 25, 800),
    "stack": (_g6.s_stack, 3, 80),        # growth 6: genuine multislice instances (props/c16_g6.py)
    "geom": (_g6.s_geom, 3, 80),          # growth 6: non-square / wrap-around / two-results-alive / options
}


FIXED = {"proj": 36, "rhist": 24, "session": 60, "stack": len(_g6.STACK_TABLE), "geom": len(_g6.GEOM_SHAPES)}      # sizes of the fixed (seed-independent) blocks


def run_case(ctx, drv, I, name, case):
    """one case; an exception that comes out of the real code on a valid input is a predicate
    failure with that input (never a harness crash); anything else is a harness bug and propagates"""
    fn = STREAMS[name][0]
    try:
        fn(ctx, drv, I, case)
    except PrivateGone as e:
        ctx.dist[f"skipped:private-name-gone:{name}:{e}"] += 1
    except Exception as e:   # noqa: BLE001
        if not raised_in_real_code(e):
            raise
        if isinstance(e, AttributeError) and "SimpleNamespace" in str(e):
            ctx.dist[f"stub-insufficient:{name}"] += 1      # bare stub (factory unavailable) lacks an attribute
            return
        import traceback
        where = [f"{fr.filename.split('/src/')[-1]}:{fr.lineno}" for fr in traceback.extract_tb(e.__traceback__) if "/quantem/" in fr.filename][-1:]
        ctx.pred_fail(f"raises:{name}:{type(e).__name__}", f"the real code raised on a valid input ({name} stream)", case,
                      observed=f"{type(e).__name__}: {str(e)[:200]} at {where}", required="no exception")


def run(ctx):
    from qv.driver import Driver
    I = resolve_private(_imports(), ctx)
    I.torch.set_grad_enabled(False)
    _INST.clear()
    drv = Driver("C16")
    try:
        import os
        only = [x for x in os.environ.get("C16_ONLY", "").split(",") if x]      # development knob; the registered check runs everything
        check_signatures(ctx, I)
        for name, (fn, nq, nt) in STREAMS.items():
            if only and name not in only:
                continue
            for i in range(FIXED.get(name, 0)):      # fixed blocks: the same enumerated input classes for every seed
                run_case(ctx, drv, I, name, {"stream": name, "rseed": 1000003 * (i + 1), "fixed": i})
            for i in range(ctx.n(nq, nt)):
                case = {"stream": name, "rseed": ctx.rng.next()}
                run_case(ctx, drv, I, name, case)
    finally:
        drv.close()
        I.torch.set_grad_enabled(True)
        _INST.clear()
        _SESSION_DEFAULTS.clear()


def replay(ctx, rep):
    from qv.driver import Driver
    I = resolve_private(_imports(), ctx)
    I.torch.set_grad_enabled(False)
    case = rep.get("case") or (rep.get("correspondence_disagreements") or rep.get("disagreements") or [{}])[0].get("case")
    if not case:
        return False
    _INST.clear()
    drv = Driver("C16")
    try:
        if case["stream"] == "signature":
            check_signatures(ctx, I)
        else:
            run_case(ctx, drv, I, case["stream"], {k: case[k] for k in ("stream", "rseed", "fixed") if k in case})
    finally:
        drv.close()
        I.torch.set_grad_enabled(True)
        _INST.clear()
    return True
