"""C04, growth round 6: FIXED blocks (independent of VERIF_SEED) for the round-6 input classes.

* `fixed_cases()` — complete problems for `c04.run_problem` (every stream and predicate of the main loop): rotation in every
  quadrant, beyond +-pi and +-2pi and exactly on the axes, detectors with H < W and H > W, scans with r < c and r > c, two-digit
  num_bf, every kernel, parallax sub-cases with defocus / astigmatism at those rotations and the NumPy roll oracle at rotations
  k*pi/2 for k = -2, -1, 2, 3 (all four orientations of the detector against the scan).
* `run_sessions` — TWO LIVE objects on the same geometry with different hyper-parameters (rotation, defocus, and in the second
  configuration aperture / softness / upsampling), called alternately with full mask, sub-mask, its complement and the two
  checkerboard half-sets, and with another upsampling factor for single calls; every parallax result is judged by the NumPy roll oracle (independent of anything the process may have
  cached), every other kernel by a fresh object and by repeat-call determinism; half-set recombination on the live object;
  the private `_reconstruct_with_halfsets` / `_make_checkerboard_bf_masks` (when present) vs the Lean model `halfsetContexts`.
* `run_large` — num_bf = 289 (> 255) and a sub-mask whose stack rows go beyond 127 / 255: parallax vs the oracle for
  max_batch_size in {None, 16, 17, 127, 128, 144, 255, 256, n-1, n, n+1, 2n+1} (exact multiples, one more than a multiple,
  more than num_bf), batch invariance of the other kernels (two-pass ones over > 1 batch) at the same thresholds.
"""
import math

import numpy as np

OFFS = [(0, 0), (0, 1), (1, 0), (-1, 0), (0, -1), (1, 1), (-1, 1), (1, -2), (-2, 1), (2, 0), (0, 2), (-1, -1)]
E0, RS0 = 80e3, 0.19


def _c04():
    from . import c04
    return c04


def mk_case(i, det, scan, kernel, rot, u, *, soft=True, rho=2.9, sub=None, ab=None, sx=0.7, sy=None, flip=False, prlx=None,
            offs=OFFS, E=E0, rs=RS0, alias=None, stack_kind="int", tag="fixed"):
    c04 = _c04()
    lam = c04.wavelength(E)
    semi = rho * rs * lam * 1e3
    amax = semi * 1e-3
    if ab is None:
        ab = {"C10": 0.6 * 4.0 * lam / (amax * amax), "C12": -0.5 * 3.0 * lam / (amax * amax), "phi12": 0.7}
    ab = {k: float(np.float32(v)) for k, v in ab.items()}
    gr, gc = det
    pix = sorted(set((di % gr, dj % gc) for di, dj in offs))
    return {"idx": 9000 + i, "det": [gr, gc], "pix": [list(p) for p in pix], "crop": False, "pad": 1, "scan": list(scan),
            "sx": sx, "sy": sx if sy is None else sy, "rs": rs, "units": "A^-1", "E": E, "semiangle": semi, "soft": soft,
            "ab_kind": "C10+astig" if len(ab) == 3 else ("none" if not ab else "C10"), "ab": ab, "rot": rot, "u": u,
            "kernel": kernel, "alias": alias or c04.ALIASES[kernel][i % len(c04.ALIASES[kernel])], "ql": None, "qh": None,
            "order": 12, "eps": 0.1, "flip": flip, "sub": sub, "stack_seed": 1000 + i, "stack_kind": stack_kind,
            "stack2_seed": 2000 + i, "lin_a": [2.0, -1.0, 0.5][i % 3], "split_seed": 3000 + i, "sched_seed": 4000 + i,
            "prlx": prlx or {"kind": "astig", "t": 1, "u": 1, "rot": rot}, "r6": f"{tag}-{i}"}


def fixed_cases():
    hp = math.pi / 2
    sub8 = [0, 2, 3, 5, 7, 8, 10, 11]
    seven = OFFS[:5] + [(1, -2), (-2, 1)]
    return [
        # rotation: 2nd quadrant; H < W detector, r < c scan
        mk_case(0, (5, 8), (4, 7), "ssb", 2.2, 1, prlx={"kind": "astig", "t": 1, "u": 1, "rot": 2.2}, offs=seven),
        # 3rd quadrant; H > W detector, r > c scan; two-pass kernel, two-digit num_bf with a sub-mask; oracle at rotation pi
        mk_case(1, (8, 5), (7, 4), "obf", -2.2, 1, soft=False, sub=sub8,
                prlx={"kind": "int-defocus", "t": 1, "u": 2, "rot": 0.0, "rot_exact": 2 * hp}),
        # 4th quadrant; matched filter, upsampled
        mk_case(2, (6, 7), (3, 6), "mf", -0.9, 2, prlx={"kind": "defocus", "t": 1, "u": 1, "rot": -0.9}, offs=seven),
        # beyond +pi; parallax main kernel with sign flip; oracle at rotation -pi/2
        mk_case(3, (7, 5), (6, 3), "prlx", 3.9, 2, flip=True,
                prlx={"kind": "int-defocus", "t": -1, "u": 1, "rot": 0.0, "rot_exact": -hp}, offs=seven),
        # beyond -pi; icom
        mk_case(4, (5, 8), (3, 7), "icom", -4.4, 1, prlx={"kind": "astig", "t": 1, "u": 2, "rot": -4.4}, offs=seven),
        # beyond 2 pi; parallax; oracle at rotation 3 pi/2
        mk_case(5, (8, 6), (5, 4), "prlx", 7.0, 1, soft=False,
                prlx={"kind": "int-defocus", "t": 2, "u": 1, "rot": 0.0, "rot_exact": 3 * hp}, offs=seven),
    ]


# ---------------------------------------------------------------------------------------
# NumPy oracle: parallax with C10 = t*sx/(lam*rs), rotation k*pi/2, no sign flip, no filter

def checker_np(gr, gc):
    """independent evaluation of ifftshift(((i + j) % 2).bool())"""
    out = np.zeros((gr, gc), dtype=bool)
    for i in range(gr):
        for j in range(gc):
            out[i, j] = (((i + gr // 2) % gr + (j + gc // 2) % gc) % 2) == 1
    return out


def roll_oracle(case, stack, rows, pix_all, gpts, t, k4):
    c04 = _c04()
    r, c = case["scan"]
    u = case["u"]
    N, M = u * r, u * c
    ct, st = round(math.cos(k4 * math.pi / 2)), round(math.sin(k4 * math.pi / 2))
    pix = [pix_all[s] for s in rows]
    wts, _ = c04.aperture_weights(case, gpts, pix)
    W = sum(wts)
    st64 = stack[rows].astype(np.float64)
    ms = st64 - st64.mean(axis=(1, 2), keepdims=True)
    want = np.zeros((N, M))
    for q, (i, j) in enumerate(pix):
        comb = np.zeros((N, M))
        comb[::u, ::u] = ms[q]
        di, dj = c04.signed(gpts[0], i), c04.signed(gpts[1], j)
        want += np.roll(comb, (t * u * (di * ct - dj * st), t * u * (di * st + dj * ct)), axis=(0, 1))
    scale = max(float(np.abs(ms).sum(axis=0).max()) / max(W, 1e-30), 1e-30)
    return (want / max(W, 1e-30)).ravel(), W, scale


def prlx_case(i, det, scan, t, k4, u, *, soft, rho, offs=OFFS, rs=RS0, E=E0, sx=0.7, tag="session"):
    c04 = _c04()
    lam = c04.wavelength(E)
    case = mk_case(i, det, scan, "prlx", k4 * math.pi / 2, u, soft=soft, rho=rho, ab={"C10": t * sx / (lam * rs)}, sx=sx,
                   offs=offs, rs=rs, E=E, alias="parallax", tag=tag)
    case["ab"] = {"C10": t * sx / (lam * rs)}      # not rounded to float32: the shift must be a whole pixel
    case["t"], case["k4"] = t, k4
    return case


def mask_of(dp, ii, jj, rows):
    import torch
    m = torch.zeros_like(dp.bf_mask)
    for s in rows:
        m[ii[s], jj[s]] = True
    return m


def run_sessions(ctx, drv):
    c04 = _c04()
    for si, (det, scan) in enumerate([((5, 8), (7, 4)), ((8, 5), (4, 7))]):
        c04.guarded(ctx, {"r6_session": si}, _session, ctx, drv, si, det, scan)


def _session(ctx, drv, si, det, scan):
    import torch
    c04 = _c04()
    TOL = c04.TOL_LIN
    if si == 0:      # B differs from A in rotation and defocus ONLY
        cA = prlx_case(20, det, scan, 1, 1, 1, soft=True, rho=2.9)
        cB = prlx_case(21, det, scan, -1, 2, 1, soft=True, rho=2.9)
    else:            # ... and in aperture, softness and upsampling
        cA = prlx_case(22, det, scan, 2, -1, 2, soft=False, rho=2.6)
        cB = prlx_case(23, det, scan, 1, 3, 1, soft=True, rho=3.3)
    sA = c04.gen_stack(cA["stack_seed"], len(cA["pix"]), scan[0], scan[1], "int")
    sB = c04.gen_stack(cB["stack_seed"], len(cB["pix"]), scan[0], scan[1], "dyadic")
    objs = {"A": (c04.make_dp(cA, sA), cA, sA), "B": (c04.make_dp(cB, sB), cB, sB)}
    dpA = objs["A"][0]
    gpts = tuple(int(x) for x in dpA.gpts)
    ii, jj = torch.nonzero(dpA.bf_mask, as_tuple=True)
    pix_all = [(int(a), int(b)) for a, b in zip(ii, jj)]
    n = len(pix_all)
    cb = checker_np(*gpts)
    rows = {"full": list(range(n)), "sub": [0, 2, 3, 5, 7, 8, 10, 11], "comp": [1, 4, 6, 9],
            "h1": [s for s, p in enumerate(pix_all) if cb[p]], "h2": [s for s, p in enumerate(pix_all) if not cb[p]]}
    ctx.dist[f"r6-session:det-{'H<W' if gpts[0] < gpts[1] else 'H>W'}"] += 1
    tag = {"r6_session": si}

    def judge(who, what, b, step, u=None):
        dp, case, stack = objs[who]
        if u is not None:        # the same live object, another upsampling factor for this call only
            case = dict(case, u=u)
        rws = rows[what]
        m = None if what == "full" else mask_of(dp, ii, jj, rws)
        got = c04.recon(dp, case, bf_mask=m, b=b).reshape(len(rws), -1).sum(axis=0)
        want, W, scale = roll_oracle(case, stack, rws, pix_all, gpts, case["t"], case["k4"])
        err = c04.maxabs(got - want) / scale
        ctx.stat_max("r6_session_prlx_rel", err)
        ctx.count()
        if not err <= TOL:
            ctx.pred_fail("session-prlx", f"two live objects, step {step} ({who}, bf_mask={what}, max_batch_size={b}): parallax with "
                          "defocus != sum of the images rolled by the geometric shift / aperture weight", dict(tag, step=step),
                          observed={"rel_diff": err, "who": who, "mask": what, **c04.summarize(got)}, required=c04.summarize(want))
            return False
        return True

    plan = [("A", "full", None), ("B", "full", None), ("A", "sub", 3), ("B", "h1", 1), ("A", "h2", n + 1), ("B", "sub", None),
            ("A", "comp", 2), ("A", "full", n - 1), ("B", "h2", 4), ("A", "h1", None), ("B", "full", 5), ("A", "full", 2 * n)]
    for step, (who, what, b) in enumerate(plan):
        if not judge(who, what, b, step):
            return
    # a parameter changes between calls on ONE object: another upsampling factor, then the original one again
    uA, uB = objs["A"][1]["u"], objs["B"][1]["u"]
    for step, (who, what, b, u_) in enumerate([("A", "full", 2, 3 - uA), ("B", "sub", None, uB + 1), ("A", "sub", None, None),
                                               ("B", "full", 3, None), ("A", "h1", None, 3 - uA)], start=50):
        if not judge(who, what, b, step, u=u_):
            return

    # ---- the half-set code itself (private: internal stage, compared with the Lean model / the oracle, never a predicate) ----
    dpB, cB_, sB_ = objs["B"]
    mk = getattr(dpB, "_make_checkerboard_bf_masks", None)
    flat = [bool(x) for x in dpB.bf_mask.flatten().tolist()]
    ans = drv.ask({"op": "halfsets", "gr": gpts[0], "gc": gpts[1], "mask": [int(x) for x in flat]})
    ctx.count()
    want_h = [[bool(cb.ravel()[p]) and flat[p] for p in range(len(flat))], [(not bool(cb.ravel()[p])) and flat[p] for p in range(len(flat))]]
    mod = ans.get("ok", {})
    if [mod.get("h1"), mod.get("h2")] != want_h or mod.get("c1", {}).get("map") != rows["h1"] or mod.get("c2", {}).get("map") != rows["h2"]:
        ctx.disagree("halfsets", tag, {k: mod.get(k) for k in ("h1", "h2")}, want_h, note="model halfsetContexts vs independent checkerboard / stack rows")
    try:
        real = mk(dpB.gpts, dpB.bf_mask)
        real_h = [[bool(x) for x in h.flatten().tolist()] for h in real]
        real_map = [dpB._return_bf_context(h).vbf_index_mapping.tolist() for h in real]
    except (AttributeError, TypeError, ValueError) as e:
        ctx.extra["internal-stage-skipped:_make_checkerboard_bf_masks"] = f"private helper not usable in its known form ({type(e).__name__})"
    else:
        ctx.count()
        if real_h != [mod.get("h1"), mod.get("h2")] or real_map != [mod.get("c1", {}).get("map"), mod.get("c2", {}).get("map")]:
            ctx.disagree("halfsets", tag, {"h1": mod.get("h1"), "h2": mod.get("h2"), "maps": [mod.get("c1"), mod.get("c2")]},
                         {"h": real_h, "maps": real_map}, note="_make_checkerboard_bf_masks + _return_bf_context")
    run_h = getattr(dpB, "_reconstruct_with_halfsets", None)
    try:
        hs = run_h(upsampling_factor=cB_["u"], deconvolution_kernel="parallax", parallax_flip_phase=False, max_batch_size=2)
        hs = [h.detach().double().numpy().ravel() for h in hs]
    except (AttributeError, TypeError) as e:
        ctx.extra["internal-stage-skipped:_reconstruct_with_halfsets"] = f"private helper not usable in its known form ({type(e).__name__})"
    else:
        for h, nm in zip(hs, ("h1", "h2")):
            want, W, scale = roll_oracle(cB_, sB_, rows[nm], pix_all, gpts, cB_["t"], cB_["k4"])
            err = c04.maxabs(h - want) / scale
            ctx.count()
            if not err <= TOL:
                ctx.disagree("halfsets-run", dict(tag, half=nm), c04.summarize(want), c04.summarize(h),
                             note=f"_reconstruct_with_halfsets {nm} vs oracle: rel {err:.3g}")
    # public calls after the half-set run: still functions of (stack, mask, hyper-parameters) only
    for step, (who, what, b) in enumerate([("B", "full", None), ("A", "sub", None), ("B", "comp", 3)], start=100):
        if not judge(who, what, b, step):
            return

    # ---- the other kernels on the two live objects: repeat-call determinism, fresh object, half-set recombination ----
    for kern in (("ssb", "obf") if si == 0 else ("mf", "icom")):
        res = {}
        for who in ("A", "B"):
            dp, case, stack = objs[who]
            kc = dict(case, kernel=kern, alias=c04.ALIASES[kern][-1], flip=True)
            full1 = c04.recon(dp, kc, b=None)
            other = objs["B" if who == "A" else "A"]
            c04.recon(other[0], dict(other[1], kernel=kern, alias=kern), bf_mask=mask_of(other[0], ii, jj, rows["sub"]), b=2)
            h1 = c04.recon(dp, kc, bf_mask=mask_of(dp, ii, jj, rows["h1"]), b=n + 3).reshape(len(rows["h1"]), -1)
            h2 = c04.recon(dp, kc, bf_mask=mask_of(dp, ii, jj, rows["h2"]), b=1).reshape(len(rows["h2"]), -1)
            full2 = c04.recon(dp, kc, b=5)
            fdp = c04.make_dp(case, stack)
            fresh_h1 = c04.recon(fdp, kc, bf_mask=mask_of(dp, ii, jj, rows["h1"]), b=None).reshape(len(rows["h1"]), -1)
            fresh = c04.recon(c04.make_dp(case, stack) if who == "A" else fdp, kc, b=None)
            res[who] = full1
            dev = stack.astype(np.float64) - stack.astype(np.float64).mean(axis=(1, 2), keepdims=True)
            wts = c04.aperture_weights(case, gpts, pix_all)[0]
            floor = 0.05 * c04.maxabs(dev) / max(sum(wts), 1e-30)
            ctx.count()
            for nm, a_, b_ in (("repeat call after other calls", full2, full1), ("live object vs fresh object", full1, fresh),
                               ("half-set on live object vs fresh object", h1, fresh_h1)):
                ok, e = c04.close(a_.reshape(b_.shape), b_, c04.TOL_BATCH, floor)
                ctx.stat_max("r6_session_kernel_rel", e)
                if not ok:
                    ctx.pred_fail(f"session-{kern}", f"two live objects ({who}): {nm}", dict(tag, kernel=kern, who=who),
                                  observed={"rel_diff": e, **c04.summarize(a_)}, required=c04.summarize(b_))
                    return
            if kern in c04.SINGLE_PASS:
                W1, W2, WS = sum(wts[s] for s in rows["h1"]), sum(wts[s] for s in rows["h2"]), sum(wts)
                lhs = W1 * h1.sum(axis=0) + W2 * h2.sum(axis=0)
                rhs = WS * full1.reshape(n, -1).sum(axis=0)
                sc = max(c04.maxabs(rhs), c04.maxabs(W1 * h1.sum(axis=0)), c04.maxabs(W2 * h2.sum(axis=0)), WS * floor, 1e-30)
                err = c04.maxabs(lhs - rhs) / sc
                ctx.stat_max("r6_halfset_recombination_rel", err)
                ctx.count()
                if not err <= TOL:
                    ctx.pred_fail(f"recombine-{kern}", "checkerboard half-sets: W_1*bf_1 + W_2*bf_2 != W*bf", dict(tag, kernel=kern, who=who),
                                  observed={"rel_diff": err, "W": [W1, W2, WS], **c04.summarize(lhs)}, required=c04.summarize(rhs))
                    return
    # parallax again after the other kernels ran on the same two objects
    for step, (who, what, b) in enumerate([("A", "full", None), ("B", "h1", 2)], start=200):
        if not judge(who, what, b, step):
            return


# ---------------------------------------------------------------------------------------
# num_bf > 255

def run_large(ctx):
    c04 = _c04()
    c04.guarded(ctx, {"r6_large": True}, _large, ctx)


def _large(ctx):
    import torch
    c04 = _c04()
    offs = [(di, dj) for di in range(-8, 9) for dj in range(-8, 9)]
    case = prlx_case(30, (17, 18), (5, 4), 1, 1, 1, soft=True, rho=7.3, offs=offs, rs=0.05, E=200e3, sx=0.8, tag="large")
    n = len(case["pix"])
    stack = c04.gen_stack(case["stack_seed"], n, 5, 4, "int")
    dp = c04.make_dp(case, stack)
    gpts = tuple(int(x) for x in dp.gpts)
    ii, jj = torch.nonzero(dp.bf_mask, as_tuple=True)
    pix_all = [(int(a), int(b)) for a, b in zip(ii, jj)]
    tag = {"r6_large": True}
    ctx.dist[f"r6-large:num_bf-{n}"] += 1
    sub_rows = [s for s in range(n) if s >= 60 and s % 7]
    for what, rws, bs in (("full", list(range(n)), [None, 16, 17, 127, 128, 144, 255, 256, n - 1, n, n + 1, 2 * n + 1]),
                          ("sub", sub_rows, [None, 128, len(sub_rows) - 1, 255])):
        want, W, scale = roll_oracle(case, stack, rws, pix_all, gpts, case["t"], case["k4"])
        m = None if what == "full" else mask_of(dp, ii, jj, rws)
        for b in bs:
            got = c04.recon(dp, case, bf_mask=m, b=b).reshape(len(rws), -1).sum(axis=0)
            err = c04.maxabs(got - want) / scale
            ctx.stat_max("r6_large_prlx_rel", err)
            ctx.count()
            if not err <= c04.TOL_LIN:
                ctx.pred_fail("prlx-shift-large", f"num_bf={len(rws)} ({what} mask), max_batch_size={b}: parallax with defocus != sum of "
                              "the images rolled by the geometric shift / aperture weight", dict(tag, mask=what, b=b),
                              observed={"rel_diff": err, **c04.summarize(got)}, required=c04.summarize(want))
                return
    dev = stack.astype(np.float64) - stack.astype(np.float64).mean(axis=(1, 2), keepdims=True)
    floor = 0.05 * c04.maxabs(dev) / max(W, 1e-30)
    for kern in ("obf", "mf", "ssb", "icom"):
        kc = dict(case, kernel=kern, alias=kern, flip=True)
        ref = c04.recon(dp, kc, b=None)
        for b in ((256, 128, 17, n + 1) if kern in ("obf", "mf") else (256, 144)):
            got = c04.recon(dp, kc, b=b)
            ok, e = c04.close(got, ref, c04.TOL_BATCH, floor)
            ctx.stat_max("r6_large_batch_rel", e)
            ctx.count()
            if not ok:
                ctx.pred_fail(f"batch-{kern}", f"corrected_stack depends on max_batch_size ({b} vs {n}), num_bf={n}", dict(tag, kernel=kern, b=b),
                              observed={"rel_diff": e, "b": b, **c04.summarize(got)}, required=c04.summarize(ref))
                return


def run(ctx, drv):
    import time
    c04 = _c04()
    t0 = time.time()
    for case in fixed_cases():
        ctx.dist["r6-fixed:" + case["r6"]] += 1
        c04.guarded(ctx, case, c04.run_problem, ctx, drv, case)
    t1 = time.time()
    run_sessions(ctx, drv)
    t2 = time.time()
    run_large(ctx)
    t3 = time.time()
    ctx.extra["r6_seconds"] = {"fixed-problems": round(t1 - t0, 1), "sessions": round(t2 - t1, 1), "large": round(t3 - t2, 1)}
