"""C09 — streams added in growth round 6 (imported by props/c09.py).

  fixed batcher blocks (appended to the batcher stream; the INPUT CLASSES do not depend on VERIF_SEED)
      grid-both-sides   n = 41 … 110, val_ratio 0.65 / 0.72 / 0.85 (inverted grid: the strided selection is the TRAINING set) and
                        0.35 / 0.28 / 0.15, grid mode (+ random for a third), batch sizes 1 / 7 / 10 / 16 and n_train, n_train ± 1, n
      thresholds        n = 99 … 101, 127 … 129, 255 … 257, 1000, 1001 with and without a validation split; batch sizes that divide the
                        training set exactly (smallest and largest proper divisor), leave a remainder of ONE (smallest and largest such b),
                        equal it, exceed it by one, and 10 / 128 / 256
      int16             n = 32768, 32769 (b = 4096: exact multiple / remainder one) and 65537 (b = 65536), no validation split
  big       predicate only (vectorised, no model): n = 2**24 + 3 (indices beyond float32 integer exactness, b = 2**23 + 1 leaves a remainder of
            one) and n = 70001 with a grid split
  twins     SimpleBatcher objects alive at the same time: A(seed s1) and B(seed s2), same (n, b, ratio, mode), epochs drawn INTERLEAVED batch by
            batch; then A2(s1), B2(s2) on their own.  Same seed ⇒ same split and same epochs whatever else is alive (predicate); every batcher
            is also compared with the Lean model fed by its own twin generator (tie: a split or order memoised across objects shows up
            here).  Then `A.batch_size` is changed on the live object: len() must again be the number of batches yielded, each training index
            once (the reported number is a function of the CURRENT batch size).
  rerun     real Ptychography objects: p (seed s) and q (another seed) alive together; p.reconstruct(reset=True) three times with unchanged
            settings and a batch size < n_train (shuffled mini-batches), q in between (every 4th case: twice); a fresh same-seed object at the end.  All runs
            of one seed must be bit-identical in loss history, validation history and batch schedule; schedule clauses on every call.
"""
import math

GRID_RATIOS = [0.65, 0.72, 0.85, 0.35, 0.28, 0.15]
THRESHOLD_N = [99, 100, 101, 127, 128, 129, 255, 256, 257, 1000, 1001]


def _bs_for(nt):
    """batch sizes around the size nt of the training set: exact divisors, remainder one, equal, one more, fixed chunk sizes"""
    out = {10, 128, 256, nt, nt + 1, max(1, nt - 1)}
    divs = [d for d in range(2, nt) if nt % d == 0]
    if divs:
        out.update({divs[0], divs[-1]})
    rem1 = [b for b in range(2, nt - 1) if nt % b == 1]
    if rem1:
        out.update({rem1[0], rem1[-1]})
    return sorted(x for x in out if x >= 1)


def fixed_batcher_cases():
    from props import c09 as base
    cases = []
    for n in range(41, 111):
        for j, r in enumerate(GRID_RATIOS):
            nt = len(base.py_split(n, r, "grid", [])[0])
            b1 = [1, 7, 10, 16][(n + j) % 4]
            b2 = [nt, nt + 1, max(1, nt - 1), n][(n + j) % 4]
            for b in sorted({b1, b2}):
                cases.append({"n": n, "b": b, "ratio": r, "mode": "grid", "seed": 1000 * n + j, "shuffle": (n + j) % 5 != 0, "kind": "g6-grid-both-sides"})
            if j % 3 == 0:
                cases.append({"n": n, "b": b1, "ratio": r, "mode": "random", "seed": [0, 1000 * n + j][n % 2], "shuffle": True, "kind": "g6-grid-both-sides"})
    for n in THRESHOLD_N:
        splits = [(0.0, "grid"), (0.25, "grid"), (0.72, "grid"), (0.25, "random")] if n < 1000 else [(0.0, "grid"), (0.72, "grid")]
        for r, mode in splits:
            nt = len(base.py_split(n, r, mode, list(range(n)))[0])
            for b in _bs_for(nt):
                cases.append({"n": n, "b": b, "ratio": r, "mode": mode, "seed": 7 * n + b, "shuffle": (n + b) % 4 != 0, "kind": "g6-thresholds"})
    for n, b in ((32768, 4096), (32769, 4096), (65537, 65536)):
        cases.append({"n": n, "b": b, "ratio": 0.0, "mode": "grid", "seed": n, "shuffle": True, "kind": "g6-int16"})
    return cases


def big_batcher_case(ctx, c):
    """the schedule clauses on a very large SimpleBatcher, vectorised (no Lean model: the lists would not fit through the driver)"""
    import numpy as np
    from quantem.diffractive_imaging.ptycho_utils import SimpleBatcher
    n, b = c["n"], c["b"]
    ctx.count()
    ctx.dist["big:cases"] += 1
    ctx.mark(("big", n, b, c["ratio"], c["mode"]))
    B = SimpleBatcher(n, b, shuffle=True, rng=c["seed"], val_ratio=c["ratio"], val_mode=c["mode"])
    train = np.asarray(B.train_indices)
    val = np.asarray(B.val_indices)

    def counts(a):
        a = np.asarray(a)
        if a.size and (np.any(a < 0) or np.any(a != np.floor(a))):
            return None
        return np.bincount(a.astype(np.int64), minlength=n)
    ct, cv = counts(train), counts(val)
    if ct is None or cv is None or ct.size != n or cv.size != n or not np.array_equal(ct + cv, np.ones(n, dtype=ct.dtype)):
        bad = None if ct is None or cv is None or ct.size != n or cv.size != n else [int(i) for i in np.flatnonzero(ct + cv != 1)[:6]]
        ctx.pred_fail("split-not-partition", "train and validation indices are not a partition of range(n)", c,
                      observed={"n_train": int(train.size), "n_val": int(val.size), "first_indices_not_covered_exactly_once": bad}, required="disjoint, duplicate free, union = 0..n-1")
        return
    want = -(-int(train.size) // b)
    for ep in range(2):
        got, sizes = [], []
        for x in B:
            x = np.asarray(x)
            got.append(x)
            sizes.append(int(x.size))
            if len(got) > want + 8:
                break
        flat = np.concatenate(got) if got else np.zeros(0, dtype=np.int64)
        ce = counts(flat)
        if ce is None or ce.size != n or not np.array_equal(ce, ct):
            bad = None if ce is None or ce.size != n else [int(i) for i in np.flatnonzero(ce != ct)[:6]]
            ctx.pred_fail("epoch-not-exactly-once", "an epoch does not visit every training index exactly once", dict(c, epoch=ep),
                          observed={"visited": int(flat.size), "n_train": int(train.size), "first_indices_with_wrong_count": bad}, required="each training index once")
            return
        rep = len(B)
        if rep != len(got):
            ctx.pred_fail("len-vs-yielded", "len(batcher) differs from the number of batches yielded", dict(c, epoch=ep), observed={"len": rep, "yielded": len(got)}, required="equal")
            return
        if any(s == 0 or s > b for s in sizes):
            ctx.pred_fail("batch-size-bounds", "a yielded batch is empty or larger than batch_size", dict(c, epoch=ep), observed=sizes[:8], required=f"1..{b}")
            return


BIG_CASES = [{"stream": "big", "n": 2 ** 24 + 3, "b": 2 ** 23 + 1, "ratio": 0.0, "mode": "grid", "seed": 5},
             {"stream": "big", "n": 70001, "b": 1000, "ratio": 0.25, "mode": "grid", "seed": 0}]


def run_big_stream(ctx):
    for c in BIG_CASES:
        big_batcher_case(ctx, dict(c))


# ---------------------------------------------------------------------------------------
# twins: several batchers alive at once

def twins_case(ctx, drv, c):
    import numpy as np
    from quantem.diffractive_imaging.ptycho_utils import SimpleBatcher
    from props import c09 as base
    from qv.driver import f2b
    n, b, ratio, mode, s1, s2, b2 = c["n"], c["b"], c["ratio"], c["mode"], c["s1"], c["s2"], c["b2"]
    cap = 2 * n + 8
    ctx.count()
    ctx.dist["twins:cases"] += 1
    ctx.dist[f"twins:mode={mode},val={'0' if ratio == 0 else '<=0.5' if ratio <= 0.5 else '>0.5'}"] += 1
    ctx.mark(("twins", n, b, ratio, mode, b2))

    def mk(seed):
        return SimpleBatcher(n, b, shuffle=True, rng=seed, val_ratio=ratio, val_mode=mode)

    def view(B, epochs):
        return {"train": [int(x) for x in B.train_indices], "val": [int(x) for x in B.val_indices], "epochs": epochs}
    A, Bb = mk(s1), mk(s2)            # both alive
    eps = {"A": [], "B": []}
    for _ in range(2):
        ia, ib = iter(A), iter(Bb)
        ea, eb = [], []
        while True:                    # interleaved, batch by batch
            xa, xb = next(ia, None), next(ib, None)
            if xa is not None:
                ea.append([int(i) for i in xa])
            if xb is not None:
                eb.append([int(i) for i in xb])
            if (xa is None and xb is None) or len(ea) > cap or len(eb) > cap:
                break
        eps["A"].append(ea)
        eps["B"].append(eb)
    vA, vB = view(A, eps["A"]), view(Bb, eps["B"])
    lens = {"A": base._attempt(lambda: len(A)), "B": base._attempt(lambda: len(Bb))}
    A2, B2 = mk(s1), mk(s2)
    vA2 = view(A2, [base.capped(iter(A2), cap) for _ in range(2)])
    vB2 = view(B2, [base.capped(iter(B2), cap) for _ in range(2)])
    for name, v, v2, sd in (("A", vA, vA2, s1), ("B", vB, vB2, s2)):
        if v != v2:
            k = next(k for k in v if v[k] != v2[k])
            ctx.pred_fail("determinism-batchers-alive-together", f"two SimpleBatcher objects built with the same seed differ in their {k} when another batcher (other seed) is alive and iterated in between",
                          dict(c, which=name), observed={"with_other_alive": v[k] if k != "epochs" else v[k][0], "alone": v2[k] if k != "epochs" else v2[k][0]}, required="identical split and epochs for equal seeds")
        base.batcher_predicate(ctx, {"n": n, "b": b, "ratio": ratio, "mode": mode, "seed": sd, "stream": "twins", "case": c},
                               dict(v, len=lens[name], val_batches=base.capped(B2.iter_val() if name == "B" else A2.iter_val(), cap),
                                    val_len=int((B2 if name == "B" else A2).val_len()), has_validation=bool((B2 if name == "B" else A2).has_validation)))
    # tie: each batcher vs the Lean model fed by ITS OWN twin generator
    reqs = []
    for v, sd in ((vA, s1), (vB, s2)):
        g = np.random.default_rng(sd)
        perm = [int(x) for x in g.permutation(np.arange(n))] if base.py_nval(n, ratio) > 0 and mode == "random" else []
        tr = np.asarray(v["train"], dtype=int)
        orders = [[int(x) for x in g.permutation(tr)] for _ in range(2)]
        reqs.append({"op": "batcher_py", "n": n, "ratio": f2b(ratio), "mode": mode, "perm": perm, "b": b, "orders": orders})
    for (name, v), m in zip((("A", vA), ("B", vB)), base.ask_batched(drv, reqs)):
        if "driver" in str(m.get("err", "")):
            raise base.HarnessError(f"driver error {m}")
        mv = m.get("ok", m)
        mc = {k: mv.get(k) for k in v}
        if mc != v:
            ctx.disagree("batcher-twins", dict(c, which=name), mc, v, note=f"batcher {name} of two alive together (seeds {s1}, {s2}) vs the model with its own generator")
    # reconfigure the live object: the reported number follows the CURRENT batch size
    A.batch_size = b2
    ep = base.capped(iter(A), cap)
    rep = base._attempt(lambda: len(A))
    flat = sorted(i for x in ep for i in x)
    if flat != sorted(vA["train"]):
        ctx.pred_fail("epoch-not-exactly-once", "after batch_size was changed on the live batcher an epoch does not visit every training index exactly once", dict(c, step="batch_size changed"),
                      observed={"visited": flat, "train": sorted(vA["train"])}, required="a permutation of train")
    if rep != len(ep):
        ctx.pred_fail("len-vs-yielded", "after batch_size was changed on the live batcher len(batcher) differs from the number of batches yielded", dict(c, step="batch_size changed"),
                      observed={"len": rep, "yielded": len(ep), "batch_size": b2, "previous_batch_size": b}, required="equal")


def gen_twins_cases(ctx):
    """fixed grid of classes (n, b relation, split); only the seeds come from the run's generator"""
    from props import c09 as base
    rng = ctx.rng.fork(61)
    cases = []
    splits = [(0.0, "grid"), (0.25, "random"), (0.72, "grid"), (0.35, "random"), (0.25, "grid"), (0.85, "random")]
    i = 0
    for n in (2, 5, 12, 13, 30, 64, 101):
        for r, mode in splits:
            nt = max(1, len(base.py_split(n, r, mode, list(range(n)))[0]))
            b = [1, 2, 3, max(1, nt - 1), nt, nt + 1][i % 6]
            b2 = [b + 1, 1, 2 * b, max(1, b - 1)][i % 4]
            s1 = [0, 1, rng.below(1 << 30)][i % 3]
            cases.append({"stream": "twins", "n": n, "b": b, "b2": b2, "ratio": r, "mode": mode, "s1": s1, "s2": s1 + 1 + rng.below(1000)})
            i += 1
    return cases


def run_twins_stream(ctx, drv):
    for c in gen_twins_cases(ctx):
        twins_case(ctx, drv, c)


# ---------------------------------------------------------------------------------------
# rerun: the same object reconstructed again and again with reset=True, another object alive

RERUN_SPLITS = [(0.0, "grid"), (0.25, "random"), (0.72, "grid"), (0.35, "random")]


def gen_rerun_cfg(rng, i):
    from props import c09 as base
    c = base.gen_det_cfg(rng)
    c["val_ratio"], c["val_mode"] = RERUN_SPLITS[i % 4]
    c["iters"] = 2
    c["scan"] = [[4, 3], [4, 4], [5, 3], [3, 4]][i % 4]          # small scans: the stream repeats whole runs five times
    if i % 4 == 3:
        c["rng_seed"], c["seed_size"] = 0, "zero"
    c["q_twice"] = (i % 4 == 1)
    n = c["scan"][0] * c["scan"][1]
    n_train = len(base.py_split(n, c["val_ratio"], c["val_mode"], list(range(n)))[0])
    b = [3, 4, 5, 2][i % 4]
    while b >= n_train and b > 1:
        b -= 1
    return c, b


def rerun_case(ctx, cfg, b):
    from props import c09 as base
    from props import ptycho_tiny as pt
    N = cfg["scan"][0] * cfg["scan"][1]
    case = {"stream": "rerun", "cfg": cfg, "b": b}
    other = dict(cfg, rng_seed=cfg["rng_seed"] + 12345)

    def go(p, what):
        rec = pt.record_batches(p, b, num_iters=cfg["iters"], freeze=False, reset=True, loss_type=cfg["loss_type"],
                                optimizer_params=pt.sgd_params(cfg["lr"], cfg["lr"]))
        its = sorted({e["iter"] for e in rec})
        sched = [[e["indices"] for e in rec if not e["val"] and e["iter"] == t] for t in its]
        vals = [[e["indices"] for e in rec if e["val"] and e["iter"] == t] for t in its]
        base.run_schedule_predicate(ctx, dict(case, call=what), N, b, sched, vals, what, key="epoch-not-exactly-once-in-repeated-run")
        return {"losses": [float(x) for x in p.iter_losses], "val": [float(x) for x in p.val_iter_losses], "sched": sched}
    with pt.no_gc():
        p, q = base.build(cfg), base.build(other)         # two objects alive, different seeds
        P1 = go(p, "P1 (first reset run)")
        Q1 = go(q, "Q1 (other object, other seed)")
        P2 = go(p, "P2 (same object, reset=True again, nothing changed)")
        P3 = go(p, "P3 (third time)")
        Q2 = go(q, "Q2 (other object again)") if cfg.get("q_twice") else Q1
        F = go(base.build(cfg, canonical=True), "F (fresh same-seed object)")
    ctx.count()
    ctx.mark(("rerun", tuple(cfg["scan"]), cfg["loss_type"], b, cfg["val_ratio"], cfg["val_mode"], cfg["num_probes"]))
    ctx.dist[f"rerun:val={cfg['val_ratio']}/{cfg['val_mode']},seed={cfg.get('seed_size')}/{cfg.get('rng_form')}"] += 1
    if len(P1["losses"]) != cfg["iters"] or not all(math.isfinite(x) for x in P1["losses"]):
        ctx.pred_fail("loss-history-shape", "iter_losses does not hold one finite value per iteration", case, observed=P1["losses"], required=f"{cfg['iters']} finite values")
    for name, first, again in (("second reset run of the same object", P1, P2), ("third reset run of the same object", P1, P3), ("second reset run of the other object", Q1, Q2)):
        if first != again:
            k = next(k for k in first if first[k] != again[k])
            ctx.pred_fail("determinism-repeated-reset", f"reconstruct(reset=True) repeated with unchanged settings (batch size {b} < training set, another object alive): the {name} differs in {k}", dict(case, which=name),
                          observed={"first": first[k] if k != "sched" else first[k][:1], "again": again[k] if k != "sched" else again[k][:1]}, required="bit-identical loss history, validation history and batch schedule")
    if F != P1:
        k = next(k for k in F if F[k] != P1[k])
        ctx.pred_fail("determinism-same-seed", f"two objects built with the same seed produced different {k} (the second one was built after two other objects had been run)", case,
                      observed={"run1": P1[k] if k != "sched" else P1[k][:1], "run2": F[k] if k != "sched" else F[k][:1]}, required="bit-identical")


# ---------------------------------------------------------------------------------------
# batcher-rng: every kind of value handed to SimpleBatcher(rng=…) (open end of growth round 5)

BATCHER_RNG_VALUES = [None, 0, 3, 2 ** 40 + 1, -1, -7, 1.5, 2.0, "a", [1], {"x": 1}]


def run_batcher_rng_stream(ctx, drv):
    """accept / reject (exception TYPE) of `SimpleBatcher(num, b, rng=v)` and of the `rng` setter on a live batcher vs the model's
    `batcherRngCheck`; a rejected assignment must leave the batcher usable (tie only — the property gives no verdict on malformed seeds)"""
    import numpy as np
    from quantem.diffractive_imaging.ptycho_utils import SimpleBatcher
    from props import c09 as base
    for v in BATCHER_RNG_VALUES:
        case = {"stream": "batcher-rng", "value": v if not isinstance(v, dict) else "dict"}
        ctx.count()
        ctx.dist["batcher-rng:" + type(v).__name__] += 1
        ctx.mark(("batcher-rng", repr(v)))
        try:
            B = SimpleBatcher(7, 3, rng=v, val_ratio=0.3, val_mode="random")
            impl = "accepted"
            if not isinstance(B.rng, np.random.Generator) or sorted(int(i) for x in B for i in x) != sorted(int(i) for i in B.train_indices):
                impl = "accepted-but-unusable"
        except Exception as e:  # noqa
            impl = type(e).__name__
        live = SimpleBatcher(7, 3, rng=11)
        try:
            live.rng = v
            impl2 = "accepted"
        except Exception as e:  # noqa
            impl2 = type(e).__name__
        if sorted(int(i) for x in live for i in x) != list(range(7)):
            impl2 += "-then-unusable"
        m = drv.ask({"op": "batcher_rng", "value": v if not isinstance(v, (list, dict)) else [1]})
        if "ok" not in m:
            raise base.HarnessError(f"driver error {m}")
        if m["ok"] != impl or m["ok"] != impl2:
            ctx.disagree("batcher-rng", case, m["ok"], {"constructor": impl, "setter": impl2}, note="SimpleBatcher(rng=v) / batcher.rng = v: accepted or exception type vs batcherRngCheck")
