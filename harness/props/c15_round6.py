"""C15, growth round 6 — FIXED blocks (independent of VERIF_SEED) along the round-6 themes and the batched-splat stream.

* `edge_cases()`      coords cases (run by c15.case_coords): pad_fraction = 0 with on-axis scans (samples exactly on the LAST canvas
                      row / column), rotated images whose corners leave the canvas, strongly non-square images at 90° (whole rows beyond
                      the canvas, wrap-around), scan angles in every quadrant / negative / beyond 180° / beyond 360°, knot counts 1..4.
* `fixedpoint_cases()` align cases (run by c15.case_align): landscape (H < W) and portrait (H > W) canvases, identical stacks and stacks
                      rolled by ±1 px (coarse correlation peak in column 0, in column 1 and in the LAST column, whose index is >= the
                      number of canvas rows on a landscape canvas), upsample factors 1, 2, 8.
* `case_reuse`        one DriftCorrection object used twice: preprocess → align_translation / align_affine that really moves the knots →
                      (a second object with the same geometry is built while the first is alive) → preprocess again with the same
                      configuration: placement formula, unit weights, equality with the fresh object, and the same again after a second
                      alignment.
* `case_splatb`       bilinear_kde with max_batch_size dividing the point count exactly / leaving remainder 1 / exceeding it / None, point
                      counts up to 300 (> 255), negative coordinates, points on the last row / column: slices of generate_batches and the
                      raw weight map against Model/DriftBatch.lean (exact), weight map identical for every batch size, total = count.
"""
import contextlib
import io
import math
from fractions import Fraction

import numpy as np

TOL64 = 1e-9


# ------------------------------------------------------------------------------------------------ fixed coords block
EDGE_SHAPES = [(4, 4), (6, 4), (4, 6), (5, 5), (3, 8), (8, 3), (2, 2), (7, 4), (2, 9)]
EDGE_ANGLES = [[0, 90, 180, 270], [-90, -180, 450, 360], [45, 135, 225, 315], [-45, 200.5, 359, -270.0],
               [30, 120, 210, 300], [-30, -120, 540, 719.5]]


def edge_cases():
    out = []
    k = 0
    for si, (H, W) in enumerate(EDGE_SHAPES):
        for ai, angles in enumerate(EDGE_ANGLES):
            nk = 1 + (si + ai) % 4
            pad = 0.0 if (si + ai) % 3 != 2 else [0.125, 0.1, 0.25][(si + ai) % 9 // 3]
            n = [4, 3, 2][(si + 2 * ai) % 3]
            out.append({"stream": "coords", "block": "edge", "H": H, "W": W, "nk": nk, "pad": pad, "angles": angles[:n] if n < 4 else angles,
                        "pad_value": ["median", 0.25, "mean"][k % 3], "sigma": [0.5, 0.0, 1.0][k % 3], "sub": 1000 + k})
            k += 1
    return out


# ------------------------------------------------------------------------------------------------ fixed align block
def fixedpoint_cases():
    out = []
    k = 0
    shapes = [(4, 8), (8, 4), (5, 8), (8, 5), (6, 6)]
    for si, (H, W) in enumerate(shapes):
        for ui, up in enumerate((1, 2, 8)):
            out.append({"stream": "align", "block": "fixedpoint", "H": H, "W": W, "nk": 1 + (si + ui) % 4, "pad": [0.25, 0.0, 0.5][(si + ui) % 3],
                        "deg": [0, 90, 200, -45, 270][(si + 2 * ui) % 5], "n": 2 + (si + ui) % 3, "up": up, "identical": True,
                        "sigma": [0.5, 1.0][ui % 2], "max_shift": 32, "sub": 2000 + k})
            k += 1
    # rolled stacks: coarse peak in column 1 / the last column / the last row, landscape and portrait canvases
    rolls = [[[0, 0], [0, -1]], [[0, 0], [0, 1]], [[0, 0], [-1, 0]], [[0, 0], [1, -1], [-1, 1]]]
    for si, (H, W) in enumerate(shapes[:4]):
        for ui, up in enumerate((1, 2, 8)):
            ts = rolls[(si + ui) % 4]
            out.append({"stream": "align", "block": "fixedpoint", "H": H, "W": W, "nk": 1 + (si + 2 * ui) % 4, "pad": 0.25,
                        "deg": [0, 180][(si + ui) % 2], "n": len(ts), "up": up, "identical": False, "ts": ts,
                        "sigma": 0.5, "max_shift": 32, "sub": 2100 + k})
            k += 1
    # a shift larger than half the SHORTER canvas axis along the longer one (column shift on a landscape canvas, row shift on a
    # portrait one): wrap-around of the measured shift must use the axis' own length
    for (H, W, ts) in ((4, 8, [[0, 0], [0, 4]]), (8, 4, [[0, 0], [4, 0]]), (4, 8, [[0, 0], [0, -3]]), (8, 4, [[0, 0], [-3, 1]])):
        for up in (1, 8):
            out.append({"stream": "align", "block": "fixedpoint", "H": H, "W": W, "nk": 1 + k % 4, "pad": 0.25, "deg": 0, "n": 2, "up": up,
                        "identical": False, "ts": ts, "sigma": 0.5, "max_shift": 32, "sub": 2200 + k})
            k += 1
    return out


# ------------------------------------------------------------------------------------------------ one object used twice
def reuse_cases():
    out = []
    k = 0
    shapes = [(6, 6), (5, 8), (8, 5), (4, 7), (7, 4), (6, 9)]
    for si, (H, W) in enumerate(shapes):
        for nk in (1, 2, 3, 4):
            how = "affine" if (si + nk) % 4 == 0 else "translation"
            n = 2 + (si + nk) % 2
            angs = [[0] * 3, [90] * 3, [200, 200, 200], [-45, -45, -45], [0, 90, 180], [315, 315, 315]][(si + nk) % 6][:n]
            ts = [[0, 0], [1, -1], [-1, 1]][:n]
            out.append({"stream": "reuse", "H": H, "W": W, "n": n, "nk": nk, "pad": [0.25, 0.5, 0.0][(si + nk) % 3], "angles": angs, "ts": ts,
                        "sigma": 0.5, "up": [1, 2, 8][(si + nk) % 3], "how": how, "sub": 3000 + k})
            k += 1
    return out


def _quiet(f):
    with contextlib.redirect_stdout(io.StringIO()), contextlib.redirect_stderr(io.StringIO()):
        return f()


def _placement_err(c15, dc, H, W, angles):
    scale = max(1.0, float(dc.shape[1]), float(dc.shape[2]))
    worst = 0.0
    for idx, deg in enumerate(angles):
        xa, ya = dc.interpolator[idx].transform_coordinates(dc.knots[idx])
        xa, ya = np.asarray(xa, dtype=float), np.asarray(ya, dtype=float)
        ex, ey = c15.placement_oracle(H, W, dc.shape[1], dc.shape[2], deg)
        err = max(float(np.max(np.abs(xa - ex))), float(np.max(np.abs(ya - ey)))) if xa.shape == ex.shape else float("inf")
        worst = max(worst, err)
    return worst, scale


def _state_diff(a, b):
    """behavioural distance of two objects: canvas, knots, per-pixel coordinates (px), warped stack / weights (relative)"""
    if tuple(a.shape) != tuple(b.shape) or len(a.knots) != len(b.knots):
        return float("inf"), float("inf")
    g = 0.0
    for i in range(len(a.knots)):
        ka, kb = np.asarray(a.knots[i], dtype=float), np.asarray(b.knots[i], dtype=float)
        if ka.shape != kb.shape:
            return float("inf"), float("inf")
        g = max(g, float(np.max(np.abs(ka - kb))))
        ca, cb = a.interpolator[i].transform_coordinates(a.knots[i]), b.interpolator[i].transform_coordinates(b.knots[i])
        g = max(g, float(np.max(np.abs(np.asarray(ca[0], dtype=float) - np.asarray(cb[0], dtype=float)))),
                float(np.max(np.abs(np.asarray(ca[1], dtype=float) - np.asarray(cb[1], dtype=float)))))
    wa, wb = np.asarray(a.images_warped.array, dtype=float), np.asarray(b.images_warped.array, dtype=float)
    ca_, cb_ = np.asarray(a.weights_warped.array, dtype=float), np.asarray(b.weights_warped.array, dtype=float)
    w = max(float(np.max(np.abs(wa - wb))) / max(1.0, float(np.max(np.abs(wb)))), float(np.max(np.abs(ca_ - cb_))) / max(1.0, float(np.max(np.abs(cb_)))))
    return g, w


def case_reuse(ctx, c15, case):
    from qv.prng import Rng
    from quantem.imaging.drift import DriftCorrection
    H, W, n, nk, pad, angles = case["H"], case["W"], case["n"], case["nk"], case["pad"], case["angles"]
    rng = Rng(case["sub"])
    base = c15.make_image(rng, H, W)
    images = [np.roll(base, (t[0], t[1]), (0, 1)) for t in case["ts"]]
    ctx.count()
    ctx.dist[f"reuse:{case['how']}"] += 1
    ctx.dist[f"reuse:nk={nk}"] += 1
    ctx.dist[f"reuse:shape={c15.shape_sig(H, W)}"] += 1
    cfg = dict(pad_fraction=pad, pad_value="median", kde_sigma=case["sigma"], number_knots=nk)

    def align(o):
        if case["how"] == "affine":
            _quiet(lambda: o.align_affine(num_tests=3, upsample_factor=case["up"], show_merged=False))
        else:
            _quiet(lambda: o.align_translation(upsample_factor=case["up"], show_merged=False))

    A = DriftCorrection.from_data([im.copy() for im in images], list(angles))
    A.preprocess(**cfg)
    k0 = [np.array(k, dtype=float, copy=True) for k in A.knots]
    align(A)
    moved = max(float(np.max(np.abs(np.asarray(k1, dtype=float) - k))) for k1, k in zip(A.knots, k0))
    ctx.stat_max("reuse:knot motion of the first alignment (px)", moved)
    ctx.dist["reuse:first alignment moved the knots" if moved > 1e-3 else "reuse:first alignment did not move the knots"] += 1
    # a second object with the same geometry, built while the first (aligned) one is alive
    B = c15.build(images, angles, pad, "median", case["sigma"], nk)
    errB, scale = _placement_err(c15, B, H, W, angles)
    ctx.stat_max("reuse:placement_err (second object)", errB)
    if not errB <= TOL64 * scale:
        ctx.pred_fail(f"reuse-second-object-placement-nk{nk}", "a DriftCorrection object built and preprocessed while another object with the same geometry "
                      "has been aligned does not place pixel (r,c) at canvas centre + rotation of its offset (geometry shared between objects)",
                      case, observed={"max_err_px": errB}, required="<= 1e-9 * canvas size")
    # the first object again, same configuration
    A.preprocess(**cfg)
    errA, _ = _placement_err(c15, A, H, W, angles)
    ctx.stat_max("reuse:placement_err (same object, second preprocess)", errA)
    if not errA <= TOL64 * scale:
        ctx.pred_fail(f"reuse-placement-nk{nk}", "preprocess() repeated with the same configuration after an alignment that moved the knots does not "
                      "place pixel (r,c) at canvas centre + rotation of its offset (drift left in the initial geometry)",
                      case, observed={"max_err_px": errA, "first_alignment_moved_px": moved}, required="<= 1e-9 * canvas size")
    wsum = [float(np.sum(np.asarray(w, dtype=np.float64))) for w in A.weights_warped.array]
    if any(abs(v - H * W) / (H * W) > 1e-4 for v in wsum):
        ctx.pred_fail("reuse-weight-sum", "weight map after the second preprocess() does not sum to the number of image pixels", case, observed=wsum, required=H * W)
    g, w = _state_diff(A, B)
    ctx.stat_max("reuse:second preprocess vs fresh object (px)", g)
    if not (g <= TOL64 * scale and w <= 1e-6):
        ctx.pred_fail(f"reuse-differs-from-fresh-nk{nk}", "preprocess() repeated on a used object differs from a fresh object's preprocess() with the same configuration",
                      case, observed={"geometry_diff_px": g, "warped_rel_diff": w}, required="identical")
    # second repetition of the alignment: the used object and the fresh one must behave alike
    if case["how"] == "translation" and all(c15.unique_peak(x) for x in B.images_warped.array):
        align(A)
        align(B)
        g2, w2 = _state_diff(A, B)
        ctx.stat_max("reuse:second alignment vs fresh object (px)", g2)
        if not (g2 <= 1e-6 * scale and w2 <= 1e-5):
            ctx.pred_fail("reuse-second-alignment-differs", "align_translation() after preprocess → align → preprocess differs from the same call on a fresh object",
                          case, observed={"geometry_diff_px": g2, "warped_rel_diff": w2}, required="identical")
        # the stack as a whole does not move and every image moves rigidly: still the property's geometry + applied shift
        errs = []
        for idx, deg in enumerate(angles):
            xa, ya = A.interpolator[idx].transform_coordinates(A.knots[idx])
            ex, ey = c15.placement_oracle(H, W, A.shape[1], A.shape[2], deg)
            dx, dy = np.asarray(xa, dtype=float) - ex, np.asarray(ya, dtype=float) - ey
            errs.append(max(float(np.max(dx) - np.min(dx)), float(np.max(dy) - np.min(dy))))
        if not max(errs) <= 1e-9 * scale:
            ctx.pred_fail("reuse-translation-not-rigid", "after the second align_translation() the pixels of one image are not the initial placement moved by one common shift",
                          case, observed={"spread_px": max(errs)}, required="rigid translation of the initial geometry")
    ctx.mark(("reuse", c15.shape_sig(H, W), nk, case["how"], tuple(sorted({c15.angle_class(a) for a in angles})), case["up"]))
    ctx.sample(case, limit=3)


# ------------------------------------------------------------------------------------------------ batched splat
def _dy(v, e):
    return [int(v), int(e)]


def splatb_cases():
    """point lists (dyadic coordinates: [num, log2 den, num, log2 den]) × batch sizes"""
    out = []
    # 6 points on a 4 x 5 canvas: last row / last column exactly, beyond, negative, interior
    pts6 = [[3, 0, 4, 0], [3, 0, 1, 1], [7, 1, 9, 1], [-1, 2, 3, 0], [-5, 1, -3, 2], [9, 1, 21, 2]]
    for b in (None, 1, 2, 3, 4, 5, 6, 7, 100):
        out.append({"stream": "splatb", "rows": 4, "cols": 5, "pts": pts6, "batch": b, "hw": [2, 3]})
    # 7 points (prime) on a 3 x 3 canvas
    pts7 = [[2, 0, 2, 0], [0, 0, 0, 0], [-1, 0, -1, 0], [5, 1, 5, 1], [-7, 2, 11, 2], [2, 0, 1, 1], [1, 3, 23, 3]]
    for b in (None, 2, 3, 6, 7, 8):
        out.append({"stream": "splatb", "rows": 3, "cols": 3, "pts": pts7, "batch": b, "hw": [7, 1]})
    # 300 points (> 255; 300 = 3*100 = 2*150, 299 leaves remainder 1, 128 / 256 straddle the byte thresholds) on 6 x 7 and 7 x 6 canvases
    for (rows, cols) in ((6, 7), (7, 6)):
        pts = []
        for p in range(300):
            e1, e2 = p % 4, (p // 4) % 4
            x = ((p * 37) % ((rows + 4) << e1)) - (2 << e1)
            y = ((p * 53 + 11) % ((cols + 4) << e2)) - (2 << e2)
            pts.append([x, e1, y, e2])
        pts[0] = [rows - 1, 0, cols - 1, 0]
        pts[299] = [-(rows), 0, -(cols), 0]
        for b in ((None, 100, 299, 128, 256, 301) if rows == 6 else (150, 7, 1)):
            out.append({"stream": "splatb", "rows": rows, "cols": cols, "pts": pts, "batch": b, "hw": [15, 20] if rows == 6 else [20, 15]})
    return out


def _real_batches(n, b):
    """slices of the library's batching helper (public quantem.core.utils.utils.generate_batches); None when it is not there"""
    try:
        from quantem.core.utils import utils as U
        gb = getattr(U, "generate_batches", None)
    except Exception:
        gb = None
    if gb is None:
        return None
    try:
        return [[int(s), int(e)] for s, e in gb(n, max_batch=b)]
    except ZeroDivisionError:
        return "raises"


def case_splatb(ctx, drv, c15, case):
    from quantem.core.utils.imaging_utils import bilinear_kde
    rows, cols, pts, b = case["rows"], case["cols"], case["pts"], case["batch"]
    n = len(pts)
    xa = np.array([p[0] / float(1 << p[1]) for p in pts])
    ya = np.array([p[2] / float(1 << p[3]) for p in pts])
    hw = case.get("hw") or [n, 1]
    ctx.count()
    cls = "none" if b is None else ("exceeds" if b > n else ("divides" if n % b == 0 else ("remainder 1" if n % b == 1 else "remainder >1")))
    ctx.dist[f"splatb:batch {cls}"] += 1
    ctx.dist[f"splatb:n={n}"] += 1
    img, w = bilinear_kde(xa=xa.reshape(hw), ya=ya.reshape(hw), values=np.ones(hw), output_shape=(rows, cols), kde_sigma=0.0,
                          max_batch_size=b, return_pix_count=True)
    w = np.asarray(w, dtype=np.float64)
    m = c15.ask(drv, {"op": "splatb", "rows": rows, "cols": cols, "batch": -1 if b is None else int(b),
                      "pts": [[f"{p[0]}/{1 << p[1]}", f"{p[2]}/{1 << p[3]}"] for p in pts]})
    if m.get("raises"):
        ctx.disagree("splatb-raises", case, "raises", "returns", note="kdeBatches vs bilinear_kde")
        return
    # internal stage: the slices the batch loop walks through
    rb = _real_batches(n, n if b is None else b)
    if rb is None:
        ctx.extra["splatb:generate_batches not found (slices not compared)"] = True
    elif rb != [list(q) for q in m["batches"]]:
        ctx.disagree("splatb-batches", case, m["batches"], rb, note="generateBatches (subdivideBatches n max_batch) vs utils.generate_batches")
    mw = [[Fraction(*map(int, v.split("/"))) for v in row] for row in m["w"]]
    iw = [[Fraction(float(v)) for v in row] for row in w]
    if mw != iw:
        bad = [(i, j) for i in range(rows) for j in range(cols) if i < len(iw) and j < len(iw[i]) and mw[i][j] != iw[i][j]][:3]
        ctx.disagree("splatb", case, {f"{i},{j}": str(mw[i][j]) for i, j in bad}, {f"{i},{j}": str(iw[i][j]) for i, j in bad},
                     note="weightMapBatched vs bilinear_kde pix_count (exact)")
    tot = sum(sum(r) for r in iw)
    if tot != n:
        ctx.pred_fail("weight-sum-splat-batched", "raw weight map does not sum to the number of points (unit weight per pixel) for this max_batch_size", case,
                      observed=str(tot), required=n)
    # the un-batched call must give the same map (theorem weight_map_independent_of_batch_size)
    if b is not None:
        _, w0 = bilinear_kde(xa=xa.reshape(hw), ya=ya.reshape(hw), values=np.ones(hw), output_shape=(rows, cols), kde_sigma=0.0, return_pix_count=True)
        if not np.array_equal(np.asarray(w0, dtype=np.float64), w):
            ctx.pred_fail("weight-map-depends-on-batch-size", "the weight map of bilinear_kde depends on max_batch_size (a pixel is dropped or counted twice at a slice boundary)",
                          case, observed={"max_diff": float(np.max(np.abs(np.asarray(w0, dtype=np.float64) - w)))}, required="identical for every batch size")
    ctx.mark(("splatb", rows, cols, n, cls))
    ctx.sample(case, limit=2)


def case_batches(ctx, drv, c15):
    """utils.generate_batches(n, max_batch=b) vs Model/DriftBatch.lean on a fixed grid of (n, b), thresholds included"""
    grid = [(n, b) for n in (1, 2, 3, 6, 7, 12, 127, 128, 255, 256, 257, 300, 1000) for b in (1, 2, 3, 5, 6, 7, 100, 128, 255, 256, 299, 300, 301, 2000)]
    if _real_batches(1, 1) is None:
        ctx.extra["batches:generate_batches not found (stream skipped)"] = True
        return
    for n, b in grid:
        ctx.count()
        m = c15.ask(drv, {"op": "batches", "n": n, "mb": b})
        rb = _real_batches(n, b)
        mm = "raises" if m.get("raises") else [list(q) for q in m["batches"]]
        if mm != rb:
            ctx.disagree("batches", {"stream": "batches", "n": n, "b": b}, mm, rb, note="generateBatches ∘ subdivideBatches vs utils.generate_batches")
        if rb != "raises":
            ok = rb[0][0] == 0 and rb[-1][1] == n and all(a[1] == c[0] for a, c in zip(rb, rb[1:])) and all(s <= e for s, e in rb)
            if not ok:
                ctx.pred_fail("batches-do-not-tile", "generate_batches does not cut the points into consecutive slices that cover each point exactly once",
                              {"stream": "batches", "n": n, "b": b}, observed=rb[:4], required="tiling of range(n)")
    ctx.dist["batches:grid"] += len(grid)
    ctx.mark(("batches", len(grid)))


# ------------------------------------------------------------------------------------------------ input forms of from_data
def inputform_cases():
    return [{"stream": "inputforms", "H": H, "W": W, "n": n, "nk": nk, "pad": pad, "angles": angs[:n], "sub": 4000 + i}
            for i, (H, W, n, nk, pad, angs) in enumerate([(4, 6, 2, 1, 0.25, [0, 90, 45]), (6, 4, 3, 3, 0.0, [-90, 200, 270]),
                                                          (5, 5, 2, 4, 0.5, [315, 30, 0]), (3, 8, 3, 2, 0.0, [180, 90, -45])])]


def case_inputforms(ctx, c15, case):
    """every accepted form of `images` (validate_list_of_dataset2d: Dataset3d, 3-D ndarray, list of Dataset2d, list of 2-D ndarrays) gives the
    same resampling geometry and warped stack; the other forms are rejected with TypeError (predicate only — the validator's container dispatch
    is not in the Lean model)"""
    from qv.prng import Rng
    from quantem.imaging.drift import DriftCorrection
    try:
        from quantem.core.datastructures import Dataset2d, Dataset3d
    except Exception:
        ctx.extra["inputforms:Dataset2d / Dataset3d not importable (stream skipped)"] = True
        return
    H, W, n, nk, pad, angles = case["H"], case["W"], case["n"], case["nk"], case["pad"], case["angles"]
    rng = Rng(case["sub"])
    images = [c15.make_image(rng, H, W) for _ in range(n)]
    ctx.count()
    cfg = dict(pad_fraction=pad, pad_value="median", kde_sigma=0.5, number_knots=nk)
    ref = DriftCorrection.from_data([im.copy() for im in images], list(angles)).preprocess(**cfg)
    err, scale = _placement_err(c15, ref, H, W, angles)
    if not err <= TOL64 * scale:
        ctx.pred_fail(f"placement-nk{nk}-inputform", "pixel (r,c) is not placed at canvas centre + rotation of its offset from the image centre", case,
                      observed={"max_err_px": err}, required="<= 1e-9 * canvas size")
    forms = {"Dataset3d": lambda: Dataset3d.from_array(np.stack(images)), "ndarray3d": lambda: np.stack(images),
             "list of Dataset2d": lambda: [Dataset2d.from_array(im.copy()) for im in images]}
    for name, mk in forms.items():
        ctx.dist[f"inputforms:{name}"] += 1
        dc = DriftCorrection.from_data(mk(), list(angles)).preprocess(**cfg)
        g, w = _state_diff(dc, ref)
        if not (g <= TOL64 * scale and w <= 1e-6):
            ctx.pred_fail("inputform-changes-resampling", f"the resampling of value-identical images depends on the container they are passed in ({name})", dict(case, form=name),
                          observed={"geometry_diff_px": g, "warped_rel_diff": w}, required="identical to a list of 2-D arrays")
    bad = {"tuple": lambda: tuple(images), "list with a str": lambda: [images[0], "x"], "list with a 3-D array": lambda: [images[0], np.stack(images)],
           "2-D array": lambda: images[0], "None": lambda: None, "mixed ndarray / Dataset2d": lambda: [images[0], Dataset2d.from_array(images[1].copy())]}
    for name, mk in bad.items():
        ctx.dist[f"inputforms:rejected {name}"] += 1
        try:
            DriftCorrection.from_data(mk(), list(angles))
            ctx.dist[f"inputforms:{name} accepted"] += 1
        except (TypeError, ValueError):
            pass
    ctx.mark(("inputforms", c15.shape_sig(H, W), nk))
