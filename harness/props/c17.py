"""C17 — reliability-sorted phase unwrapping: correspondence with Model/Unwrap.lean (exact:
phases are dyadic multiples of pi, the model runs at Rat in units of pi) + the property
predicate evaluated on the real quantem code with an independent component/wrap-count oracle.

Streams (DESIGN §6 C17):
  edge-set      real `_build_edges` (i1,i2,inc) vs model `buildEdges`, as sorted multisets
  union-find    real `UnionFindPhase`/`_final_offsets` on the real edge ORDER vs model (parent, rank,
                offset, final offsets: exact integers); plus random multigraphs with arbitrary
                (also inconsistent) increments, self-loops, duplicates
  end-to-end    `unwrap_phase_2d_torch(w, "reliability-sorting", mask, wrap_around)` vs model fed with
                the order the real sort produced; predicate on the real output
  bf-overlap    `unwrap_bf_overlap_phase_torch` (masked embedding, one/two passes) vs model
  history       (growth 5, run FIRST) histories of calls on the module on grids of their own: rejected calls (malformed
                mask shapes, unknown method, non-2-D phase, Poisson on a bounded grid) and calls made to fail part-way
                (a tensor subclass whose k-th torch operation raises) between valid calls; every valid call is evaluated
                like a stand-alone case and the whole history is compared with the model's `runSession`
  uf-history    union calls on one UnionFindPhase object with indices past the end (rejected, object untouched)
  bf-history    rejected calls of unwrap_bf_overlap_phase_torch between valid ones (value lengths, lazy `method`)
Private helpers (leading underscore) and the internals of UnionFindPhase are resolved defensively: when one is renamed,
inlined or merged the internal-stage comparison that needs it is skipped with a note in the evidence
(`internal_stage_notes`) and the public-API comparison (`public_compare`: model with its own sort, modulo the freedom
`argsort` ties leave) plus the property predicate decide.
"""
import math
from fractions import Fraction as Fr

LEVEL = "proof"
EXTRA_PROPS = ["QuantemModel.Props.C17Ext"]   # growth 6: closed boundary of Itoh, orientation symmetry, wrap_around flipped on one grid
MANIFEST_ENTRY = {
    "category": "proof",
    "text": "Lean 4 theorems over an executable model of the reliability-sorting unwrapper (edge construction for bounded/periodic grids with masks, union-find with offsets exactly as UnionFindPhase: no path compression, union by rank, the code's sign conventions; final offsets; mean removal; the bright-field embedding) and of the PUBLIC entry points with their argument handling (dispatch on method, phi.shape unpacking, the mask entering through broadcasting and flat indexing, value lengths and the lazily validated method of unwrap_bf_overlap_phase_torch) including the exception type of every rejected call. The merge ORDER is an input of the model, so every theorem holds for every order the float reliability sort could produce. Proved for all sizes, masks, edge multigraphs (self-loops/duplicates included) and orders: termination of find (rank strictly increases to the root), the offset-consistency invariant (every stored offset is n(pixel)-n(parent) for any integer field the increments are differences of), Itoh => increments are wrap-count differences (over the reals, threshold pi), hence out - truth is constant on every connected component of the masked edge graph; out - input is in 2*pi*Z plus one constant for every input; smooth unwrapped input is returned up to one constant; same-tree edges are no-ops; the grid-level body of unwrap_bf_overlap_phase_torch (mask test, max-min>pi test, one or two passes) returns the truth up to a constant per connected overlap region in every branch; the model's edge graph is the 4-neighbour graph (bounded and periodic; the periodic edge list is characterised as a multiset for every HxW incl. H or W in {1,2}: self-loops / double edges exactly there); the input is taken raw: recovery holds for any representative of the truth whose neighbouring wrap counts are at most one apart (any 2*pi window such as [0,2pi), partially or fully unwrapped input), with a counterexample two cycles apart; the result is independent of the reliability (any comparison function used for the sort, any wrap function inside _pixel_reliability); the whole unwrap_bf_overlap_phase_torch incl. scatter phase_grid[bf_mask]=... and gather is correct entry by entry, for every number of images. Growth 5, over HISTORIES including calls that raise: a well-formed call (2-D phase, no mask or a mask of the grid's shape) never raises, never diverges and is correct (call_valid_correct: total correctness of the public entry point); in ANY history of calls on the module, valid and rejected ones in any order, every well-formed call returns what it returns alone, i.e. the truth up to a constant per region (session_exception_safe, session_pointwise); the rejected calls by exception type (rejected_calls: unknown method / non-2-D phase ValueError, Poisson on a bounded grid NotImplementedError, non-broadcastable mask RuntimeError, a mask that broadcasts but has fewer elements than the grid IndexError, never silently broadcast); after ANY history of union calls on one UnionFindPhase object, calls with an index past the end included, exactly those raise, they leave the object untouched (state = state after the accepted calls alone), the forest/termination/offset invariants hold (uf_history_invariant); unwrap_bf_overlap_phase_torch with right-length values is the modelled function, an unknown method either raises or (no pass needed) returns exactly what the valid method returns, wrong-length values are a RuntimeError (bf_args_spec). _pixel_reliability (wrapped second differences, periodic rolls) and the sort are modelled exactly and the real edge ORDER is checked to be ascending in the model's exact rational reliabilities. The model is tied to the code on every run by exact differential streams (edge multisets, union-find final offsets on the real edge order, end-to-end fields, bf-overlap embedding, call histories with rejected and fault-injected calls run before anything else has called the module, union-find and bf histories) and the property predicate is evaluated on the real outputs of every valid call, inside and outside histories, with an independent connected-component / wrap-count oracle. Growth 6 (Props/C17Ext.lean): _find_wrap characterised exactly (iff for each of -1/0/+1; a stored difference of exactly +-pi gets 0; exchanging the two pixels negates the increment), already-unwrapped input with neighbour differences <= pi (closed bound) returned up to one constant, a literal counterexample showing that < pi cannot be weakened for wrapped input, the bounded neighbour graph is a subgraph of the periodic one and the seam pairs are exactly what wrap_around=True adds, every bounded mask region lies in one periodic region, two calls on one grid that differ only in wrap_around agree up to one constant on every bounded mask region (any merge orders), and a literal witness of a region held together only by the seam. Also there: negating the input negates the output of the whole run for every input and order (orientation symmetry: offsets and increments change sign, parents/ranks and merge decisions stay), every result on a non-empty grid has mean zero (the single constant is the mean over all pixels), the walk to the root takes at most rank[root]-rank[x] hops (tree height <= largest rank), result - input in 2*pi*Z + one constant at the public entry point for every input, and the wrap_around-flip statement inside any history of calls.",
    "note": "Trusted: Lean kernel + propext/Classical.choice/Quot.sound; hand model validated by sampled correspondence only; torch indexing/roll/argsort/where/broadcasting semantics; IEEE rounding (inputs are dyadic multiples of pi kept >= 2^-6*pi away from the +-pi thresholds so no float comparison is decided by rounding; the real code keeps offsets in float32, measured deviation from the exact model is reported); argsort ties may come out in any order (the model's stable merge sort is one admissible outcome; the order stream uses phases on a pi/16 grid so that distinct reliabilities are far apart); the Poisson method is outside the claim (only its dispatch and its explicit NotImplementedError are modelled); the caller's loop over images (direct_ptychography.py) is reproduced by the harness, not executed through DirectPtychography. Measured only: that the module really keeps no state between calls (the model says so by construction; the history stream compares every call of real histories with it); exception types of malformed arguments whose rejection is incidental (torch indexing / broadcasting / unpacking) are recorded and noted, not alarmed on - only the explicit raises (unknown method, Poisson bounded) are compared strictly; torch view semantics for negative pixel indices in UnionFindPhase (never produced by the unwrapper) are outside the model. Private helpers and UnionFindPhase internals are resolved defensively: if renamed / inlined / merged the internal-stage streams are skipped with a note (coverage.internal_stage_notes) and the public-API comparison decides; parent/rank/offset arrays are compared as an internal representation (a difference with equal final offsets is noted, not alarmed on).",
    "technique": "Lean 4 proof (forest/rank invariant, offset telescoping, Itoh lemma over R) + exact model-vs-implementation correspondence",
}
RULE = ("generated phase fields (ramps, quadratics, Gaussian bumps, band-limited random, periodic, raw non-smooth, "
        "already-unwrapped, stored in [-pi,pi), [0,2pi), a shifted window or partially unwrapped) on grids up to 24x24 (medium 40..64 per side, "
        "float16 up to 60x60, long thin up to 3x900, two fixed grids above 2**14 px (130x130, 150x120 annulus), fixed descending / one-axis fields on 8 shapes with H != W, fixed wrap_around-flip histories,  seam-only-connected bands on periodic non-square grids with H or W in {1,2}) with masks (none, rectangle, annulus, multi-component, blobs with holes, "
        "sparse, border-touching) and wrap_around on/off, float16/32/64; a case is one call of the real unwrapper "
        "(or one union-find run / one _build_edges call / one reliability+order comparison / one stack of bf images / one rejected call inside a history; histories: 96+ per run on grids of their own, reject kind x wrap_around x template enumerated, each with 4..7 valid calls; input classes per call: memory layout, mask dtype and truthy-value class, autograd leaf/non-leaf, method literal/default/run-time string, wrap_around bool/int/numpy bool); distinct non-trivial = distinct (stream, field kind, mask kind, "
        "wrap, dtype, H, W, #mask components bucket, wrap-count range) among cases whose field really wraps "
        "(the true wrap count varies inside a connected mask component) or, for union-find runs, that perform at least 3 merges")
TRUSTED = ["torch tensor indexing / roll / where / argsort / stack / broadcasting semantics (exercised, not verified)",
           "fault injection through a torch.Tensor subclass (__torch_function__ raising at the k-th operation): assumes the subclass is otherwise transparent",
           "IEEE rounding: inputs are dyadic multiples of pi kept >= 2^-6*pi from the +-pi thresholds; offsets are float32 in the code, exact integers in the model",
           "_pixel_reliability only determines the merge order (theorems: any order); it is modelled exactly and compared (values to tolerance, order exactly) on a pi/16 phase grid"]
ASSUMPTIONS = ["histories: grids 2..13 x 2..13 with H != W, one grid shape per history (132 shapes, then reused); a history is replayed from its first step; growth 6: 8 fixed histories on grids of their own (14x17, 17x14, 15x3, 3x16, 16x15, 2x14, 14x1, 15x18) alternate wrap_around between valid calls (periodic first / bounded first), the periodic calls on a mask region connected only across the seam",
               "growth 6 fixed blocks (independent of VERIF_SEED): 72 small cases (8 shapes with H != W both ways x descending / one-axis ramps, pit, periodic sin / cos with negative truth), 2 grids above 2**14 pixels per quick run (130x130 without a mask, 150x120 with an annulus mask, bounded steep fields; thorough: 4) - above 6000 px the edge multiset, the union-find state and the final offsets on the real order are compared exactly, the assembled output only by the predicate",
               "malformed arguments are outside the documented domain: how they are rejected is recorded (input_distribution history:rejected-call:*), compared with the model, and a difference is a note, not an alarm; every valid call after them is checked at full strength",
               "grids <= 24x24 in the correspondence, plus a few 40..64 x 40..64 grids per run, a few float16 fields on 46..60 x 46..60 grids and long thin grids (1..3 x 300..900 and transposed, wrap counts past 127/255; thorough: one 1 x 74000 ramp past 32767) (theorems: all sizes)",
               "Itoh is required on the edges actually used (inside the mask, including periodic seam edges when wrap_around=True); values outside the mask are arbitrary",
               "tolerance on assembled outputs: 5e-4*max(1,max|model|) (the code forces float32 offsets: 2*pi*incs is rounded to float32 even for float64 input); all wrap-count comparisons are exact integers"]
EXPLANATION = ("Theorems in Props/C17.lean are about Model/Unwrap.lean (run at Rat, units of pi, by the driver; proved at R with "
               "threshold half>0, in particular pi). Every run drives the real quantem functions and the model with the same "
               "fields/masks and hands the model the merge order the real sort produced; integer observables are compared exactly.")

DTYPES = {"float16": lambda: __import__("torch").float16, "float32": lambda: __import__("torch").float32,
          "float64": lambda: __import__("torch").float64}
# tolerance on assembled outputs per input dtype (float16 input carries its own rounding of the phase, ~1e-3 rad)
TOL = {"float16": 4e-3, "float32": 5e-4, "float64": 5e-4}
DEN = 1024                # phases are multiples of pi/1024
MARGIN = Fr(1, 64)        # distance kept from the +-pi thresholds (units of pi)
TOL32 = 5e-4


# pinned signatures of the anchored functions: (name, kind, default) per parameter, in ORDER.  The harness calls every
# function in positional form as well as in keyword form; a re-ordered signature is a broken tie by itself.
PINNED_SIGNATURES = {
    "imaging_utils._wrap_to_pi": [("x", "pk", "<none>")],
    "imaging_utils._find_wrap": [("a", "pk", "<none>"), ("b", "pk", "<none>")],
    "imaging_utils._pixel_reliability": [("phi", "pk", "<none>"), ("mask", "pk", "None")],
    "imaging_utils._build_edges": [("phi", "pk", "<none>"), ("reliability", "pk", "<none>"), ("mask", "pk", "None"),
                                   ("wrap_around", "pk", "True")],
    "imaging_utils.UnionFindPhase.__init__": [("self", "pk", "<none>"), ("n", "pk", "<none>")],
    "imaging_utils.UnionFindPhase.find_root_and_offset": [("self", "pk", "<none>"), ("x", "pk", "<none>")],
    "imaging_utils.UnionFindPhase.union": [("self", "pk", "<none>"), ("x", "pk", "<none>"), ("y", "pk", "<none>"),
                                           ("inc_xy", "pk", "<none>")],
    "imaging_utils._final_offsets": [("uf", "pk", "<none>")],
    "imaging_utils._unwrap_phase_2d_torch_reliability_sorting": [("phi", "pk", "<none>"), ("mask", "pk", "None"),
                                                                 ("wrap_around", "pk", "True")],
    "imaging_utils.unwrap_phase_2d_torch": [("phi_wrapped", "pk", "<none>"), ("method", "pk", "'reliability-sorting'"),
                                            ("mask", "pk", "None"), ("wrap_around", "pk", "True"),
                                            ("regularization_lambda", "pk", "None")],
    "direct_ptycho_utils.unwrap_bf_overlap_phase_torch": [("complex_data_bf", "pk", "<none>"), ("mask_bf", "pk", "<none>"),
                                                          ("bf_mask", "pk", "<none>"), ("method", "kw", "'reliability-sorting'"),
                                                          ("two_pass", "kw", "True"), ("unwrap_kwargs", "varkw", "<none>")],
}


# the PUBLIC entry points: their signature is part of the behaviour callers see (positional order, defaults)
PUBLIC_SIGNATURES = ("imaging_utils.unwrap_phase_2d_torch", "direct_ptycho_utils.unwrap_bf_overlap_phase_torch")

# names of quantem-PRIVATE helpers / internals the internal-stage streams look at.  Every one of them is resolved
# defensively (growth 5): a helper that was renamed, inlined, merged or given other parameter names only switches the
# internal-stage stream that needs it off (noted in the evidence); the public-API streams decide.
NOTES = {}


def note(ctx, key, text):
    """a remark for the evidence (ctx.extra), never an alarm"""
    ctx.dist[f"note:{key}"] += 1
    lst = ctx.extra.setdefault("internal_stage_notes", [])
    if key not in NOTES.setdefault(id(ctx), set()):
        NOTES[id(ctx)].add(key)
        lst.append(f"{key}: {text}")


def priv(ctx, mod, name):
    """a private helper of a quantem module, or None (noted) when the current source has no such name"""
    obj = mod
    for part in name.split("."):
        obj = getattr(obj, part, None)
        if obj is None:
            note(ctx, f"missing:{name}", "private helper not present in the current source; the internal-stage streams that use it are skipped")
            return None
    return obj


def call_helper(ctx, name, fn, args, kwargs_form):
    """call a private helper in keyword form when the case asks for it; parameter NAMES of private helpers are not part
    of the behaviour, so a TypeError from the keyword form falls back to the positional form (noted)"""
    if kwargs_form is not None:
        try:
            return fn(**kwargs_form)
        except TypeError:
            note(ctx, f"keyword-form:{name}", "private helper does not take the pinned parameter names; called positionally")
    return fn(*args)


def check_signatures(ctx):
    import inspect
    from quantem.core.utils import imaging_utils
    from quantem.diffractive_imaging import direct_ptycho_utils
    mods = {"imaging_utils": imaging_utils, "direct_ptycho_utils": direct_ptycho_utils}
    kinds = {inspect.Parameter.POSITIONAL_OR_KEYWORD: "pk", inspect.Parameter.KEYWORD_ONLY: "kw",
             inspect.Parameter.VAR_KEYWORD: "varkw", inspect.Parameter.VAR_POSITIONAL: "varpos",
             inspect.Parameter.POSITIONAL_ONLY: "pos"}
    for name, want in PINNED_SIGNATURES.items():
        obj = mods[name.split(".")[0]]
        try:
            for part in name.split(".")[1:]:
                obj = getattr(obj, part)
            got = [(p.name, kinds[p.kind], "<none>" if p.default is inspect.Parameter.empty else repr(p.default))
                   for p in inspect.signature(obj).parameters.values()]
        except Exception as e:  # noqa
            got = f"<{type(e).__name__}>"
        ctx.count()
        ctx.dist["signatures:checked"] += 1
        if got != [tuple(x) for x in want]:
            if name in PUBLIC_SIGNATURES:
                disagree(ctx, "signature", {"stream": "signature", "function": name}, [list(x) for x in want],
                         [list(x) for x in got] if isinstance(got, list) else got,
                         note="parameter order / kind / default of a PUBLIC anchored function differs from the pinned signature")
            else:
                note(ctx, f"signature:{name}", f"private helper signature differs from the recorded one (now {got}); not an alarm")


LAYOUTS = ["C", "C", "T", "F", "colstep", "rowstep", "permute3"]
MASK_DTYPES = ["bool", "bool", "uint8", "float32", "int64"]


def call_classes(case, helpers=False):
    """memory layout of phi / mask, mask dtype and call form (keyword / positional) of a case: drawn once,
    deterministically from the case content, and stored in the case (so that a replay repeats them)"""
    if "layout" in case:
        return case
    import json
    import zlib
    from qv.prng import Rng
    key = json.dumps([case.get(k) for k in ("stream", "H", "W", "wrap", "dtype", "mode", "kind", "mkind")] + [list(case["qn"][:64])])
    r = Rng(zlib.crc32(key.encode()))
    case["layout"] = r.choice(LAYOUTS)
    case["mask_layout"] = r.choice(LAYOUTS)
    case["mask_dtype"] = "bool" if helpers else r.choice(MASK_DTYPES)   # the private helpers index with the mask: bool only
    case["call"] = r.choice(["keyword", "positional"])
    case["grad"] = "none" if helpers else r.choice(["none", "none", "none", "leaf", "nonleaf"])
    # the same logical arguments in other Python forms: `method` left to its default / given as a string object built at
    # run time (equal to, not identical with, the literal); wrap_around as bool / int 0,1 / numpy bool
    case["method_form"] = "literal" if helpers else r.choice(["literal", "literal", "default", "built"])
    case["wrap_form"] = "bool" if helpers else r.choice(["bool", "bool", "int", "npbool"])
    return case


def wrap_value(wrap, form):
    import numpy as np
    return {"int": int(wrap), "npbool": np.bool_(wrap)}.get(form, bool(wrap))


def call_unwrap(iu, case, phi, mask, wrap):
    """unwrap_phase_2d_torch in the call form of the case (positional / keyword; method literal, defaulted or built)"""
    wv = wrap_value(wrap, case.get("wrap_form", "bool"))
    mf = case.get("method_form", "literal")
    meth = "reliability-sorting" if mf != "built" else "".join(["reliability", "-", "sorting"])
    if case["call"] == "positional" and mf != "default":
        return iu.unwrap_phase_2d_torch(phi, meth, mask, wv)
    if mf == "default":
        return iu.unwrap_phase_2d_torch(phi, mask=mask, wrap_around=wv)
    return iu.unwrap_phase_2d_torch(phi, method=meth, mask=mask, wrap_around=wv)


def lay(t, layout, fill=7):
    """the same 2-D values in another memory layout: C-contiguous, transposed view, Fortran-ordered numpy array via
    from_numpy, step-sliced views along either axis, a permuted slice of a 3-D tensor"""
    import numpy as np
    import torch
    if t is None or layout == "C":
        return t
    H, W = t.shape
    if layout == "T":
        v = t.T.contiguous().T
    elif layout == "F":
        v = torch.from_numpy(np.asfortranarray(t.numpy()))
    elif layout == "colstep":
        big = torch.full((H, 2 * W), fill).to(t.dtype)
        big[:, ::2] = t
        v = big[:, ::2]
    elif layout == "rowstep":
        big = torch.full((2 * H, W), fill).to(t.dtype)
        big[::2] = t
        v = big[::2]
    else:   # permute3
        big = torch.full((W, 2, H), fill).to(t.dtype)
        big[:, 1, :] = t.T
        v = big.permute(2, 1, 0)[:, 1, :]
    assert v.shape == t.shape and bool(((v == t) | ((v != v) & (t != t))).all())
    return v


TRUE_VALUES = {"uint8": [1, 2, 255, 7], "int64": [1, -1, 3, 1 << 40], "float32": [1.0, 0.5, -1.0, float("inf"), 1e-30, float("nan")]}


def mask_tensor(maskl, H, W, case):
    """the mask as a tensor of the case's dtype / memory layout.  Non-bool masks go through `.to(torch.bool)` in the
    code: every non-zero value (2, 255, -1, 0.5, 1e-30, inf, nan) means True, 0 and -0.0 mean False — the value
    classes are spread deterministically over the pixels"""
    import torch
    if maskl is None:
        return None
    md = case.get("mask_dtype", "bool")
    if md == "bool":
        m = torch.tensor(maskl, dtype=torch.bool).reshape(H, W)
    else:
        tv = TRUE_VALUES[md]
        vals = [(tv[i % len(tv)] if v else (-0.0 if (md == "float32" and i % 2) else 0)) for i, v in enumerate(maskl)]
        m = torch.tensor(vals, dtype={"uint8": torch.uint8, "float32": torch.float32, "int64": torch.int64}[md]).reshape(H, W)
        assert m.to(torch.bool).flatten().tolist() == [bool(v) for v in maskl]
    return lay(m, case.get("mask_layout", "C"), fill=1)


def pred_fail(ctx, key, what, case, observed=None, required=None):
    """forward at most 3 failures per key (so that every failing clause keeps a replayable input)"""
    ctx.dist[f"predicate-failures:{key}"] += 1
    if ctx.dist[f"predicate-failures:{key}"] <= 3:
        ctx.pred_fail(key, what, case, observed=observed, required=required)


def disagree(ctx, stream, case, model, impl, note=""):
    ctx.dist[f"disagreements:{stream}"] += 1
    if ctx.dist[f"disagreements:{stream}"] <= 4:
        ctx.disagree(stream, case, model, impl, note=note)


# ---------------------------------------------------------------------------------------
# independent oracle: neighbour pairs, components, wrap counts (pure Python, exact)

def used_pairs(H, W, mask, wrap):
    """4-neighbour pairs (a, b) with both ends in the mask; periodic seam pairs when wrap."""
    out = []
    for r in range(H):
        for c in range(W):
            a = r * W + c
            if mask is not None and not mask[a]:
                continue
            for (rr, cc) in ((r, c + 1), (r + 1, c)):
                if rr >= H:
                    if not wrap:
                        continue
                    rr = 0
                if cc >= W:
                    if not wrap:
                        continue
                    cc = 0
                b = rr * W + cc
                if mask is not None and not mask[b]:
                    continue
                out.append((a, b))
    return out


def components(N, pairs, mask):
    """label of the connected component of every mask pixel (BFS); -1 outside the mask"""
    adj = [[] for _ in range(N)]
    for a, b in pairs:
        adj[a].append(b)
        adj[b].append(a)
    lab = [-1] * N
    k = 0
    for s in range(N):
        if lab[s] != -1 or (mask is not None and not mask[s]):
            continue
        lab[s] = k
        stack = [s]
        while stack:
            x = stack.pop()
            for y in adj[x]:
                if lab[y] == -1:
                    lab[y] = k
                    stack.append(y)
        k += 1
    return lab, k


def wrap_variation(n, lab):
    """does the wrap count vary inside some connected component (a real 2*pi discontinuity to undo)?
    returns (bool, largest spread of n inside one component)"""
    lo, hi = {}, {}
    for i, c in enumerate(lab):
        if c < 0:
            continue
        lo[c] = min(lo.get(c, n[i]), n[i])
        hi[c] = max(hi.get(c, n[i]), n[i])
    spread = max((hi[c] - lo[c] for c in lo), default=0)
    return spread > 0, spread


def wrap_q(q):
    """wrap to [-1, 1) in units of pi, exactly; returns (w, n) with q = w + 2 n"""
    n = math.floor((q + 1) / 2)
    return q - 2 * n, n


def rat(x):
    x = Fr(x)
    return f"{x.numerator}/{x.denominator}"


# ---------------------------------------------------------------------------------------
# generators

FIELD_KINDS = [("ramp", 4), ("quadratic", 3), ("gauss", 3), ("bandlimited", 4), ("periodic", 3), ("const", 1)]
MASK_KINDS = [("none", 5), ("rect", 2), ("annulus", 3), ("multi", 3), ("blobs", 3), ("sparse", 1), ("border", 2),
              ("alltrue", 1), ("allfalse", 1)]


def gen_shape(rng, small=False):
    if rng.chance(0.12):
        return rng.choice([(1, 1), (1, 2), (2, 1), (1, 5), (5, 1), (2, 2), (2, 3), (3, 2), (1, 9), (2, 7)])
    hi = 12 if small else 24
    return rng.randint(3, hi), rng.randint(3, hi)


def gen_float_field(rng, H, W, kind):
    import numpy as np
    yy, xx = np.mgrid[:H, :W].astype(float)
    if kind == "ramp":
        return rng.uniform(-1, 1) * xx + rng.uniform(-1, 1) * yy
    if kind == "quadratic":
        x0, y0 = rng.uniform(0, W), rng.uniform(0, H)
        return (rng.uniform(-1, 1) * (xx - x0) ** 2 + rng.uniform(-1, 1) * (yy - y0) ** 2
                + rng.uniform(-1, 1) * (xx - x0) * (yy - y0))
    if kind == "gauss":
        f = np.zeros((H, W))
        for _ in range(rng.randint(1, 3)):
            x0, y0 = rng.uniform(0, W), rng.uniform(0, H)
            s = rng.uniform(1.0, max(2.0, min(H, W) / 2))
            f += rng.uniform(-1, 1) * np.exp(-((xx - x0) ** 2 + (yy - y0) ** 2) / (2 * s * s))
        return f
    if kind == "bandlimited":
        f = np.zeros((H, W))
        for _ in range(rng.randint(2, 5)):
            kx, ky = rng.uniform(-0.25, 0.25), rng.uniform(-0.25, 0.25)
            f += rng.uniform(0.2, 1) * np.cos(2 * math.pi * (kx * xx + ky * yy) + rng.uniform(0, 2 * math.pi))
        return f + rng.uniform(-0.3, 0.3) * xx
    if kind == "periodic":
        f = np.zeros((H, W))
        for _ in range(rng.randint(1, 3)):
            kx, ky = rng.randint(-2, 2), rng.randint(-2, 2)
            if kx == 0 and ky == 0:
                kx = 1
            f += rng.uniform(0.2, 1) * np.cos(2 * math.pi * (kx * xx / W + ky * yy / H) + rng.uniform(0, 2 * math.pi))
        return f
    return np.full((H, W), rng.uniform(-3, 3))


def gen_mask(rng, H, W, kind):
    """list of 0/1 of length H*W, or None"""
    import numpy as np
    if kind == "none":
        return None
    yy, xx = np.mgrid[:H, :W].astype(float)
    m = np.zeros((H, W), dtype=bool)
    if kind == "alltrue":
        m[:] = True
    elif kind == "allfalse":
        pass
    elif kind == "rect":
        r0, r1 = sorted((rng.randint(0, H - 1), rng.randint(0, H - 1)))
        c0, c1 = sorted((rng.randint(0, W - 1), rng.randint(0, W - 1)))
        m[r0:r1 + 1, c0:c1 + 1] = True
    elif kind == "annulus":
        cy, cx = rng.uniform(H * 0.3, H * 0.7), rng.uniform(W * 0.3, W * 0.7)
        ro = rng.uniform(0.3, 0.55) * min(H, W)
        ri = rng.uniform(0.2, 0.7) * ro
        rr = np.hypot(yy - cy, xx - cx)
        m = (rr <= ro) & (rr >= ri)
    elif kind == "multi":
        for _ in range(rng.randint(2, 4)):
            if rng.chance(0.5):
                r0, c0 = rng.randint(0, H - 1), rng.randint(0, W - 1)
                m[r0:r0 + rng.randint(1, max(1, H // 2)), c0:c0 + rng.randint(1, max(1, W // 2))] = True
            else:
                cy, cx, r = rng.uniform(0, H), rng.uniform(0, W), rng.uniform(1, max(1.5, min(H, W) / 4))
                m |= np.hypot(yy - cy, xx - cx) <= r
        if rng.chance(0.5):     # cut a gap so that components separate
            if rng.chance(0.5):
                m[rng.randint(0, H - 1), :] = False
            else:
                m[:, rng.randint(0, W - 1)] = False
    elif kind == "blobs":
        f = gen_float_field(rng, H, W, "bandlimited")
        m = f > np.quantile(f, rng.uniform(0.2, 0.6))
        for _ in range(rng.randint(0, 3)):   # punch holes
            m[rng.randint(0, H - 1), rng.randint(0, W - 1)] = False
    elif kind == "sparse":
        p = rng.uniform(0.3, 0.8)
        m = np.array([[rng.chance(p) for _ in range(W)] for _ in range(H)], dtype=bool)
    elif kind == "border":
        # touches borders (matters with wrap_around): a band along one side, or a cross
        m[:] = False
        if rng.chance(0.5):
            m[:, : rng.randint(1, max(1, W // 2))] = True
            m[: rng.randint(1, max(1, H // 2)), :] = True
        else:
            m[rng.randint(0, H - 1), :] = True
            m[:, rng.randint(0, W - 1)] = True
    return [int(v) for v in m.flatten()]


def quantise_itoh(rng, f, pairs, target):
    """scale the float field so that the largest difference over the used pairs is ~target (units of pi),
    put it on the dyadic grid, and make sure the Itoh margin holds exactly. Returns numerators."""
    import numpy as np
    flat = f.flatten()
    if pairs:
        a = np.array([p[0] for p in pairs])
        b = np.array([p[1] for p in pairs])
        md = float(np.max(np.abs(flat[a] - flat[b])))
    else:
        md = 0.0
    scale = target / md if md > 1e-12 else 1.0
    top = float(np.max(np.abs(flat))) if flat.size else 0.0
    if top * scale > 40.0:          # keep |phase| <= 40*pi (tiny masks would otherwise blow the field up outside)
        scale = 40.0 / top
    lim = (1 - MARGIN) * DEN
    for _ in range(60):
        qn = [int(round(v * scale * DEN)) for v in flat]
        if all(abs(qn[x] - qn[y]) <= lim for x, y in pairs):
            return qn
        scale *= 0.93
    return [0] * len(flat)


def gen_target(rng):
    """largest neighbour difference in units of pi: mostly steep (so that the field really wraps)"""
    return rng.uniform(0.6, 0.97) if rng.chance(0.8) else rng.uniform(0.1, 0.6)


def gen_unwrap_case(rng, small=False, shape=None, wrap=None, mkind=None, modes=None):
    H, W = shape or gen_shape(rng, small)
    N = H * W
    wrap = rng.chance(0.5) if wrap is None else wrap
    mkind = mkind or rng.weighted(MASK_KINDS)
    mask = gen_mask(rng, H, W, mkind)
    mode = rng.weighted(modes or [("wrapped", 6), ("zero2pi", 2), ("window", 1), ("partial", 1), ("unwrapped", 2), ("raw", 2)])
    dtype = rng.choice(["float32", "float64"])
    pairs = used_pairs(H, W, mask, wrap)
    if mode == "raw":
        kind = "raw"
        qn = gen_raw(rng, N, pairs)
        outside = "raw"
    else:
        kind = rng.weighted(FIELD_KINDS)
        if wrap and rng.chance(0.65):
            kind = "periodic"      # a non-periodic field that is Itoh across the seam is nearly flat
        f = gen_float_field(rng, H, W, kind)
        # Itoh (with margin) on every pair the code uses: inside the mask, seam pairs included when wrap_around
        qn = quantise_itoh(rng, f, pairs, gen_target(rng))
        off = rng.randint(-2 * DEN, 2 * DEN)     # random piston: wrap lines fall anywhere
        qn = [v + off for v in qn]
        outside = "smooth"
        if mode in ("wrapped", "zero2pi") and mask is not None and rng.chance(0.5):
            # what lies outside the mask must not matter: zeros (as the bf embedding produces) or garbage
            outside = rng.choice(["zeros", "garbage"])
            for i in range(N):
                if not mask[i]:
                    qn[i] = 0 if outside == "zeros" else rng.randint(-4 * DEN, 4 * DEN)
    case = {"stream": "unwrap", "H": H, "W": W, "wrap": wrap, "mask": mask, "mode": mode, "dtype": dtype,
            "qn": qn, "kind": kind, "mkind": mkind, "outside": outside}
    if mode == "window":
        case["c"] = rng.randint(-3 * DEN, 3 * DEN)
    return case


def gen_raw(rng, N, pairs):
    """arbitrary (non-smooth) wrapped values in [-1,1) on the dyadic grid, no neighbour difference within
    MARGIN of the +-1 thresholds"""
    step = DEN // 16
    qn = [rng.randint(-16, 15) * step + rng.choice([0, 3, 17, 40]) for _ in range(N)]
    lim_lo, lim_hi = (1 - MARGIN) * DEN, (1 + MARGIN) * DEN
    nb = {}
    for a, b in pairs:
        nb.setdefault(a, []).append(b)
        nb.setdefault(b, []).append(a)
    for _ in range(20):
        bad = [a for a in nb if any(lim_lo < abs(qn[a] - qn[b]) < lim_hi for b in nb[a])]
        if not bad:
            break
        for a in bad:
            qn[a] = rng.randint(-16, 15) * step + rng.choice([0, 3, 17, 40])
    else:
        qn = [0] * N
    return qn


# ---------------------------------------------------------------------------------------
# the real code, instrumented from outside (no change in /repo)

def _iu():
    from quantem.core.utils import imaging_utils as iu
    return iu


class Recorder:
    """records what the real code does during an end-to-end call.
    PUBLIC: the calls of `unwrap_phase_2d_torch` (module attribute of imaging_utils and the name imported into
    direct_ptycho_utils) — how many unwrapping passes ran.
    INTERNAL (private names, resolved defensively): what `_build_edges` / `_final_offsets` returned.  When a helper is
    gone, no longer called, or returns something else, nothing is recorded for it and the caller falls back to the
    public-API comparison (`complete()` says whether every pass left an edge list)."""

    def __init__(self, iu, ctx=None):
        self.iu = iu
        self.ctx = ctx
        self.edges = []
        self.ufs = []
        self.incs = []
        self.passes = 0
        self.broken = False

    def __enter__(self):
        iu = self.iu
        self.saved = []
        ob, of = getattr(iu, "_build_edges", None), getattr(iu, "_final_offsets", None)
        if callable(ob):
            def be(*a, **k):
                r = ob(*a, **k)
                try:
                    self.edges.append([[int(x), int(y), int(z)] for x, y, z in zip(r[0].tolist(), r[1].tolist(), r[2].tolist())])
                except Exception:  # noqa  (another return convention: internal stage not available)
                    self.broken = True
                return r
            self.saved.append((iu, "_build_edges", ob))
            iu._build_edges = be
        if callable(of):
            def fo(uf, *a, **k):
                r = of(uf, *a, **k)
                try:
                    st = uf_state(uf)
                    inc = as_int_list(r.tolist())
                    self.ufs.append(st)
                    self.incs.append(inc)
                except Exception:  # noqa
                    self.broken = True
                return r
            self.saved.append((iu, "_final_offsets", of))
            iu._final_offsets = fo
        # the public dispatcher, under both names the anchored code reaches it by
        try:
            from quantem.diffractive_imaging import direct_ptycho_utils as dpu
        except Exception:  # noqa
            dpu = None
        orig = getattr(iu, "unwrap_phase_2d_torch", None)
        if callable(orig):
            def counted(*a, **k):
                self.passes += 1
                return orig(*a, **k)
            self.saved.append((iu, "unwrap_phase_2d_torch", orig))
            iu.unwrap_phase_2d_torch = counted
            if dpu is not None and getattr(dpu, "unwrap_phase_2d_torch", None) is orig:
                self.saved.append((dpu, "unwrap_phase_2d_torch", orig))
                dpu.unwrap_phase_2d_torch = counted
        return self

    def __exit__(self, *a):
        for mod, name, orig in reversed(self.saved):
            setattr(mod, name, orig)
        return False

    def complete(self, passes=None):
        """did every unwrapping pass leave an edge list and final offsets (internal stages observable)?"""
        want = self.passes if passes is None else passes
        ok = (not self.broken) and len(self.edges) == want and len(self.incs) == want and len(self.ufs) == want
        if not ok and self.ctx is not None:
            note(self.ctx, "internal-stages-unobservable",
                 "the run did not go through observable `_build_edges` / `_final_offsets` calls (renamed / inlined / other return "
                 "convention): edge-set, union-find and merge-order comparisons skipped, public-API comparison used instead")
        return ok


def as_int_list(xs):
    """floats that must be integers -> ints (non-integers are kept so that a comparison fails loudly)"""
    return [int(v) if float(v) == int(v) else float(v) for v in xs]


def uf_state(uf):
    """the internal arrays of a `UnionFindPhase` object (attribute names are internals: AttributeError when renamed)"""
    return {"parent": [int(v) for v in list(uf.parent.tolist())], "rank": [int(v) for v in list(uf.rank.tolist())],
            "offset": as_int_list(list(uf.offset.tolist()))}


def compare_uf(ctx, stream, case, model, impl, what):
    """union-find comparison: the final offsets (`incs`, what the unwrapper uses) decide; the internal arrays
    parent / rank / offset are an internal representation — when they differ while the offsets agree (path compression,
    another rank convention) that is noted in the evidence, not alarmed on"""
    if not isinstance(model, dict) or not isinstance(impl, dict) or "incs" not in model or "incs" not in impl:
        if model != impl:
            disagree(ctx, stream, case, model, impl, note=what)
        return
    if model["incs"] != impl["incs"]:
        disagree(ctx, stream, case, model, impl, note=what + " (final offsets)")
        return
    for k in ("parent", "rank", "offset"):
        if k in impl and impl[k] is not None and model.get(k) != impl[k]:
            ctx.dist[f"{stream}:internal-array-differs:{k}"] += 1
            note(ctx, f"uf-internal:{k}", f"`{k}` array differs from the model's while all final offsets agree (internal representation)")
            return
    ctx.dist[f"{stream}:internal-arrays-equal"] += 1


def err_name(e):
    return type(e).__name__


# ---------------------------------------------------------------------------------------
# evaluation of one end-to-end case

def field_tensor(case):
    import torch
    H, W = case["H"], case["W"]
    q = [Fr(v, DEN) for v in case["qn"]]
    mode = case["mode"]
    if mode in ("wrapped", "zero2pi", "window", "partial"):
        # stored value = truth moved by whole cycles into the window [c, c+2) (units of pi):
        # c = -1 is _wrap_to_pi's convention, c = 0 the [0, 2pi) convention, any other c a shifted window
        c = {"wrapped": Fr(-1), "zero2pi": Fr(0), "partial": Fr(-1)}.get(mode)
        if c is None:
            c = Fr(case["c"], DEN)
        n = [math.floor((x - c) / 2) for x in q]
        if mode == "partial":
            # partially unwrapped input: only every other cycle is still wrapped (neighbouring wrap counts stay <= 1 apart)
            n = [-((-k) // 2) for k in n]
        w = [x - 2 * k for x, k in zip(q, n)]
    else:
        w = q
        n = [0] * len(q)
    dt = DTYPES[case["dtype"]]()
    phi = torch.tensor([float(x) * math.pi for x in w], dtype=torch.float64).reshape(H, W).to(dt)
    phi = lay(phi, case.get("layout", "C"))
    mask = mask_tensor(case["mask"], H, W, case)
    return q, w, n, phi, mask


def check_property(ctx, case, key_prefix, q, w, n, out, lab, ncomp, smooth, global_const=False, only=None):
    frac_tol = 5e-3 if case.get("dtype") == "float16" else 1e-3   # a wrong multiple of 2*pi shows as a fraction up to 0.5
    # the code keeps 2*pi*incs in float32: absolute rounding grows with the size of the unwrapped values
    frac_tol += 1e-7 * max((abs(v) for v in out), default=0.0)
    """the property on the real output `out` (list of floats, radians):
       (a) out - input in 2*pi*Z + one constant          (every input)
       (b) smooth input: out - truth constant on every connected mask component
       (c) already-unwrapped smooth input: one constant everywhere"""
    N = len(out)
    idx = [i for i in range(N) if only is None or only[i]]
    if not idx:
        return
    two_pi = 2 * math.pi
    ref = idx[0]
    r0 = (out[ref] - float(w[ref]) * math.pi) / two_pi
    k = {}
    worst = 0.0
    for i in idx:
        r = (out[i] - float(w[i]) * math.pi) / two_pi - r0
        ki = round(r)
        worst = max(worst, abs(r - ki))
        k[i] = ki
    ctx.stat_max(f"{key_prefix}:max |frac((out-in)/2pi)|", worst)
    if worst > frac_tol:
        pred_fail(ctx, f"{key_prefix}-mod-2pi", "result minus input is not an integer multiple of 2*pi plus one constant",
                      case, observed={"worst_fractional_part": worst}, required="(out-in-c)/(2*pi) integral for all pixels")
        return
    if not smooth:
        return
    # (b) k_i - n_i constant on every component
    per = {}
    for i in idx:
        if lab[i] < 0:
            continue
        per.setdefault(lab[i], set()).add(k[i] - n[i])
    bad = {c: sorted(v) for c, v in per.items() if len(v) > 1}
    if bad:
        c = sorted(bad)[0]
        pred_fail(ctx, f"{key_prefix}-recover", "smooth (Itoh) field not recovered up to one constant on a connected mask region",
                      case, observed={"component": c, "distinct (offset - true wrap count)": bad[c][:6]},
                      required="out - truth constant on each connected component of the masked edge graph")
        return
    if global_const:
        vals = sorted({k[i] - n[i] for i in idx})
        if len(vals) > 1:
            pred_fail(ctx, f"{key_prefix}-idempotent", "already-unwrapped smooth input not returned up to a single constant",
                          case, observed={"distinct offsets": vals[:6]}, required="out - in constant")


def close(impl, model, tol):
    scale = max(1.0, max((abs(x) for x in model), default=0.0))
    d = max((abs(a - b) for a, b in zip(impl, model)), default=0.0)
    return d / scale, d <= tol * scale and len(impl) == len(model)


def public_compare(ctx, drv, stream, case, small_case, H, W, wrap, w, maskl, out, lab, smooth, tol):
    """public-API correspondence when the merge order of the real run is not observable: the model sorts the edges
    itself (`unwrapReliability`).  `argsort` ties are free, so the two runs may pick different roots: for ANY input the
    difference impl - model must be in 2*pi*Z plus one constant, and for Itoh-smooth input (where the result does not
    depend on the order, theorem unwrap_correct_any_sort) that integer must be constant on every connected mask region"""
    m = drv.ask({"op": "session", "calls": [{"method": "reliability-sorting", "phi_shape": [H, W], "phi": [rat(x) for x in w],
                                             "mask": maskl, "mask_shape": [H, W], "wrap": wrap, "order": None}]})
    if "driver" in str(m.get("err", "")):
        raise RuntimeError(f"driver error {m}")
    mo = (m.get("ok") or [{}])[0]
    ctx.dist[f"{stream}:public-comparison"] += 1
    if "out" not in mo:
        disagree(ctx, stream, small_case, mo, "a result", note="model (own sort) has no result where the implementation has one")
        return
    model_out = [float(Fr(x)) * math.pi for x in mo["out"]]
    if len(model_out) != len(out):
        disagree(ctx, stream, small_case, len(model_out), len(out), note="number of output values")
        return
    two_pi = 2 * math.pi
    idx = [i for i in range(len(out)) if lab[i] >= 0]
    if not idx:
        return
    d0 = (out[idx[0]] - model_out[idx[0]]) / two_pi
    per = {}
    worst = 0.0
    for i in idx:
        d = (out[i] - model_out[i]) / two_pi - d0
        worst = max(worst, abs(d - round(d)))
        per.setdefault(lab[i], set()).add(round(d))
    scale = max(1.0, max(abs(v) for v in model_out)) / two_pi
    if worst > tol * scale + 1e-3:
        disagree(ctx, stream, small_case, model_out[:12], out[:12], note=f"impl - model (own sort) is not in 2*pi*Z + c: worst fractional part {worst:.3g}")
    elif smooth and any(len(v) > 1 for v in per.values()):
        c = sorted(k for k, v in per.items() if len(v) > 1)[0]
        disagree(ctx, stream, small_case, model_out[:12], out[:12],
                 note=f"smooth input: impl - model (own sort) not constant on mask region {c}: {sorted(per[c])[:5]} (x 2*pi)")


def grad_class(phi, cls):
    """the same values as a tensor that takes part in autograd: a leaf that requires grad, or a non-leaf result"""
    if cls == "leaf" and phi.is_floating_point():
        return phi.detach().requires_grad_(True)      # same strides / storage: the memory-layout class is kept
    if cls == "nonleaf" and phi.is_floating_point():
        base = phi.detach().requires_grad_(True)
        return base * 1
    return phi


def eval_unwrap_case(ctx, drv, case, report_case=None, tensors=None, stream="end-to-end"):
    import torch
    iu = _iu()
    H, W, wrap = case["H"], case["W"], case["wrap"]
    N = H * W
    call_classes(case)
    q, w, n, phi, mask = field_tensor(case)
    if tensors is not None:      # a caller that keeps using the same tensor objects over several calls
        phi, mask = tensors
    maskl = case["mask"]
    pairs = used_pairs(H, W, maskl, wrap)
    lab, ncomp = components(N, pairs, maskl)
    smooth = case["mode"] != "raw"
    ctx.dist[f"call:form:{case['call']}"] += 1
    ctx.dist[f"call:phi-layout:{case['layout']}"] += 1
    ctx.dist[f"call:phi-autograd:{case.get('grad', 'none')}"] += 1
    ctx.dist[f"call:method-form:{case.get('method_form', 'literal')}"] += 1
    ctx.dist[f"call:wrap_around-form:{case.get('wrap_form', 'bool')}"] += 1
    if maskl is not None:
        ctx.dist[f"call:mask-layout:{case['mask_layout']}"] += 1
        ctx.dist[f"call:mask-dtype:{case['mask_dtype']}"] += 1
    phi_in = grad_class(phi, case.get("grad", "none"))
    # ---- the real code
    rec = Recorder(iu, ctx)
    try:
        with rec:
            out_t = call_unwrap(iu, case, phi_in, mask, wrap)
        out = [float(v) for v in out_t.detach().cpu().double().flatten().tolist()]
        err = None
        if tuple(out_t.shape) != (H, W):
            err = f"result of shape {tuple(out_t.shape)}"
    except Exception as e:  # noqa
        out, err = None, err_name(e)
    ctx.count()
    wraps, nrange = wrap_variation(n, lab)
    ctx.dist[f"unwrap:mode:{case['mode']}"] += 1
    ctx.dist[f"unwrap:field:{case['kind']}"] += 1
    ctx.dist[f"unwrap:mask:{case['mkind']}"] += 1
    ctx.dist[f"unwrap:outside:{case['outside']}"] += 1
    ctx.dist[f"unwrap:wrap_around:{wrap}"] += 1
    ctx.dist[f"unwrap:dtype:{case['dtype']}"] += 1
    ctx.dist[f"unwrap:size:{'<=4' if N <= 4 else '<=64' if N <= 64 else '<=256' if N <= 256 else '<=576' if N <= 576 else '>576'}"] += 1
    ctx.dist[f"unwrap:components:{min(ncomp, 5)}{'+' if ncomp >= 5 else ''}"] += 1
    ctx.dist[f"unwrap:really-wraps:{wraps}"] += 1
    if wraps:
        ctx.mark((stream, case["kind"], case["mkind"], wrap, case["dtype"], H, W, min(ncomp, 4), min(nrange, 6)))
    small_case = report_case or {k: case[k] for k in ("stream", "H", "W", "wrap", "mask", "mode", "dtype", "qn", "kind", "mkind", "outside", "c",
                                                      "layout", "mask_layout", "mask_dtype", "call", "grad", "method_form", "wrap_form") if k in case}
    if err is not None:
        pred_fail(ctx, "unwrap-raises", f"unwrap_phase_2d_torch raised {err}", small_case, observed=err, required="a result")
        return None
    # ---- property predicate on the implementation (independent of the model)
    check_property(ctx, small_case, "unwrap", q, w, n, out, lab, ncomp, smooth,
                   global_const=(case["mode"] == "unwrapped"))
    # ---- correspondence
    wr = [rat(x) for x in w]
    base = {"H": H, "W": W, "phi": wr, "mask": maskl, "wrap": wrap}
    if not rec.complete(1):
        # internal stages not observable (private helpers renamed / inlined): the public API decides
        if N <= 1500:       # the model's own sort is slow on larger grids; there the predicate above decides alone
            public_compare(ctx, drv, stream, case, small_case, H, W, wrap, w, maskl, out, lab, smooth, TOL[case["dtype"]])
        return {"out": out, "order": None, "w": w}
    ctx.dist[f"{stream}:internal-stages-observed"] += 1
    redges = rec.edges[0]
    reqs = [dict(base, op="edges"),
            {"op": "uf", "N": N, "edges": redges},
            # the model's assembled output is skipped above 6000 px (only the 1 x 74000 case), where the edge multiset
            # and the integer union-find state / final offsets on the real order are still compared exactly
            dict(base, op="unwrap", order=[[a, b] for a, b, _ in redges]) if N <= 6000 else {"op": "find_wrap", "a": "0/1", "b": "0/1"}]
    # one request at a time: pipelining large requests can dead-lock on the pipe buffers (qv.driver.ask_many)
    m_edges, m_uf, m_unw = [drv.ask(r) for r in reqs]
    for m in (m_edges, m_uf, m_unw):
        if "driver" in str(m.get("err", "")):
            raise RuntimeError(f"driver error {m}")
    # (i) edge multiset
    me = sorted(map(tuple, m_edges.get("ok", [])))
    ie = sorted(map(tuple, redges))
    if me != ie:
        disagree(ctx, "edge-set", small_case, [list(x) for x in me], [list(x) for x in ie], note="sorted (i1,i2,inc) multisets")
    # (ii) union–find on the real order
    impl_uf = dict(rec.ufs[0], incs=as_int_list(rec.incs[0]))
    compare_uf(ctx, "union-find", small_case, m_uf.get("ok", m_uf), impl_uf, "parent/rank/offset/final offsets on the real edge order")
    # (iii) end to end
    if N > 6000:
        return {"out": out, "order": [[a, b] for a, b, _ in redges], "w": w}
    mo = m_unw.get("ok")
    if mo is None:
        disagree(ctx, "end-to-end", small_case, m_unw, "a result")
        return {"out": out, "order": [[a, b] for a, b, _ in redges], "w": w}
    if not mo["perm"]:
        disagree(ctx, "end-to-end", small_case, "order is a permutation of maskedPairs", "not a permutation",
                     note="the real sorted edge list is not a permutation of the model's masked neighbour pairs")
    if mo["incs"] != as_int_list(rec.incs[0]):
        disagree(ctx, "end-to-end", small_case, mo["incs"], as_int_list(rec.incs[0]), note="final offsets")
    model_out = [float(Fr(s)) * math.pi for s in mo["out"]]
    dist, ok = close(out, model_out, TOL[case["dtype"]])
    ctx.stat_max(f"end-to-end:max |impl-model|/scale ({case['dtype']})", dist)
    if not ok:
        disagree(ctx, "end-to-end", small_case, model_out, out, note=f"assembled output, distance/scale {dist:.3g} > {TOL[case['dtype']]}")
    if wraps:
        ctx.sample({"stream": stream, "H": H, "W": W, "wrap_around": wrap, "field": case["kind"], "mask": case["mkind"],
                    "mode": case["mode"], "dtype": case["dtype"], "components": ncomp, "wrap_count_range": nrange,
                    "edges": len(redges), "first_inputs_over_pi": [str(x) for x in w[:6]]}, limit=3)
    return {"out": out, "order": [[a, b] for a, b, _ in redges], "w": w}


# ---------------------------------------------------------------------------------------
# direct `_build_edges` calls with an arbitrary reliability (any order must give the same multiset)

def eval_edges_case(ctx, drv, case):
    import torch
    iu = _iu()
    H, W, wrap = case["H"], case["W"], case["wrap"]
    w = [Fr(v, DEN) for v in case["qn"]]
    dt = torch.float32 if case["dtype"] == "float32" else torch.float64
    call_classes(case, helpers=True)
    phi = lay(torch.tensor([float(x) * math.pi for x in w], dtype=torch.float64).reshape(H, W).to(dt), case["layout"])
    mask = mask_tensor(case["mask"], H, W, case)
    rel = lay(torch.tensor(case["rel"], dtype=dt).reshape(H, W), case["mask_layout"])
    ctx.dist[f"call:form:{case['call']}"] += 1
    ctx.dist[f"call:phi-layout:{case['layout']}"] += 1
    ctx.count()
    ctx.dist[f"edges:wrap_around:{wrap}"] += 1
    ctx.dist[f"edges:mask:{'none' if mask is None else 'given'}"] += 1
    ctx.dist[f"edges:shape:{'degenerate' if min(H, W) <= 2 else 'regular'}"] += 1
    be = priv(ctx, iu, "_build_edges")
    if be is None:
        ctx.dist["edges:skipped:no-_build_edges"] += 1
        return
    try:
        r = call_helper(ctx, "_build_edges", be, (phi, rel, mask, wrap),
                        None if case["call"] == "positional" else dict(phi=phi, reliability=rel, mask=mask, wrap_around=wrap))
    except TypeError:
        note(ctx, "call:_build_edges", "private helper no longer takes (phi, reliability, mask, wrap_around); direct edge-set stream skipped")
        ctx.dist["edges:skipped:other-parameters"] += 1
        return
    except Exception as e:  # noqa
        r = None
        impl = {"err": err_name(e)}
    if r is not None:
        try:
            i1, i2, inc = r
            impl = sorted(zip(i1.tolist(), i2.tolist(), inc.tolist()))
            impl = [list(map(int, e)) for e in impl]
        except Exception:  # noqa
            note(ctx, "return:_build_edges", "private helper no longer returns (i1, i2, inc); direct edge-set stream skipped")
            ctx.dist["edges:skipped:other-return"] += 1
            return
    m = drv.ask({"op": "edges", "H": H, "W": W, "phi": [rat(x) for x in w], "mask": case["mask"], "wrap": wrap})
    if "driver" in str(m.get("err", "")):
        raise RuntimeError(f"driver error {m}")
    model = sorted(m.get("ok", []))
    if model != impl:
        disagree(ctx, "edge-set", case, model, impl, note="direct _build_edges call, sorted (i1,i2,inc) multisets")
    if isinstance(impl, list):
        if len(impl) >= 6:
            ctx.mark(("edges", H, W, wrap, mask is not None))


def gen_half_case(rng):
    """half-precision input on a grid with more than 2048 pixels (pixel indices exceed what float16 represents
    exactly): the field is a plain smooth one, only the storage type and the size are unusual"""
    H, W = rng.randint(46, 60), rng.randint(46, 60)
    wrap = rng.chance(0.3)
    kind = "periodic" if wrap else rng.choice(["ramp", "quadratic", "gauss", "bandlimited"])
    pairs = used_pairs(H, W, None, wrap)
    f = gen_float_field(rng, H, W, kind)
    qn = quantise_itoh(rng, f, pairs, rng.uniform(0.3, 0.9))
    return {"stream": "unwrap", "H": H, "W": W, "wrap": wrap, "mask": None, "mode": "wrapped", "dtype": "float16",
            "qn": qn, "kind": kind, "mkind": "none", "outside": "smooth"}


def gen_long_case(rng, variant, huge=False):
    """long thin grid (1..3 rows x 300..900 columns, or transposed) with a steep monotone field whose wrap count
    runs past 127 / 255 (huge: past 32767): compact description, expanded deterministically by expand_long"""
    R = 1 if huge else rng.randint(1, 3)
    if huge:
        L = 74000
    elif variant == "tent":
        L = rng.randint(720, 900)
    else:
        L = rng.choice([rng.randint(310, 420), rng.randint(620, 900)])
    return {"stream": "long", "R": R, "L": L, "transposed": (not huge) and rng.chance(0.5), "variant": variant,
            "holes": (not huge) and R >= 2 and rng.chance(0.5), "dtype": rng.choice(["float32", "float64"]),
            "seed": rng.next()}


def expand_long(c):
    from qv.prng import Rng
    rng = Rng(c["seed"])
    R, L, variant = c["R"], c["L"], c["variant"]
    sign = 1 if rng.chance(0.5) else -1
    lo, hi = (int(0.90 * DEN), int(0.97 * DEN)) if L > 10000 else (int(0.80 * DEN), int(0.97 * DEN))
    half = L // 2
    nsteps = half if variant == "tent" else L - 1
    P = [0]
    for _ in range(nsteps):
        P.append(P[-1] + sign * rng.randint(lo, hi))
    cut = None
    if variant == "bounded":
        wrap = False
        base = P
    elif variant == "tent":       # periodic: up to the middle and back down, smooth across the seam
        wrap = True
        base = [P[min(x, L - x)] for x in range(L)]
    else:                         # "cut": periodic grid, a masked band cuts the ring; the ramp runs through the seam
        wrap = True
        k = rng.randint(1, 3)
        c0 = rng.randint(0, L - 1)
        cut = {(c0 + j) % L for j in range(k)}
        start = (c0 + k) % L
        base = [P[(x - start) % L] for x in range(L)]
    off = rng.randint(-2 * DEN, 2 * DEN)
    rowstep = rng.randint(-300, 300)
    maskrc = [[1] * L for _ in range(R)]
    use_mask = cut is not None or c["holes"]
    if cut:
        for r in range(R):
            for x in cut:
                maskrc[r][x] = 0
    if c["holes"]:
        x = rng.randint(2, 40)
        while x < L - 2:
            maskrc[rng.below(R)][x] = 0
            x += rng.randint(3, 60)
    if c["transposed"]:
        H, W = L, R
        qn = [base[x] + off + r * rowstep for x in range(L) for r in range(R)]
        mask = [maskrc[r][x] for x in range(L) for r in range(R)]
    else:
        H, W = R, L
        qn = [base[x] + off + r * rowstep for r in range(R) for x in range(L)]
        mask = [maskrc[r][x] for r in range(R) for x in range(L)]
    return {"stream": "unwrap", "H": H, "W": W, "wrap": wrap, "mask": mask if use_mask else None, "mode": "wrapped",
            "dtype": c["dtype"], "qn": qn, "kind": "long-" + variant, "mkind": ("cut" if cut else "") + ("holes" if c["holes"] else "") or "none",
            "outside": "smooth"}


def eval_long_case(ctx, drv, c):
    full = expand_long(c)
    n = [wrap_q(Fr(v, DEN))[1] for v in full["qn"]]
    span = max(n) - min(n)
    ctx.dist[f"long:wrap-count-span:{'>32767' if span > 32767 else '>255' if span > 255 else '>127' if span > 127 else '<=127'}"] += 1
    ctx.dist[f"long:variant:{c['variant']}{':transposed' if c['transposed'] else ''}"] += 1
    eval_unwrap_case(ctx, drv, full, report_case=c)


def gen_medium_case(rng):
    """medium grids (40..64 per side): ordinary fields, masks and dtypes"""
    H, W = rng.randint(40, 64), rng.randint(40, 64)
    N = H * W
    wrap = rng.chance(0.4)
    mkind = rng.weighted([("none", 3), ("annulus", 2), ("multi", 2), ("blobs", 2), ("border", 1)])
    mask = gen_mask(rng, H, W, mkind)
    pairs = used_pairs(H, W, mask, wrap)
    kind = "periodic" if (wrap and rng.chance(0.7)) else rng.weighted(FIELD_KINDS)
    qn = quantise_itoh(rng, gen_float_field(rng, H, W, kind), pairs, gen_target(rng))
    off = rng.randint(-2 * DEN, 2 * DEN)
    qn = [v + off for v in qn]
    return {"stream": "unwrap", "H": H, "W": W, "wrap": wrap, "mask": mask, "mode": rng.choice(["wrapped", "wrapped", "zero2pi"]),
            "dtype": rng.choice(["float32", "float64"]), "qn": qn, "kind": kind, "mkind": mkind, "outside": "smooth"}


def gen_border_case(rng, shape=None, mkind=None):
    """wrap_around=False on a NON-periodic smooth field whose wrapped version is continuous across the border: a ramp
    climbing whole turns across the width (and/or height) plus a bump that is flat near the edges.  Periodic seam
    pairs would look perfectly reliable here but join pixels that are whole turns apart."""
    import numpy as np
    H, W = rng.randint(6, 22), rng.randint(6, 22)
    if shape is not None:
        H, W = shape
    tx = rng.randint(1, max(1, min(3, (W - 1) // 3)))
    ty = rng.choice([0, 0, 1, min(2, max(1, (H - 1) // 3))])
    if rng.chance(0.3):
        tx, ty = ty, tx
        if tx == 0 and ty == 0:
            tx = 1
    yy, xx = np.mgrid[:H, :W].astype(float)
    sx = 1 if rng.chance(0.5) else -1
    sy = 1 if rng.chance(0.5) else -1
    ramp = sx * 2.0 * tx * xx / W + sy * 2.0 * ty * yy / H          # units of pi: 2 per turn
    env = np.sin(math.pi * (xx + 0.5) / W) ** 2 * np.sin(math.pi * (yy + 0.5) / H) ** 2
    bump = env * gen_float_field(rng, H, W, rng.choice(["gauss", "bandlimited", "quadratic"]))
    bump = bump / max(1e-9, float(np.abs(bump).max()))
    mk0 = rng.weighted([("none", 4), ("border", 2), ("annulus", 1), ("blobs", 1)])
    mkind = mkind or mk0
    mask = gen_mask(rng, H, W, mkind)
    pairs = used_pairs(H, W, mask, False)
    amp = rng.uniform(0.5, 4.0)
    lim = (1 - MARGIN) * DEN
    qn = None
    for _ in range(40):
        f = ramp + amp * bump
        cand = [int(round(v * DEN)) for v in f.flatten()]
        if all(abs(cand[a] - cand[b]) <= lim for a, b in pairs):
            qn = cand
            break
        amp *= 0.8
    if qn is None:
        qn = [int(round(v * DEN)) for v in ramp.flatten()]
        if not all(abs(qn[a] - qn[b]) <= lim for a, b in pairs):
            qn = [0] * (H * W)
    off = rng.randint(-2 * DEN, 2 * DEN)
    qn = [v + off for v in qn]
    return {"stream": "unwrap", "H": H, "W": W, "wrap": False, "mask": mask, "mode": rng.choice(["wrapped", "wrapped", "zero2pi"]),
            "dtype": rng.choice(["float32", "float64"]), "qn": qn, "kind": "border-continuous", "mkind": mkind, "outside": "smooth"}


def gen_seam_case(rng, L=None, R=None, transposed=None, sign=None, interior_cut=False):
    """periodic grid whose mask component is held together ONLY by the seam of exactly one axis: a band that spans
    the periodic axis completely, cut once across; the ramp runs through the seam.  Non-square sizes, the other
    axis of length 1, 2 or more (H or W in {1, 2}: self-loops / double edges).  (L, R, transposed, sign given: the
    fixed blocks of growth 6 — the random draws below are then made and discarded, the stream of `rng` stays as it was)"""
    L0 = rng.randint(3, 22)                      # length of the axis whose seam is used
    R0 = rng.weighted([(1, 2), (2, 3), (rng.randint(3, 12), 5)])
    L = L0 if L is None else L
    R = R0 if R is None else R
    if R == L:
        R += 1
    t0 = rng.chance(0.5)                         # False: seam of axis 1 (columns wrap), True: seam of axis 0
    transposed = t0 if transposed is None else transposed
    if R <= 2:
        r0, r1 = 0, R - 1
    else:                                        # the band must not span the other axis (its seam is not to be used)
        r0 = rng.randint(0, R - 2)
        r1 = rng.randint(r0, R - 2) if r0 > 0 or rng.chance(0.5) else rng.randint(r0, R - 2)
        if rng.chance(0.5):                      # or push it against the far border instead
            sh = R - 1 - r1
            r0, r1 = r0 + sh, r1 + sh
            if r0 == 0:
                r0 = 1 if r1 >= 1 else 0
    k = 1 if L <= 4 else rng.randint(1, 2)
    c0 = rng.randint(0, L - 1)
    if interior_cut:                             # the cut strictly inside: the two parts touch ONLY across the seam
        c0 = 1 + c0 % max(1, L - 1 - k)
    cut = {(c0 + j) % L for j in range(k)}
    start = (c0 + k) % L
    s0 = 1 if rng.chance(0.5) else -1
    sign = s0 if sign is None else sign
    P = [0]
    for _ in range(L - 1):
        P.append(P[-1] + sign * rng.randint(int(0.45 * DEN), int(0.96 * DEN)))
    off = rng.randint(-2 * DEN, 2 * DEN)
    rowstep = rng.randint(-400, 400)
    val = lambda r, x: P[(x - start) % L] + off + r * rowstep  # noqa
    inm = lambda r, x: int(r0 <= r <= r1 and x not in cut)  # noqa
    garbage = rng.chance(0.5)
    if transposed:
        H, W = L, R
        cells = [(r, x) for x in range(L) for r in range(R)]
    else:
        H, W = R, L
        cells = [(r, x) for r in range(R) for x in range(L)]
    mask = [inm(r, x) for r, x in cells]
    qn = [val(r, x) if inm(r, x) or not garbage else rng.randint(-3 * DEN, 3 * DEN) for r, x in cells]
    return {"stream": "unwrap", "H": H, "W": W, "wrap": True, "mask": mask, "mode": rng.choice(["wrapped", "zero2pi"]),
            "dtype": rng.choice(["float32", "float64"]), "qn": qn, "kind": "seam-axis0" if transposed else "seam-axis1",
            "mkind": "band-cut", "outside": "garbage" if garbage else "smooth"}


# ---------------------------------------------------------------------------------------
# `_pixel_reliability` and the edge ORDER (exact: phases are multiples of pi/16, no wrapped difference on the
# +-pi boundary, so distinct reliabilities differ by >= pi^2/256 and no float comparison is decided by rounding)

ODEN = 16


def nb8(H, W, i):
    r, c = divmod(i, W)
    return [((r + dr) % H) * W + (c + dc) % W for dr in (-1, 0, 1) for dc in (-1, 0, 1) if (dr, dc) != (0, 0)]


def gen_order_case(rng):
    if rng.chance(0.25):
        H, W = rng.choice([(1, 1), (1, 2), (2, 1), (1, 6), (6, 1), (2, 2), (2, 5), (5, 2), (3, 1), (1, 3)])
    else:
        H, W = rng.randint(2, 10), rng.randint(2, 10)
    N = H * W
    wide = rng.chance(0.35)        # values far outside [-pi, pi): the reliability must be taken from the raw input
    lo, hi = (-4 * ODEN, 4 * ODEN) if wide else (-ODEN, ODEN - 1)
    qn = [rng.randint(lo, hi) for _ in range(N)]
    for _ in range(200):
        bad = [i for i in range(N) if any((qn[i] - qn[j]) % (2 * ODEN) == ODEN for j in nb8(H, W, i))]
        if not bad:
            break
        for i in bad:
            qn[i] = rng.randint(lo, hi)
    else:
        qn = [0] * N
    mkind = rng.weighted([("none", 4), ("rect", 1), ("annulus", 1), ("blobs", 2), ("sparse", 2), ("border", 1)]) if min(H, W) >= 3 else "none"
    return {"stream": "order", "H": H, "W": W, "wrap": rng.chance(0.5), "mask": gen_mask(rng, H, W, mkind), "mkind": mkind,
            "qn": qn, "wide": wide, "dtype": rng.choice(["float32", "float64"])}


def eval_order_case(ctx, drv, case):
    import torch
    iu = _iu()
    H, W, wrap = case["H"], case["W"], case["wrap"]
    N = H * W
    w = [Fr(v, ODEN) for v in case["qn"]]
    dt = DTYPES[case["dtype"]]()
    call_classes(case, helpers=True)
    phi = lay(torch.tensor([float(x) * math.pi for x in w], dtype=torch.float64).reshape(H, W).to(dt), case["layout"])
    mask = mask_tensor(case["mask"], H, W, case)
    ctx.dist[f"call:form:{case['call']}"] += 1
    ctx.dist[f"call:phi-layout:{case['layout']}"] += 1
    ctx.count()
    ctx.dist[f"order:dtype:{case['dtype']}"] += 1
    ctx.dist[f"order:wide-values:{case['wide']}"] += 1
    ctx.dist[f"order:mask:{case['mkind']}"] += 1
    ctx.dist[f"order:wrap_around:{wrap}"] += 1
    rec = Recorder(iu, ctx)
    pr = priv(ctx, iu, "_pixel_reliability")
    worker = priv(ctx, iu, "_unwrap_phase_2d_torch_reliability_sorting")
    R_impl = None
    if pr is not None:
        try:
            R_impl = call_helper(ctx, "_pixel_reliability", pr, (phi, mask), None if case["call"] == "positional" else dict(phi=phi, mask=mask))
            R_impl = [float(v) for v in R_impl.double().flatten().tolist()]
            if len(R_impl) != N:
                raise TypeError("shape")
        except TypeError:
            note(ctx, "call:_pixel_reliability", "private helper has other parameters / another return convention; reliability values not compared")
            R_impl = None
        except Exception as e:  # noqa
            disagree(ctx, "reliability", case, "a result", err_name(e))
            return
    try:
        with rec:
            # the anchored worker itself, in the other call form than the dispatcher gets in the end-to-end stream
            # (the public dispatcher when the private worker is gone)
            if worker is not None:
                try:
                    call_helper(ctx, "_unwrap_phase_2d_torch_reliability_sorting", worker, (phi, mask, wrap),
                                None if case["call"] == "positional" else dict(phi=phi, mask=mask, wrap_around=wrap))
                except TypeError:
                    note(ctx, "call:_unwrap_phase_2d_torch_reliability_sorting", "private worker has other parameters; public dispatcher used")
                    iu.unwrap_phase_2d_torch(phi, "reliability-sorting", mask, wrap)
            else:
                iu.unwrap_phase_2d_torch(phi, "reliability-sorting", mask, wrap)
    except Exception as e:  # noqa
        disagree(ctx, "reliability", case, "a result", err_name(e))
        return
    if rec.broken or len(rec.edges) != 1:
        rec.complete(-1)     # notes that the internal stages are not observable
        ctx.dist["order:skipped:merge-order-unobservable"] += 1
        if R_impl is None:
            return
        order = []
    else:
        order = [[a, b] for a, b, _ in rec.edges[0]]
    have_order = not (rec.broken or len(rec.edges) != 1)
    m = drv.ask({"op": "reliability", "H": H, "W": W, "phi": [rat(x) for x in w], "mask": case["mask"], "wrap": wrap,
                 "order": order})
    if "driver" in str(m.get("err", "")):
        raise RuntimeError(f"driver error {m}")
    mo = m["ok"]
    # reliabilities (float stream; inf exactly where the model says so)
    tol = 1e-9 if case["dtype"] == "float64" else 5e-4
    model_R = [None if s is None else float(Fr(s)) * math.pi ** 2 for s in mo["R"]]
    scale = max([1.0] + [abs(v) for v in model_R if v is not None])
    worst = 0.0
    if R_impl is not None:
        for i in range(N):
            if model_R[i] is None:
                if R_impl[i] != float("inf"):
                    disagree(ctx, "reliability", case, "inf", R_impl[i], note=f"pixel {i} outside the mask")
                    break
            else:
                worst = max(worst, abs(R_impl[i] - model_R[i]) / scale)
        ctx.stat_max(f"reliability:max |impl-model|/scale ({case['dtype']})", worst)
        if worst > tol:
            disagree(ctx, "reliability", case, model_R[:8], R_impl[:8], note=f"_pixel_reliability, distance/scale {worst:.3g} > {tol}")
    if not have_order:
        return
    # the ORDER the real sort produced: a permutation of the masked pairs, ascending in the model's exact edge reliability
    if not mo["perm"]:
        disagree(ctx, "edge-order", case, "a permutation of the masked neighbour pairs", "not a permutation")
    elif not mo["ascending"]:
        rel = [None if s is None else Fr(s) for s in mo["rel"]]
        k = next((i for i in range(len(rel) - 1) if rel[i] is None or (rel[i + 1] is not None and rel[i] > rel[i + 1])), 0)
        disagree(ctx, "edge-order", case, "edges merged in ascending order of the model's edge reliability (ties free)",
                 {"position": k, "pair": order[k:k + 2], "model_rel": [str(x) for x in rel[k:k + 2]]},
                 note="the order used by the real run is not ascending in the exact reliabilities")
    distinct = len({s for s in mo["rel"]})
    ctx.dist[f"order:distinct-edge-reliabilities:{'1' if distinct <= 1 else '2-5' if distinct <= 5 else '6-20' if distinct <= 20 else '>20'}"] += 1
    if distinct >= 4:
        ctx.mark(("order", H, W, wrap, case["mkind"], case["wide"], case["dtype"], min(distinct, 30)))
        ctx.sample({"stream": "edge-order", "H": H, "W": W, "wrap_around": wrap, "mask": case["mkind"], "edges": len(order),
                    "distinct_edge_reliabilities": distinct, "first_pairs": order[:4], "first_model_rel_over_pi2": mo["rel"][:4]}, limit=7)


def gen_edges_case(rng):
    H, W = gen_shape(rng, small=True)
    N = H * W
    wrap = rng.chance(0.5)
    mkind = rng.weighted(MASK_KINDS)
    mask = gen_mask(rng, H, W, mkind)
    pairs = used_pairs(H, W, None, wrap)       # margins on all pairs (mask applied by the code)
    qn = gen_raw(rng, N, pairs)
    rel = [rng.randint(0, 50) / 4.0 for _ in range(N)]
    return {"stream": "edges", "H": H, "W": W, "wrap": wrap, "mask": mask, "qn": qn, "rel": rel,
            "dtype": rng.choice(["float32", "float64"])}


# ---------------------------------------------------------------------------------------
# union–find on arbitrary multigraphs

def gen_uf_case(rng):
    if rng.chance(0.5):
        # a run the unwrapper itself could perform: neighbour pairs of a (masked, maybe periodic) grid in an
        # arbitrary order, increments = differences of a wrap-count field with neighbour steps in {-1,0,1}
        H, W = rng.randint(1, 8), rng.randint(1, 8)
        N = H * W
        wrap = rng.chance(0.5)
        mask = gen_mask(rng, H, W, rng.weighted(MASK_KINDS)) if min(H, W) >= 3 else None
        pairs = used_pairs(H, W, mask, wrap)
        f = gen_float_field(rng, H, W, rng.choice(["ramp", "quadratic", "gauss", "bandlimited"]))
        qn = quantise_itoh(rng, f, pairs, rng.uniform(0.5, 0.97))
        off = rng.randint(-DEN, DEN)
        nfield = [wrap_q(Fr(v + off, DEN))[1] for v in qn]
        order = rng.shuffle(pairs)
        edges = [[a, b, nfield[a] - nfield[b]] for a, b in order]
        return {"stream": "uf", "N": N, "edges": edges, "consistent": True, "n": nfield, "grid": [H, W, wrap]}
    N = rng.weighted([(1, 1), (2, 1), (3, 1), (rng.randint(4, 12), 5), (rng.randint(13, 60), 4)])
    E = rng.randint(0, 3 * N)
    consistent = rng.chance(0.5)
    nfield = [rng.randint(-3, 3) for _ in range(N)]
    edges = []
    for _ in range(E):
        a = rng.below(N)
        b = a if rng.chance(0.08) else rng.below(N)
        if edges and rng.chance(0.1):
            pa, pb, pi = edges[rng.below(len(edges))]
            a, b = (pa, pb) if rng.chance(0.5) else (pb, pa)     # duplicate, maybe reversed
        inc = nfield[a] - nfield[b] if consistent else rng.randint(-1, 1)
        edges.append([a, b, inc])
    return {"stream": "uf", "N": N, "edges": edges, "consistent": consistent, "n": nfield if consistent else None, "grid": None}


def real_offsets(ctx, iu, uf, N):
    """final offsets of a real union-find object: `_final_offsets(uf)` when that private helper exists, otherwise the
    object's own `find_root_and_offset` for every pixel"""
    fo = getattr(iu, "_final_offsets", None)
    if callable(fo):
        try:
            return as_int_list(list(fo(uf).tolist()))
        except (TypeError, AttributeError):
            pass
    note(ctx, "missing:_final_offsets", "final offsets read through UnionFindPhase.find_root_and_offset instead")
    return as_int_list([float(uf.find_root_and_offset(i)[1]) for i in range(N)])


def run_real_uf(ctx, iu, N, edges, allow_raise=False):
    """drive a real `UnionFindPhase` object with a list of union calls.  Returns (state dict | {"err": name} | None, merges);
    None = the class / its methods cannot be resolved in the current source (stream skipped, noted).  With allow_raise the
    calls that raise are recorded (`raised` flags) and the history goes on."""
    cls = priv(ctx, iu, "UnionFindPhase")
    if cls is None or not callable(getattr(cls, "union", None)):
        note(ctx, "missing:UnionFindPhase.union", "union-find object not resolvable; union-find streams skipped")
        return None, 0
    try:
        uf = cls(N)
    except TypeError:
        note(ctx, "call:UnionFindPhase", "constructor no longer takes (n); union-find streams skipped")
        return None, 0
    merges = 0
    raised = []
    try:
        for a, b, inc in edges:
            before = None
            try:
                before = uf_state(uf)
            except Exception:  # noqa
                pass
            try:
                uf.union(a, b, inc)
                raised.append(False)
            except Exception as e:  # noqa
                if not allow_raise:
                    raise
                raised.append(err_name(e))
            if before is not None:
                merges += int(before != uf_state(uf))
        incs = real_offsets(ctx, iu, uf, N)
        try:
            impl = dict(uf_state(uf), incs=incs)
        except Exception:  # noqa
            note(ctx, "uf-internal:attributes", "parent / rank / offset attributes not readable; only final offsets compared")
            impl = {"incs": incs}
            merges = len(edges)
        if allow_raise:
            impl["raised"] = raised
    except Exception as e:  # noqa
        impl = {"err": err_name(e)}
        merges = 0
    return impl, merges


def eval_uf_case(ctx, drv, case):
    iu = _iu()
    N, edges = case["N"], case["edges"]
    ctx.count()
    ctx.dist[f"uf:consistent:{case['consistent']}"] += 1
    ctx.dist[f"uf:graph:{'grid' if case.get('grid') else 'random-multigraph'}"] += 1
    ctx.dist[f"uf:N:{'<=3' if N <= 3 else '<=12' if N <= 12 else '<=60'}"] += 1
    impl, merges = run_real_uf(ctx, iu, N, edges)
    if impl is None:
        ctx.dist["uf:skipped:internals-not-resolvable"] += 1
        return
    m = drv.ask({"op": "uf", "N": N, "edges": edges})
    if "driver" in str(m.get("err", "")):
        raise RuntimeError(f"driver error {m}")
    model = m.get("ok", m)
    compare_uf(ctx, "union-find", case, model, impl, "random multigraph")
    if merges >= 3:
        ctx.mark(("uf", N, len(edges), case["consistent"], merges, bool(case.get("grid"))))
    # predicate (only for runs the unwrapper itself could perform — grid neighbour pairs, wrap-count steps in
    # {-1,0,1}, any order): the final offset minus the wrap count is constant on every component
    if case.get("grid") and "err" not in impl:
        lab, _ = components(N, [(a, b) for a, b, _ in edges], None)
        per = {}
        for i in range(N):
            v = impl["incs"][i]
            per.setdefault(lab[i], set()).add(v - case["n"][i])
        bad = {c: sorted(v) for c, v in per.items() if len(v) > 1}
        if bad:
            c = sorted(bad)[0]
            pred_fail(ctx, "uf-offsets", "union-find offsets inconsistent with the increment field on a component",
                          case, observed=bad[c][:6], required="offset(i) - n(i) constant on each connected component")
    if merges >= 3:
        ctx.sample({"stream": "union-find", "N": N, "edges": edges[:8], "merges": merges, "consistent": case["consistent"]}, limit=6)


# ---------------------------------------------------------------------------------------
# bf-overlap embedding

def gen_bf_case(rng, fixed=None):
    import numpy as np
    H, W = (fixed["H"], fixed["W"]) if fixed else (rng.randint(4, 16), rng.randint(4, 16))
    N = H * W
    yy, xx = np.mgrid[:H, :W].astype(float)
    # bf disk (sometimes touching the border), overlap mask = disk ∩ shifted disk (or variants)
    cy, cx = rng.uniform(H * 0.35, H * 0.65), rng.uniform(W * 0.35, W * 0.65)
    rad = rng.uniform(0.3, 0.6) * min(H, W)
    bf = np.hypot(yy - cy, xx - cx) <= rad
    if not bf.any():
        bf[H // 2, W // 2] = True
    if fixed:
        bf = np.array(fixed["bf_mask"], dtype=bool).reshape(H, W)
        ys, xs = np.nonzero(bf)
        cy, cx = float(ys.mean()), float(xs.mean())
        rad = max(1.0, math.sqrt(bf.sum() / math.pi))
    mk = rng.weighted([("lens", 4), ("all", 2), ("two", 2), ("none", 1), ("sparse", 1)])
    if mk == "lens":
        sy, sx = rng.uniform(-rad, rad), rng.uniform(-rad, rad)
        ov = bf & (np.hypot(yy - cy - sy, xx - cx - sx) <= rad)
    elif mk == "all":
        ov = bf.copy()
    elif mk == "two":
        ov = bf & ((np.hypot(yy - cy - rad, xx - cx) <= rad * 0.8) | (np.hypot(yy - cy + rad, xx - cx) <= rad * 0.8))
    elif mk == "none":
        ov = np.zeros_like(bf)
    else:
        ov = bf & np.array([[rng.chance(0.6) for _ in range(W)] for _ in range(H)], dtype=bool)
    mgrid = [int(v) for v in ov.flatten()]
    wrap = rng.weighted([(None, 3), (True, 1), (False, 2)])     # None: the function's default (True)
    if fixed:
        wrap = fixed["wrap"]      # one call signature for all images of a stack: Itoh on the pairs THAT setting uses
    pairs = used_pairs(H, W, mgrid, wrap is not False)
    mode = rng.weighted([("smooth", 8), ("raw", 2)])
    if mode == "smooth":
        kind = rng.weighted(FIELD_KINDS)
        f = gen_float_field(rng, H, W, kind)
        qn = quantise_itoh(rng, f, pairs, gen_target(rng))
        off = rng.randint(-2 * DEN, 2 * DEN)
        qn = [v + off for v in qn]
    else:
        kind = "raw"
        qn = gen_raw(rng, N, pairs)
    return {"stream": "bf", "H": H, "W": W, "bf_mask": [int(v) for v in bf.flatten()], "mask_grid": mgrid,
            "qn": qn, "mode": mode, "kind": kind, "mkind": mk, "two_pass": fixed["two_pass"] if fixed else rng.chance(0.6), "wrap": wrap,
            "cdtype": "complex64"}   # the function scatters into a float32 grid: complex128 input raises (dtype mismatch)


def gen_bf_stack_case(rng):
    """several images through ONE bf_mask, as the caller's loop does (out[:, j] = f(data[:, j], mask[:, j], bf_mask))"""
    first = gen_bf_case(rng)
    imgs = [first]
    for _ in range(rng.randint(0, 4)):
        # same geometry, call signature and bf_mask; only the overlap mask and the field change
        imgs.append(gen_bf_case(rng, fixed=first))
    return {"stream": "bf_stack", "images": imgs}


def eval_bf_stack_case(ctx, drv, case):
    import torch
    imgs = case["images"]
    first = imgs[0]
    H, W, bf = first["H"], first["W"], first["bf_mask"]
    N = H * W
    pos = [i for i in range(N) if bf[i]]
    preps = [(c, prep_bf(None, c)) for c in imgs]
    preps = [(c, p) for c, p in preps if p is not None]
    ctx.dist[f"bf_stack:images:{len(preps)}"] += 1
    if not preps:
        return
    # the caller's 2-D tensors: column j is image j (columns are NON-contiguous views, as in the caller)
    ang = torch.tensor([[float(p["w"][i]) * math.pi for _, p in preps] for i in pos], dtype=torch.float64)
    data = torch.polar(torch.ones_like(ang), ang).to(torch.complex64)
    masks = torch.tensor([[bool(c["mask_grid"][i]) for c, _ in preps] for i in pos], dtype=torch.bool)
    got = []
    for j, (c, _) in enumerate(preps):
        eval_bf_case(ctx, drv, c, tensors=(data[:, j], masks[:, j]), collect=got)
    if len(got) != len(preps):
        return      # an image failed; already reported by eval_bf_case
    m = drv.ask({"op": "bf_stack", "H": H, "W": W, "bf_mask": bf, "two_pass": first["two_pass"],
                 "images": [{k: g[k] for k in ("mask_bf", "phase", "order1", "order2")} for g in got]})
    if "driver" in str(m.get("err", "")):
        raise RuntimeError(f"driver error {m}")
    ctx.count()
    res = m.get("ok")
    if not isinstance(res, list) or len(res) != len(got):
        disagree(ctx, "bf-stack", case, f"{len(got)} results", res if not isinstance(res, list) else len(res))
        return
    for j, (g, r) in enumerate(zip(got, res)):
        if r is None:
            disagree(ctx, "bf-stack", case, "a result", "NonTermination", note=f"image {j}")
            continue
        model_out = [float(Fr(x)) * math.pi for x in r["out"]]
        dist, ok = close(g["out"], model_out, TOL32)
        if not ok or r["out"] != g["model_out"]:
            disagree(ctx, "bf-stack", case, model_out, g["out"], note=f"image {j} of {len(got)}: column of the stacked result")
    if len(got) >= 2:
        ctx.mark(("bf_stack", H, W, len(got), first["two_pass"], first["wrap"]))


def prep_bf(ctx, case):
    """exact wrapped phases / wrap counts for a bf case, or None when the case sits on a float threshold"""
    H, W = case["H"], case["W"]
    N = H * W
    bf = case["bf_mask"]
    pos = [i for i in range(N) if bf[i]]
    q = [Fr(v, DEN) for v in case["qn"]]
    # wrapped phases at the bf pixels; shift the field by a constant so that no wrapped value sits within
    # 2^-7 of +-1 (torch.angle returns (-pi, pi]: +-pi is ambiguous in floating point)
    shift = Fr(0)
    for t in range(64):
        ws = [wrap_q(q[i] + shift)[0] for i in pos]
        if all(abs(x) <= 1 - Fr(1, 128) for x in ws):
            break
        shift += Fr(5, 256)
    else:
        if ctx is not None:
            ctx.dist["bf:rejected:near-pi"] += 1
        return None
    q = [x + shift for x in q]
    wn = [wrap_q(x) for x in q]
    w = [a for a, _ in wn]
    n = [b for _, b in wn] if case["mode"] == "smooth" else [0] * N
    # the `max - min > pi` test must not sit on the threshold
    grid_vals = [w[i] if bf[i] else Fr(0) for i in range(N)]
    span = max(grid_vals) - min(grid_vals)
    if abs(span - 1) < MARGIN:
        if ctx is not None:
            ctx.dist["bf:rejected:span-near-pi"] += 1
        return None
    return {"pos": pos, "q": q, "w": w, "n": n}


def eval_bf_case(ctx, drv, case, tensors=None, collect=None):
    import torch
    from quantem.diffractive_imaging import direct_ptycho_utils as dpu
    iu = _iu()
    H, W = case["H"], case["W"]
    N = H * W
    bf = case["bf_mask"]
    mgrid = case["mask_grid"]
    prep = prep_bf(ctx if tensors is None else None, case)
    if prep is None:
        return
    pos, q, w, n = prep["pos"], prep["q"], prep["w"], prep["n"]
    cdt = torch.complex64 if case["cdtype"] == "complex64" else torch.complex128
    ang = torch.tensor([float(w[i]) * math.pi for i in pos], dtype=torch.float64)
    data = torch.polar(torch.ones_like(ang), ang).to(cdt)
    call_classes(case, helpers=True)
    bf_t = lay(torch.tensor(bf, dtype=torch.bool).reshape(H, W), case["mask_layout"], fill=1)
    mask_bf = torch.tensor([bool(mgrid[i]) for i in pos], dtype=torch.bool)
    if tensors is not None:
        data, mask_bf = tensors
    elif case["layout"] != "C":        # step-sliced 1-D views of the per-pixel inputs
        big = torch.zeros(2 * len(pos), dtype=data.dtype)
        big[::2] = data
        data = big[::2]
        bigm = torch.ones(2 * len(pos), dtype=torch.bool)
        bigm[::2] = mask_bf
        mask_bf = bigm[::2]
    ctx.dist[f"call:form:bf:{case['call']}"] += 1
    ctx.dist[f"call:bf_mask-layout:{case['mask_layout']}"] += 1
    kwargs = {} if case["wrap"] is None else {"wrap_around": case["wrap"]}
    wrap_eff = case["wrap"] is not False
    rec = Recorder(iu, ctx)
    try:
        with rec:
            if case["call"] == "positional":
                out_t = dpu.unwrap_bf_overlap_phase_torch(data, mask_bf, bf_t, method="reliability-sorting",
                                                          two_pass=case["two_pass"], **kwargs)
            else:   # as the caller in direct_ptychography.py writes it
                out_t = dpu.unwrap_bf_overlap_phase_torch(complex_data_bf=data, mask_bf=mask_bf, bf_mask=bf_t,
                                                          method="reliability-sorting", two_pass=case["two_pass"], **kwargs)
        out = [float(v) for v in out_t.detach().cpu().double().tolist()]
        err = None
    except Exception as e:  # noqa
        out, err = None, err_name(e)
    ctx.count()
    pairs = used_pairs(H, W, mgrid, wrap_eff)
    lab, ncomp = components(N, pairs, mgrid)
    wraps, _ = wrap_variation(n, lab)
    ctx.dist[f"bf:mask:{case['mkind']}"] += 1
    ctx.dist[f"bf:mode:{case['mode']}"] += 1
    ctx.dist[f"bf:two_pass:{case['two_pass']}"] += 1
    ctx.dist[f"bf:wrap_around:{case['wrap']}"] += 1
    ctx.dist[f"bf:passes-run:{rec.passes}"] += 1
    small_case = dict(case)
    if err is not None:
        pred_fail(ctx, "bf-raises", f"unwrap_bf_overlap_phase_torch raised {err}", small_case, observed=err, required="a result")
        return
    if wraps and rec.passes:
        ctx.mark(("bf", case["kind"], case["mkind"], case["two_pass"], case["wrap"], H, W, min(ncomp, 4)))
    # ---- predicate: on the overlap-mask pixels the result is the truth up to a constant per component
    only = [bool(mgrid[i]) for i in pos]      # the claim is about the overlap-mask pixels
    sub = lambda xs: [xs[i] for i in pos]  # noqa
    check_property(ctx, small_case, "bf", sub(q), sub(w), sub(n), out, sub(lab), ncomp, case["mode"] == "smooth", only=only)
    # ---- correspondence.  The number of passes is observed at the PUBLIC dispatcher; the merge orders of the passes are
    # internal stages (private `_build_edges`): without them the model cannot be run on the same order, and the branch
    # (public) plus the predicate above decide
    observable = rec.complete()
    o1 = [[a, b] for a, b, _ in rec.edges[0]] if observable and len(rec.edges) >= 1 else []
    o2 = [[a, b] for a, b, _ in rec.edges[1]] if observable and len(rec.edges) >= 2 else []
    m = drv.ask({"op": "bf", "H": H, "W": W, "bf_mask": bf, "mask_bf": [int(mgrid[i]) for i in pos],
                 "phase": [rat(w[i]) for i in pos], "two_pass": case["two_pass"], "order1": o1, "order2": o2,
                 "wrap": wrap_eff})
    if "driver" in str(m.get("err", "")):
        raise RuntimeError(f"driver error {m}")
    mo = m.get("ok")
    if mo is None:
        disagree(ctx, "bf-overlap", small_case, m, "a result")
        return
    branch_impl = {0: None, 1: "onePass", 2: "twoPass"}[min(rec.passes, 2)]
    if branch_impl is None:
        if mo["branch"] not in ("noMask", "smallRange"):
            disagree(ctx, "bf-overlap", small_case, mo["branch"], "no unwrapping pass ran", note="branch")
    elif mo["branch"] != branch_impl:
        disagree(ctx, "bf-overlap", small_case, mo["branch"], branch_impl, note="branch")
    ctx.dist[f"bf:branch:{mo['branch']}"] += 1
    if not observable and rec.passes:
        ctx.dist["bf:skipped:merge-order-unobservable"] += 1
        return
    if not mo.get("perm1", True) or not mo.get("perm2", True):
        disagree(ctx, "bf-overlap", small_case, "orders are permutations of maskedPairs", [mo.get("perm1"), mo.get("perm2")])
    model_out = [float(Fr(s)) * math.pi for s in mo["out"]]
    dist, ok = close(out, model_out, TOL32)
    ctx.stat_max("bf-overlap:max |impl-model|/scale", dist)
    if not ok:
        disagree(ctx, "bf-overlap", small_case, model_out, out, note=f"gathered output, distance/scale {dist:.3g} > {TOL32}")
    if collect is not None:
        collect.append({"mask_bf": [int(mgrid[i]) for i in pos], "phase": [rat(w[i]) for i in pos], "order1": o1, "order2": o2,
                        "out": out, "model_out": mo["out"]})
    if wraps and rec.passes:
        ctx.sample({"stream": "bf-overlap", "H": H, "W": W, "bf_pixels": len(pos), "overlap_pixels": sum(mgrid),
                    "two_pass": case["two_pass"], "wrap_around": case["wrap"], "branch": mo["branch"], "components": ncomp}, limit=5)


# ---------------------------------------------------------------------------------------
# HISTORIES of calls (growth 5): rejected / raising calls between valid ones — on the module (which must keep no state
# between calls: Model/UnwrapSession.lean `runSession`, theorem session_exception_safe), on one UnionFindPhase object
# (a rejected union leaves the arrays untouched: `ufHistory`, theorem uf_history_invariant) and on the bright-field
# function (`unwrapBfOverlapM`, theorem bf_args_spec).  EVERY valid call of a history is evaluated exactly like a
# stand-alone case (property predicate with the independent oracle + correspondence with the model).

# rejected calls whose exception is an explicit `raise` of the anchored code: the TYPE is compared with the model.  The
# other kinds are malformed arguments whose rejection is incidental (torch indexing / broadcasting / unpacking): whether
# and how they raise is recorded and noted, never alarmed on; what matters is every valid call after them.
EXPLICIT_REJECTS = ("method-unknown", "method-none", "poisson-bounded")
REJECT_KINDS = ["mask-row", "mask-1xW", "mask-Hx1", "mask-1x1", "mask-0d", "mask-nobroadcast", "mask-flat", "mask-3d",
                "method-unknown", "method-none", "phi-1d", "phi-3d", "poisson-bounded", "fault", "fault", "fault"]
FAULT_AT = [1, 2, 4, 7, 11, 16, 22, 29, 37, 46, 56, 70, 90, 120, 170, 250, 400]
_FAULTY = {}


def faulty_classes():
    """a torch.Tensor subclass whose k-th torch operation raises: fault injection through the PUBLIC argument only (no
    private name is touched) — `phi` handed over as such a tensor makes the call fail part-way, wherever the k-th
    operation on phi-derived tensors happens to be (reliability, edge building, union loop, assembly)"""
    if not _FAULTY:
        import torch

        class InjectedFault(RuntimeError):
            pass

        class FaultyTensor(torch.Tensor):
            state = {"left": None, "calls": 0}

            @classmethod
            def __torch_function__(cls, func, types, args=(), kwargs=None):
                st = cls.state
                st["calls"] += 1
                if st["left"] is not None:
                    st["left"] -= 1
                    if st["left"] <= 0:
                        st["left"] = None
                        raise InjectedFault("injected fault")
                return super().__torch_function__(func, types, args, kwargs or {})

        _FAULTY["t"], _FAULTY["e"] = FaultyTensor, InjectedFault
    return _FAULTY["t"], _FAULTY["e"]


def history_shapes():
    return [(h, w) for d in range(1, 12) for h in range(2, 14) for w in (h + d, h - d) if 2 <= w <= 13]


def gen_history(rng, hidx):
    """one history on a grid shape of its own (H != W, both >= 2; enumerated, not drawn: whatever a call may leave behind
    in the module — and whatever that is keyed by — the first call of the history is the first call of the process on that
    grid).  Fixed blocks: the reject kind, the wrap_around setting of the rejected call and the template (rejected call
    first / after a valid call) are enumerated from the history index, so the coverage does not depend on the seed."""
    shapes = history_shapes()
    H, W = shapes[hidx % len(shapes)]
    kind = REJECT_KINDS[hidx % len(REJECT_KINDS)]
    wrap0 = bool((hidx // len(REJECT_KINDS)) % 2)
    template = (hidx // (2 * len(REJECT_KINDS))) % 3
    modes = [("wrapped", 6), ("zero2pi", 1), ("unwrapped", 1), ("raw", 1)]
    mk = [("none", 3), ("rect", 1), ("annulus", 1), ("multi", 2), ("blobs", 2), ("border", 2), ("alltrue", 1)]

    def valid(wrap, masked, reuse=None):
        if reuse is not None:
            return {"op": "valid", "reuse": reuse}
        c = gen_unwrap_case(rng.fork(len(steps) + 17), shape=(H, W), wrap=wrap, mkind=("none" if not masked else rng.weighted(mk[1:])),
                            modes=modes)
        return {"op": "valid", "case": c}

    def reject(k, wrap):
        return {"op": "reject", "kind": k, "wrap": wrap, "fault_at": FAULT_AT[(hidx // 3 + len(steps)) % len(FAULT_AT)],
                "masked": rng.chance(0.5), "seed": rng.next()}

    steps = []
    if template == 1:
        steps.append(valid(wrap0, rng.chance(0.5)))
    elif template == 2:
        steps.append(valid(not wrap0, True))
    steps.append(reject(kind, wrap0))
    first_valid = len(steps)
    steps.append(valid(wrap0, rng.chance(0.4)))
    steps.append(valid(not wrap0, rng.chance(0.6)))
    steps.append(reject(rng.choice(REJECT_KINDS), not wrap0))
    steps.append(valid(not wrap0, rng.chance(0.5)))
    steps.append(valid(wrap0, True))
    steps.append(valid(None, None, reuse=first_valid))      # the caller uses the very same tensor objects again
    if rng.chance(0.4):
        steps.append(reject(rng.choice(REJECT_KINDS), rng.chance(0.5)))
        steps.append(valid(rng.chance(0.5), rng.chance(0.5)))
    return {"stream": "history", "H": H, "W": W, "hidx": hidx, "steps": steps}


def reject_call(iu, H, W, step):
    """the arguments of a rejected call (and the model's description of it).  Returns (thunk, model call dict | None)"""
    import torch
    from qv.prng import Rng
    r = Rng(step["seed"])
    kind, wrap = step["kind"], step["wrap"]
    N = H * W
    qn = [r.randint(-DEN, DEN - 1) for _ in range(N)]
    phi = torch.tensor([v / DEN * math.pi for v in qn], dtype=torch.float64).reshape(H, W).to(torch.float32)
    mcall = {"method": "reliability-sorting", "phi_shape": [H, W], "phi": [rat(Fr(v, DEN)) for v in qn], "mask": None,
             "mask_shape": None, "wrap": wrap, "order": None}
    mshape = {"mask-row": [W], "mask-1xW": [1, W], "mask-Hx1": [H, 1], "mask-1x1": [1, 1], "mask-0d": [],
              "mask-nobroadcast": [H + 1, W], "mask-flat": [N], "mask-3d": [1, H, W]}.get(kind)
    if mshape is not None:
        n = 1
        for d in mshape:
            n *= d
        vals = [int(r.chance(0.8)) for _ in range(n)]
        mask = torch.tensor(vals, dtype=torch.bool).reshape(mshape)
        mcall.update(mask=vals, mask_shape=mshape)
        return (lambda: iu.unwrap_phase_2d_torch(phi, "reliability-sorting", mask, wrap)), mcall
    if kind in ("method-unknown", "method-none"):
        meth = None if kind == "method-none" else r.choice(["reliability_sorting", "Reliability-Sorting", "herraez", "", "poisson "])
        mcall.update(method="<None>" if meth is None else meth)
        return (lambda: iu.unwrap_phase_2d_torch(phi, method=meth, wrap_around=wrap)), mcall
    if kind == "phi-1d":
        mcall.update(phi_shape=[N])
        return (lambda: iu.unwrap_phase_2d_torch(phi.reshape(N), wrap_around=wrap)), mcall
    if kind == "phi-3d":
        mcall.update(phi_shape=[1, H, W])
        return (lambda: iu.unwrap_phase_2d_torch(phi.reshape(1, H, W), wrap_around=wrap)), mcall
    if kind == "poisson-bounded":
        mcall.update(method="poisson", wrap=False)
        return (lambda: iu.unwrap_phase_2d_torch(phi, method="poisson", wrap_around=False)), mcall
    # fault: a valid call (maybe masked) whose k-th torch operation on phi raises
    FaultyTensor, _ = faulty_classes()
    mask = torch.tensor([r.chance(0.8) for _ in range(N)], dtype=torch.bool).reshape(H, W) if step["masked"] else None

    def thunk():
        ft = phi.as_subclass(FaultyTensor)
        FaultyTensor.state["left"] = step["fault_at"]
        try:
            return iu.unwrap_phase_2d_torch(ft, "reliability-sorting", mask, wrap)
        finally:
            FaultyTensor.state["left"] = None
    return thunk, None


def eval_history_case(ctx, drv, hist):
    import torch
    import traceback
    iu = _iu()
    H, W = hist["H"], hist["W"]
    ctx.dist["history:histories"] += 1
    done = []          # per step: the tensors used and what came back
    mcalls, mwhich = [], []
    for k, step in enumerate(hist["steps"]):
        if step["op"] == "reject":
            thunk, mcall = reject_call(iu, H, W, step)
            try:
                r = thunk()
                got = "returned"
            except Exception as e:  # noqa
                got = err_name(e)
                if step["kind"] == "fault":
                    fr = [f.name for f in traceback.extract_tb(e.__traceback__) if "/quantem/" in f.filename]
                    ctx.dist[f"history:fault-raised-in:{fr[-1] if fr else '?'}"] += 1
            ctx.count()
            ctx.dist[f"history:rejected-call:{step['kind']}:{got}"] += 1
            ctx.dist[f"history:rejected-call-position:{'first-on-this-grid' if k == 0 else 'later'}"] += 1
            done.append({"got": got})
            if mcall is not None:
                mcalls.append(mcall)
                mwhich.append(k)
            continue
        if "reuse" in step:
            src = done[step["reuse"]]
            if "case" not in src:
                done.append({})
                continue
            case, tensors = src["case"], src["tensors"]
            ctx.dist["history:valid-call:same-tensor-objects-again"] += 1
        else:
            case = dict(step["case"])
            call_classes(case)
            _, _, _, phi, mask = field_tensor(case)
            tensors = (phi, mask)
        before = (tensors[0].clone(), None if tensors[1] is None else tensors[1].clone())
        rep = {"stream": "history", "H": H, "W": W, "hidx": hist["hidx"], "steps": hist["steps"][:k + 1]}
        res = eval_unwrap_case(ctx, drv, case, report_case=rep, tensors=tensors, stream="history")
        ctx.dist[f"history:valid-call:{'after-rejected-call' if k and hist['steps'][k - 1]['op'] == 'reject' else 'after-valid-call' if k else 'first'}"] += 1
        same = torch.equal(before[0], tensors[0]) and (before[1] is None or torch.equal(before[1].to(torch.float64).nan_to_num(7.0),
                                                                                        tensors[1].to(torch.float64).nan_to_num(7.0)))
        if not same:
            disagree(ctx, "history", rep, "arguments unchanged by the call", "phi / mask modified in place", note=f"step {k}")
        done.append({"case": case, "tensors": tensors, "res": res})
        if res is not None:
            mcalls.append({"method": "reliability-sorting", "phi_shape": [H, W], "phi": [rat(x) for x in res["w"]],
                           "mask": case["mask"], "mask_shape": [H, W], "wrap": case["wrap"], "order": res["order"]})
            mwhich.append(k)
    # ---- the whole history through the model's session function
    m = drv.ask({"op": "session", "calls": mcalls})
    if "driver" in str(m.get("err", "")):
        raise RuntimeError(f"driver error {m}")
    outs = m.get("ok") or []
    small = {"stream": "history", "H": H, "W": W, "hidx": hist["hidx"], "steps": hist["steps"]}
    if len(outs) != len(mcalls):
        disagree(ctx, "history", small, f"{len(mcalls)} outcomes", len(outs))
        return
    nvalid = 0
    for k, mo in zip(mwhich, outs):
        step, d = hist["steps"][k], done[k]
        if step["op"] == "reject":
            want = mo.get("raised") or ("returned" if ("out" in mo or "poisson" in mo) else str(mo))
            if step["kind"] in EXPLICIT_REJECTS:
                if d["got"] != want:
                    disagree(ctx, "history", small, want, d["got"], note=f"step {k}: rejected call {step['kind']} (explicit raise of the anchored code)")
            elif d["got"] != want:
                ctx.dist[f"history:malformed-argument-outcome-differs:{step['kind']}:model={want}:impl={d['got']}"] += 1
                note(ctx, f"malformed:{step['kind']}", f"a malformed argument is handled differently from the model (model {want}, code {d['got']}); outside the documented domain, not alarmed on")
            continue
        res = d.get("res")
        if res is None:
            continue
        nvalid += 1
        if "out" not in mo:
            disagree(ctx, "history", small, mo, "a result", note=f"step {k}: the model's session has no result for a valid call")
            continue
        if res["order"] is None:
            continue            # merge order not observable: public_compare (inside eval_unwrap_case) has decided
        model_out = [float(Fr(x)) * math.pi for x in mo["out"]]
        dist, ok = close(res["out"], model_out, TOL[d["case"]["dtype"]])
        ctx.stat_max("history:max |impl-model|/scale", dist)
        if not ok or not mo.get("perm", True):
            disagree(ctx, "history", small, model_out[:16], res["out"][:16], note=f"step {k}: valid call inside a history vs runSession, distance/scale {dist:.3g}")
    if nvalid >= 3:
        ctx.mark(("history", H, W, tuple(s.get("kind", "v") for s in hist["steps"])))
        ctx.sample({"stream": "history", "H": H, "W": W, "steps": [s.get("kind", "valid") for s in hist["steps"]]}, limit=2)


def replay_history(ctx, drv, case):
    """a replayed history: the recorded prefix of steps, run from the start (the failing valid call is the last step)"""
    eval_history_case(ctx, drv, case)


# union calls on ONE object, rejected ones included

def gen_uf_hist_case(rng):
    N = rng.weighted([(1, 1), (2, 1), (rng.randint(3, 12), 6), (rng.randint(13, 40), 2)])
    nfield = [rng.randint(-3, 3) for _ in range(N)]
    edges = []
    for _ in range(rng.randint(1, 3 * N + 2)):
        a, b = rng.below(N), rng.below(N)
        inc = nfield[a] - nfield[b]
        if rng.chance(0.25):       # an index past the end, in the first or the second position
            bad = rng.choice([N, N + 1, N + rng.randint(2, 50)])
            if rng.chance(0.5):
                a = bad
            else:
                b = bad
            inc = rng.randint(-2, 2)
        edges.append([a, b, inc])
    return {"stream": "uf_hist", "N": N, "edges": edges, "n": nfield}


def eval_uf_hist_case(ctx, drv, case):
    iu = _iu()
    N, edges = case["N"], case["edges"]
    ctx.count()
    impl, merges = run_real_uf(ctx, iu, N, edges, allow_raise=True)
    if impl is None:
        ctx.dist["uf_hist:skipped:internals-not-resolvable"] += 1
        return
    m = drv.ask({"op": "uf_hist", "N": N, "edges": edges})
    if "driver" in str(m.get("err", "")):
        raise RuntimeError(f"driver error {m}")
    model = m.get("ok", m)
    if "err" in impl or "raised" not in model:
        disagree(ctx, "uf-history", case, model, impl)
        return
    nrej = sum(1 for f in model["raised"] if f)
    ctx.dist[f"uf_hist:rejected-unions:{min(nrej, 4)}{'+' if nrej >= 4 else ''}"] += 1
    flags = [bool(f) for f in impl["raised"]]
    if flags != model["raised"]:
        # whether an out-of-range index raises is incidental to the representation (torch indexing): noted only
        ctx.dist["uf_hist:raise-pattern-differs"] += 1
        note(ctx, "uf-history-raises", "a union call with an index past the end does not raise where the model says IndexError (or vice versa); outside the domain the unwrapper uses")
        return
    compare_uf(ctx, "uf-history", case, {k: model[k] for k in ("parent", "rank", "offset", "incs")},
               {k: impl[k] for k in ("parent", "rank", "offset", "incs") if k in impl},
               "state after a history of union calls with rejected ones (a rejected call must leave the object untouched)")
    # predicate: the accepted increments are differences of n, so offset - n is constant on every tree of accepted edges
    acc = [(a, b) for (a, b, _), f in zip(edges, flags) if not f]
    lab, _ = components(N, acc, None)
    per = {}
    for i in range(N):
        per.setdefault(lab[i], set()).add(impl["incs"][i] - case["n"][i])
    bad = {c: sorted(v) for c, v in per.items() if len(v) > 1}
    if bad:
        c = sorted(bad)[0]
        pred_fail(ctx, "uf-offsets", "union-find offsets inconsistent with the increment field after a history with rejected unions",
                  case, observed=bad[c][:6], required="offset(i) - n(i) constant on each connected component of the accepted edges")
    if nrej and merges >= 2:
        ctx.mark(("uf_hist", N, len(edges), nrej, merges))


# the bright-field function: rejected calls between valid ones, on one bf_mask

BF_REJECTS = ["len-phase", "len-mask", "method-unknown", "method-unknown-lazy", "mask-kw", "poisson-bounded"]


def eval_bf_history_case(ctx, drv, hist):
    import torch
    from quantem.diffractive_imaging import direct_ptycho_utils as dpu
    first = hist["first"]
    H, W, bf = first["H"], first["W"], first["bf_mask"]
    N = H * W
    pos = [i for i in range(N) if bf[i]]
    bf_t = torch.tensor(bf, dtype=torch.bool).reshape(H, W)
    ctx.dist["bf_history:histories"] += 1
    for k, step in enumerate(hist["steps"]):
        if step["op"] == "valid":
            eval_bf_case(ctx, drv, step["case"])
            ctx.dist[f"bf_history:valid-call:{'after-rejected-call' if k and hist['steps'][k - 1]['op'] == 'reject' else 'other'}"] += 1
            continue
        kind = step["kind"]
        K = len(pos)
        # phases on the pi/1024 grid: a steep alternating pattern (range > pi: a pass is needed) or a flat one (lazy branch)
        flat = kind == "method-unknown-lazy"
        ph = [Fr(((37 * i) % 61) - 30, 64) if flat else Fr(((613 * i + 11 * k) % 1900) - 950, 1024) for i in range(K)]
        if not flat and K >= 2:
            ph[0], ph[1] = Fr(-15, 16), Fr(7, 8)
        mk = [1] * K
        meth, kw = "reliability-sorting", {}
        if kind == "len-phase":
            ph = ph[:-1] if K >= 3 else ph + [Fr(0)]
        elif kind == "len-mask":
            mk = mk[:-1] if K >= 3 else mk + [1]
        elif kind in ("method-unknown", "method-unknown-lazy"):
            meth = "no-such-method"
        elif kind == "mask-kw":
            kw = {"mask": bf_t}
        elif kind == "poisson-bounded":
            meth, kw = "poisson", {"wrap_around": False}
        ang = torch.tensor([float(x) * math.pi for x in ph], dtype=torch.float64)
        data = torch.polar(torch.ones_like(ang), ang).to(torch.complex64)
        mask_bf = torch.tensor(mk, dtype=torch.bool)
        try:
            dpu.unwrap_bf_overlap_phase_torch(data, mask_bf, bf_t, method=meth, two_pass=step["two_pass"], **kw)
            got = "returned"
        except Exception as e:  # noqa
            got = err_name(e)
        ctx.count()
        ctx.dist[f"bf_history:rejected-call:{kind}:{got}"] += 1
        if kind == "mask-kw":
            continue          # Python's own duplicate-keyword TypeError; not part of the model
        m = drv.ask({"op": "bfm", "H": H, "W": W, "bf_mask": bf, "mask_bf": mk, "phase": [rat(x) for x in ph], "two_pass": step["two_pass"],
                     "order1": [], "order2": [], "wrap": kw.get("wrap_around", True), "method": meth})
        if "driver" in str(m.get("err", "")):
            raise RuntimeError(f"driver error {m}")
        mo = m.get("ok", m)
        want = mo.get("raised") or ("returned" if ("branch" in mo or "poisson" in mo) else str(mo))
        small = {"stream": "bf_history", "first": first, "steps": hist["steps"][:k + 1]}
        if kind in ("method-unknown", "method-unknown-lazy", "poisson-bounded"):
            if want != "returned" and got != want:
                disagree(ctx, "bf-history", small, want, got, note=f"step {k}: {kind}: the model raises (explicit raise of the anchored code)")
            elif want == "returned" and got != want:
                note(ctx, f"bf-lazy:{kind}", f"`method` is validated lazily in the model (no pass needed -> accepted); the code says {got}: eager validation, not alarmed on")
        elif got != want:
            ctx.dist[f"bf_history:malformed-argument-outcome-differs:{kind}:model={want}:impl={got}"] += 1
            note(ctx, f"malformed-bf:{kind}", f"a malformed argument is handled differently from the model (model {want}, code {got}); not alarmed on")


def gen_bf_history(rng):
    first = gen_bf_case(rng.fork(1))
    steps = []
    kinds = rng.shuffle(list(BF_REJECTS))
    for j, kind in enumerate(kinds[: rng.randint(2, 4)]):
        steps.append({"op": "reject", "kind": kind, "two_pass": rng.chance(0.5)})
        c = gen_bf_case(rng.fork(10 + j), fixed=first)
        steps.append({"op": "valid", "case": c})
    return {"stream": "bf_history", "first": first, "steps": steps}


# ---------------------------------------------------------------------------------------

# ---------------------------------------------------------------------------------------
# growth 6: FIXED blocks (independent of VERIF_SEED)

G6_SEED = 6_017_000
G6_SHAPES = [(5, 9), (9, 5), (1, 12), (12, 1), (7, 8), (8, 7), (2, 11), (11, 2)]
G6_FIELDS = ["axis1-down", "axis0-down", "both-down", "axis1-up-axis0-down", "bump-down", "sin-down", "cos-periodic"]


def g6_field(H, W, name):
    """float field in units of pi before scaling; the DESCENDING variants fall through the branch cut along increasing
    row / column index, and every variant lies below zero somewhere (negative wrap counts)"""
    import numpy as np
    yy, xx = np.mgrid[:H, :W].astype(float)
    if name == "axis1-down":            # ramp along the SECOND axis only
        return -xx
    if name == "axis0-down":            # ramp along the first axis only
        return -yy
    if name == "both-down":
        return -xx - 0.6 * yy
    if name == "axis1-up-axis0-down":
        return 0.8 * xx - yy
    if name == "bump-down":             # a pit: falls towards the centre, climbs out again
        s = max(1.5, min(H, W) / 3.0)
        return -8.0 * np.exp(-((xx - (W - 1) / 2.0) ** 2 + (yy - (H - 1) / 2.0) ** 2) / (2 * s * s)) - 0.15 * xx
    if name == "sin-down":              # periodic along both axes, odd (descends through zero at the origin)
        return -3.0 * np.sin(2 * math.pi * xx / W) - 2.0 * np.sin(2 * math.pi * yy / H)
    if name == "cos-periodic":
        return 3.0 * np.cos(2 * math.pi * (xx / W + yy / H)) - 2.5 * np.cos(2 * math.pi * yy / H)
    raise ValueError(name)


def g6_small_cases():
    """shapes with H != W both ways x fields (descending ramps along one axis only / both, pit, periodic sin / cos)
    x wrap_around (periodic fields: both settings; others: bounded) — pistons chosen so that the truth is negative"""
    from qv.prng import Rng
    out = []
    k = 0
    for (H, W) in G6_SHAPES:
        for name in G6_FIELDS:
            periodic = name in ("sin-down", "cos-periodic")
            for wrap in ([True, False] if periodic else [False]):
                k += 1
                rng = Rng(G6_SEED + k)
                mkind = ["none", "none", "rect", "border"][k % 4] if H > 2 and W > 2 else "none"
                mask = gen_mask(rng, H, W, mkind)
                pairs = used_pairs(H, W, mask, wrap)
                qn = quantise_itoh(rng, g6_field(H, W, name), pairs, [0.93, 0.7, 0.96][k % 3])
                off = [-3 * DEN - 517, -DEN + 3, -7 * DEN, 5][k % 4]
                qn = [v + off for v in qn]
                out.append({"stream": "unwrap", "H": H, "W": W, "wrap": wrap, "mask": mask,
                            "mode": ["wrapped", "wrapped", "zero2pi", "unwrapped"][k % 4], "dtype": ["float64", "float32"][k % 2],
                            "qn": qn, "kind": "g6-" + name, "mkind": mkind, "outside": "smooth"})
    return out


def g6_big_case(which):
    """more than 2**14 pixels: 130 x 130 without a mask (bounded, steep descending ramp along the second axis + pit),
    120 x 150 with an annulus mask (periodic call; ramp descending along the first axis + bump); compact description"""
    return {"stream": "g6big", "which": which}


def expand_g6_big(c):
    import numpy as np
    from qv.prng import Rng
    which = c["which"]
    rng = Rng(G6_SEED + 500 + which)
    H, W, wrap, masked, dtype = [(130, 130, False, False, "float64"), (120, 150, True, True, "float32"),
                                 (150, 120, False, True, "float64"), (130, 130, True, False, "float32")][which % 4]
    yy, xx = np.mgrid[:H, :W].astype(float)
    if wrap and not masked:
        f = -6.0 * np.sin(2 * math.pi * xx / W) + 4.0 * np.cos(2 * math.pi * (yy / H - xx / W))
    else:
        pit = -30.0 * np.exp(-((xx - 0.4 * W) ** 2 + (yy - 0.55 * H) ** 2) / (2 * (0.2 * min(H, W)) ** 2))
        f = (-0.9 * xx + 0.3 * yy + pit) if which % 2 == 0 else (-0.85 * yy + 0.1 * xx - pit)
    mask = None
    if masked:
        rr = np.hypot(yy - 0.5 * H, xx - 0.48 * W)
        m = (rr <= 0.47 * min(H, W)) & (rr >= 0.12 * min(H, W))
        mask = [int(v) for v in m.flatten()]
    pairs = used_pairs(H, W, mask, wrap)
    qn = quantise_itoh(rng, f, pairs, 0.95)
    qn = [v - 5 * DEN - 333 for v in qn]
    return {"stream": "unwrap", "H": H, "W": W, "wrap": wrap, "mask": mask, "mode": "wrapped", "dtype": dtype, "qn": qn,
            "kind": "g6-big", "mkind": "annulus" if masked else "none", "outside": "smooth"}


def eval_g6_big_case(ctx, drv, c):
    full = expand_g6_big(c)
    ctx.dist[f"g6:big:{full['H']}x{full['W']}:wrap={full['wrap']}:mask={full['mkind']}"] += 1
    eval_unwrap_case(ctx, drv, full, report_case=c, stream="g6-big")


G6_FLIP_SHAPES = [(14, 17), (17, 14), (15, 3), (3, 16), (16, 15), (2, 14), (14, 1), (15, 18)]


def g6_flip_histories():
    """two (and more) valid calls in ONE process on the SAME (H, W) that differ in wrap_around: periodic first on half of
    the grids, bounded first on the other half.  The periodic calls use a mask region that is connected only across the
    seam (of axis 1 / axis 0 alternately, ramp descending / ascending through it), the bounded calls a non-periodic field
    that is continuous across the border (periodic pairs would join pixels whole turns apart).  Grid shapes of their own
    (not used by any other stream before), so the first call of each history is the first call of the process on it."""
    from qv.prng import Rng
    out = []
    for k, (H, W) in enumerate(G6_FLIP_SHAPES):
        rng = Rng(G6_SEED + 900 + k)
        transposed = bool(k % 2) if min(H, W) > 2 else (H > W)     # seam of axis 0 when transposed
        L, R = (H, W) if transposed else (W, H)
        per = lambda j: gen_seam_case(rng.fork(j), L=L, R=R, transposed=transposed, sign=(-1 if (k + j) % 2 == 0 else 1), interior_cut=True)  # noqa
        if min(H, W) >= 6:
            bnd = lambda j: gen_border_case(rng.fork(100 + j), shape=(H, W), mkind=("none" if j % 2 == 0 else "border"))  # noqa
        else:                                                       # thin grids: a steep bounded ramp, no mask
            bnd = lambda j: g6_thin_bounded(rng.fork(100 + j), H, W)  # noqa
        periodic_first = k % 2 == 0 if k < 4 else k % 2 == 1
        steps = []
        for j in range(4):
            c = per(j) if (j % 2 == 0) == periodic_first else bnd(j)
            assert (c["H"], c["W"]) == (H, W), (c["H"], c["W"], H, W)
            steps.append({"op": "valid", "case": c})
        out.append({"stream": "history", "H": H, "W": W, "hidx": 100_000 + k, "steps": steps})
    return out


def g6_thin_bounded(rng, H, W):
    import numpy as np
    yy, xx = np.mgrid[:H, :W].astype(float)
    sx = -1 if rng.chance(0.5) else 1
    f = sx * (xx * (2.0 if W > 2 else 0.3) + yy * (2.0 if H > 2 else 0.3))
    pairs = used_pairs(H, W, None, False)
    qn = quantise_itoh(rng, f, pairs, 0.9)
    off = rng.randint(-2 * DEN, 2 * DEN)
    return {"stream": "unwrap", "H": H, "W": W, "wrap": False, "mask": None, "mode": "wrapped", "dtype": rng.choice(["float32", "float64"]),
            "qn": [v + off for v in qn], "kind": "g6-thin-ramp", "mkind": "none", "outside": "smooth"}


EVAL = {"g6big": eval_g6_big_case, "unwrap": eval_unwrap_case, "edges": eval_edges_case, "uf": eval_uf_case, "bf": eval_bf_case,
        "order": eval_order_case, "bf_stack": eval_bf_stack_case,
        "long": eval_long_case, "history": eval_history_case, "uf_hist": eval_uf_hist_case, "bf_history": eval_bf_history_case}


def run(ctx):
    from qv.driver import Driver
    import torch
    torch.set_num_threads(2)
    drv = Driver("C17")
    try:
        # FIRST: histories with rejected calls on grids of their own — before any other stream has called the module, so
        # that a rejected call really is the first call of the process on its grid (module-level state, if any, starts empty)
        for h in range(ctx.n(96, 300)):
            eval_history_case(ctx, drv, gen_history(ctx.rng.fork(12_000_000 + h), h))
        # growth 6, fixed: same (H, W), wrap_around flipped between valid calls (periodic first / bounded first)
        import time as _time
        t0 = _time.time()
        for hist in g6_flip_histories():
            ctx.dist["g6:flip-history:" + ("periodic-first" if hist["steps"][0]["case"]["wrap"] else "bounded-first")] += 1
            eval_history_case(ctx, drv, hist)
        g6_secs = {"flip-histories": round(_time.time() - t0, 1)}
        ctx.extra["g6_block_seconds"] = g6_secs
        for h in range(ctx.n(30, 120)):
            eval_bf_history_case(ctx, drv, gen_bf_history(ctx.rng.fork(13_000_000 + h)))
        for h in range(ctx.n(150, 1200)):
            eval_uf_hist_case(ctx, drv, gen_uf_hist_case(ctx.rng.fork(14_000_000 + h)))
        # method dispatch of unwrap_phase_2d_torch (the Poisson method is outside the claim; only the dispatch is looked at)
        iu = _iu()
        try:
            iu.unwrap_phase_2d_torch(torch.zeros(2, 2), method="no-such-method")
            disagree(ctx, "dispatch", {"method": "no-such-method"}, "ValueError", "no error")
        except ValueError:
            pass
        except Exception as e:  # noqa
            disagree(ctx, "dispatch", {"method": "no-such-method"}, "ValueError", err_name(e))
        check_signatures(ctx)
        n_unw = ctx.n(600, 12000)
        n_edges = ctx.n(200, 4000)
        n_uf = ctx.n(400, 8000)
        n_bf = ctx.n(250, 5000)
        for s in range(n_unw):
            eval_unwrap_case(ctx, drv, gen_unwrap_case(ctx.rng.fork(3_000_000 + s), small=(s % 3 != 0)))
        for s in range(ctx.n(3, 30)):
            eval_unwrap_case(ctx, drv, gen_half_case(ctx.rng.fork(5_000_000 + s)))
        # long thin grids: wrap counts beyond 127 / 255 (offsets must not be stored in a narrow integer type)
        variants = ["bounded", "cut", "tent", "bounded"]
        for s in range(ctx.n(6, 60)):
            eval_long_case(ctx, drv, gen_long_case(ctx.rng.fork(6_000_000 + s), variants[s % 4]))
        if ctx.thorough() and not ctx.search_mode:
            eval_long_case(ctx, drv, gen_long_case(ctx.rng.fork(6_900_000), "bounded", huge=True))
        # growth 6, fixed: descending fields / one-axis ramps on H != W grids; grids with more than 2**14 pixels
        t0 = _time.time()
        for c in g6_small_cases():
            ctx.dist[f"g6:small:{c['kind']}"] += 1
            eval_unwrap_case(ctx, drv, c, stream="g6-small")
        g6_secs["small"] = round(_time.time() - t0, 1)
        t0 = _time.time()
        # quick: the two BOUNDED steep fields (130 x 130 without a mask, 150 x 120 with an annulus mask): deep union-find
        # trees with non-zero offsets on every hop (seed C17f-1); thorough: the two periodic ones as well
        for which in ([0, 2] if not ctx.thorough() else [0, 1, 2, 3]):
            eval_g6_big_case(ctx, drv, g6_big_case(which))
        g6_secs["big"] = round(_time.time() - t0, 1)
        # the seam of exactly one axis; medium grids; the edge order; several images through one bf_mask
        for s in range(ctx.n(80, 1500)):
            eval_unwrap_case(ctx, drv, gen_seam_case(ctx.rng.fork(7_000_000 + s)))
        for s in range(ctx.n(4, 40)):
            eval_unwrap_case(ctx, drv, gen_medium_case(ctx.rng.fork(8_000_000 + s)))
        for s in range(ctx.n(80, 1500)):
            eval_unwrap_case(ctx, drv, gen_border_case(ctx.rng.fork(11_000_000 + s)))
        for s in range(ctx.n(150, 3000)):
            eval_order_case(ctx, drv, gen_order_case(ctx.rng.fork(9_000_000 + s)))
        for s in range(ctx.n(40, 600)):
            eval_bf_stack_case(ctx, drv, gen_bf_stack_case(ctx.rng.fork(10_000_000 + s)))
        for s in range(n_bf):
            eval_bf_case(ctx, drv, gen_bf_case(ctx.rng.fork(4_000_000 + s)))
        for s in range(n_uf):
            eval_uf_case(ctx, drv, gen_uf_case(ctx.rng.fork(1_000_000 + s)))
        for s in range(n_edges):
            eval_edges_case(ctx, drv, gen_edges_case(ctx.rng.fork(2_000_000 + s)))
    finally:
        drv.close()


def replay(ctx, rep):
    from qv.driver import Driver
    case = rep.get("case")
    if case is None:
        ds = rep.get("correspondence_disagreements") or [{}]
        case = ds[0].get("case")
    if not case or "stream" not in case:
        print("replay: no case in file (nothing to re-run)")
        return True
    drv = Driver("C17")
    try:
        EVAL[case["stream"]](ctx, drv, case)
    finally:
        drv.close()
    return True
