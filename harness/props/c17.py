"""C17 — reliability-sorted phase unwrapping: correspondence with Model/Unwrap.lean (exact:
phases are dyadic multiples of pi, the model runs at Rat in units of pi) + the property
predicate evaluated on the real quantem code with an independent component/wrap-count oracle.

Streams (DESIGN §6 C17):
  edge-set      real `_build_edges` (i1,i2,inc) vs model `buildEdges`, as sorted multisets
  union-find    real `UnionFindPhase`/`_final_offsets` on the real edge ORDER vs model (parent, rank,
                offset, final offsets: exact integers); plus random multigraphs with arbitrary
                (also inconsistent) increments, self-loops, duplicates
  end-to-end    `unwrap_phase_2d_torch(w, "reliability-sorting", mask, wrap_around)` vs model fed with
                the order the real sort produced; predicate on the real output
  bf-overlap    `unwrap_bf_overlap_phase_torch` (masked embedding, one/two passes) vs model
"""
import math
from fractions import Fraction as Fr

LEVEL = "proof"
MANIFEST_ENTRY = {
    "category": "proof",
    "text": "Lean 4 theorems over an executable model of the reliability-sorting unwrapper (edge construction for bounded/periodic grids with masks, union-find with offsets exactly as UnionFindPhase: no path compression, union by rank, the code's sign conventions; final offsets; mean removal; the bright-field embedding). The merge ORDER is an input of the model, so every theorem holds for every order the float reliability sort could produce. Proved for all sizes, masks, edge multigraphs (self-loops/duplicates included) and orders: termination of find (rank strictly increases to the root), the offset-consistency invariant (every stored offset is n(pixel)-n(parent) for any integer field the increments are differences of), Itoh => increments are wrap-count differences (over the reals, threshold pi), hence out - truth is constant on every connected component of the masked edge graph; out - input is in 2*pi*Z plus one constant for every input; smooth unwrapped input is returned up to one constant; same-tree edges are no-ops; the grid-level body of unwrap_bf_overlap_phase_torch (mask test, max-min>pi test, one or two passes) returns the truth up to a constant per connected overlap region in every branch; the model's edge graph is the 4-neighbour graph (bounded and periodic; the periodic edge list is characterised as a multiset for every HxW incl. H or W in {1,2}: self-loops / double edges exactly there); the input is taken raw: recovery holds for any representative of the truth whose neighbouring wrap counts are at most one apart (any 2*pi window such as [0,2pi), partially or fully unwrapped input), with a counterexample two cycles apart; the result is independent of the reliability (any comparison function used for the sort, any wrap function inside _pixel_reliability); the whole unwrap_bf_overlap_phase_torch incl. scatter phase_grid[bf_mask]=... and gather is correct entry by entry, for every number of images. _pixel_reliability (wrapped second differences, periodic rolls) and the sort are modelled exactly and the real edge ORDER is checked to be ascending in the model's exact rational reliabilities. The model is tied to the code on every run by exact differential streams (edge multisets, union-find arrays on the real edge order, final offsets, end-to-end fields, bf-overlap embedding) and the property predicate is evaluated on the real outputs with an independent connected-component / wrap-count oracle.",
    "note": "Trusted: Lean kernel + propext/Classical.choice/Quot.sound; hand model validated by sampled correspondence only; torch indexing/roll/argsort/where semantics; IEEE rounding (inputs are dyadic multiples of pi kept >= 2^-6*pi away from the +-pi thresholds so no float comparison is decided by rounding; the real code keeps offsets in float32, measured deviation from the exact model is reported); argsort ties may come out in any order (the model's stable merge sort is one admissible outcome; the order stream uses phases on a pi/16 grid so that distinct reliabilities are far apart); the Poisson method is outside the claim; the caller's loop over images (direct_ptychography.py) is reproduced by the harness, not executed through DirectPtychography.",
    "technique": "Lean 4 proof (forest/rank invariant, offset telescoping, Itoh lemma over R) + exact model-vs-implementation correspondence",
}
RULE = ("generated phase fields (ramps, quadratics, Gaussian bumps, band-limited random, periodic, raw non-smooth, "
        "already-unwrapped, stored in [-pi,pi), [0,2pi), a shifted window or partially unwrapped) on grids up to 24x24 (medium 40..64 per side, "
        "float16 up to 60x60, long thin up to 3x900, seam-only-connected bands on periodic non-square grids with H or W in {1,2}) with masks (none, rectangle, annulus, multi-component, blobs with holes, "
        "sparse, border-touching) and wrap_around on/off, float16/32/64; a case is one call of the real unwrapper "
        "(or one union-find run / one _build_edges call / one reliability+order comparison / one stack of bf images); distinct non-trivial = distinct (stream, field kind, mask kind, "
        "wrap, dtype, H, W, #mask components bucket, wrap-count range) among cases whose field really wraps "
        "(the true wrap count varies inside a connected mask component) or, for union-find runs, that perform at least 3 merges")
TRUSTED = ["torch tensor indexing / roll / where / argsort / stack semantics (exercised, not verified)",
           "IEEE rounding: inputs are dyadic multiples of pi kept >= 2^-6*pi from the +-pi thresholds; offsets are float32 in the code, exact integers in the model",
           "_pixel_reliability only determines the merge order (theorems: any order); it is modelled exactly and compared (values to tolerance, order exactly) on a pi/16 phase grid"]
ASSUMPTIONS = ["grids <= 24x24 in the correspondence, plus a few 40..64 x 40..64 grids per run, a few float16 fields on 46..60 x 46..60 grids and long thin grids (1..3 x 300..900 and transposed, wrap counts past 127/255; thorough: one 1 x 74000 ramp past 32767) (theorems: all sizes)",
               "Itoh is required on the edges actually used (inside the mask, including periodic seam edges when wrap_around=True); values outside the mask are arbitrary",
               "tolerance on assembled outputs: 5e-4*max(1,max|model|) (the code forces float32 offsets: 2*pi*incs is rounded to float32 even for float64 input); all wrap-count comparisons are exact integers"]
EXPLANATION = ("Theorems in Props/C17.lean are about Model/Unwrap.lean (run at Rat, units of pi, by the driver; proved at R with "
               "threshold half>0, in particular pi). Every run drives the real quantem functions and the model with the same "
               "fields/masks and hands the model the merge order the real sort produced; integer observables are compared exactly.")

DTYPES = {"float16": lambda: __import__("torch").float16, "float32": lambda: __import__("torch").float32,
          "float64": lambda: __import__("torch").float64}
# tolerance on assembled outputs per input dtype (float16 input carries its own rounding of the phase, ~1e-3 rad)
TOL = {"float16": 4e-3, "float32": 5e-4, "float64": 5e-4}
DEN = 1024                # phases are multiples of pi/1024
MARGIN = Fr(1, 64)        # distance kept from the +-pi thresholds (units of pi)
TOL32 = 5e-4


# pinned signatures of the anchored functions: (name, kind, default) per parameter, in ORDER.  The harness calls every
# function in positional form as well as in keyword form; a re-ordered signature is a broken tie by itself.
PINNED_SIGNATURES = {
    "imaging_utils._wrap_to_pi": [("x", "pk", "<none>")],
    "imaging_utils._find_wrap": [("a", "pk", "<none>"), ("b", "pk", "<none>")],
    "imaging_utils._pixel_reliability": [("phi", "pk", "<none>"), ("mask", "pk", "None")],
    "imaging_utils._build_edges": [("phi", "pk", "<none>"), ("reliability", "pk", "<none>"), ("mask", "pk", "None"),
                                   ("wrap_around", "pk", "True")],
    "imaging_utils.UnionFindPhase.__init__": [("self", "pk", "<none>"), ("n", "pk", "<none>")],
    "imaging_utils.UnionFindPhase.find_root_and_offset": [("self", "pk", "<none>"), ("x", "pk", "<none>")],
    "imaging_utils.UnionFindPhase.union": [("self", "pk", "<none>"), ("x", "pk", "<none>"), ("y", "pk", "<none>"),
                                           ("inc_xy", "pk", "<none>")],
    "imaging_utils._final_offsets": [("uf", "pk", "<none>")],
    "imaging_utils._unwrap_phase_2d_torch_reliability_sorting": [("phi", "pk", "<none>"), ("mask", "pk", "None"),
                                                                 ("wrap_around", "pk", "True")],
    "imaging_utils.unwrap_phase_2d_torch": [("phi_wrapped", "pk", "<none>"), ("method", "pk", "'reliability-sorting'"),
                                            ("mask", "pk", "None"), ("wrap_around", "pk", "True"),
                                            ("regularization_lambda", "pk", "None")],
    "direct_ptycho_utils.unwrap_bf_overlap_phase_torch": [("complex_data_bf", "pk", "<none>"), ("mask_bf", "pk", "<none>"),
                                                          ("bf_mask", "pk", "<none>"), ("method", "kw", "'reliability-sorting'"),
                                                          ("two_pass", "kw", "True"), ("unwrap_kwargs", "varkw", "<none>")],
}


def check_signatures(ctx):
    import inspect
    from quantem.core.utils import imaging_utils
    from quantem.diffractive_imaging import direct_ptycho_utils
    mods = {"imaging_utils": imaging_utils, "direct_ptycho_utils": direct_ptycho_utils}
    kinds = {inspect.Parameter.POSITIONAL_OR_KEYWORD: "pk", inspect.Parameter.KEYWORD_ONLY: "kw",
             inspect.Parameter.VAR_KEYWORD: "varkw", inspect.Parameter.VAR_POSITIONAL: "varpos",
             inspect.Parameter.POSITIONAL_ONLY: "pos"}
    for name, want in PINNED_SIGNATURES.items():
        obj = mods[name.split(".")[0]]
        try:
            for part in name.split(".")[1:]:
                obj = getattr(obj, part)
            got = [(p.name, kinds[p.kind], "<none>" if p.default is inspect.Parameter.empty else repr(p.default))
                   for p in inspect.signature(obj).parameters.values()]
        except Exception as e:  # noqa
            got = f"<{type(e).__name__}>"
        ctx.count()
        ctx.dist["signatures:checked"] += 1
        if got != [tuple(x) for x in want]:
            disagree(ctx, "signature", {"stream": "signature", "function": name}, [list(x) for x in want],
                     [list(x) for x in got] if isinstance(got, list) else got,
                     note="parameter order / kind / default of an anchored function differs from the pinned signature")


LAYOUTS = ["C", "C", "T", "F", "colstep", "rowstep", "permute3"]
MASK_DTYPES = ["bool", "bool", "uint8", "float32", "int64"]


def call_classes(case, helpers=False):
    """memory layout of phi / mask, mask dtype and call form (keyword / positional) of a case: drawn once,
    deterministically from the case content, and stored in the case (so that a replay repeats them)"""
    if "layout" in case:
        return case
    import json
    import zlib
    from qv.prng import Rng
    key = json.dumps([case.get(k) for k in ("stream", "H", "W", "wrap", "dtype", "mode", "kind", "mkind")] + [list(case["qn"][:64])])
    r = Rng(zlib.crc32(key.encode()))
    case["layout"] = r.choice(LAYOUTS)
    case["mask_layout"] = r.choice(LAYOUTS)
    case["mask_dtype"] = "bool" if helpers else r.choice(MASK_DTYPES)   # the private helpers index with the mask: bool only
    case["call"] = r.choice(["keyword", "positional"])
    return case


def lay(t, layout, fill=7):
    """the same 2-D values in another memory layout: C-contiguous, transposed view, Fortran-ordered numpy array via
    from_numpy, step-sliced views along either axis, a permuted slice of a 3-D tensor"""
    import numpy as np
    import torch
    if t is None or layout == "C":
        return t
    H, W = t.shape
    if layout == "T":
        v = t.T.contiguous().T
    elif layout == "F":
        v = torch.from_numpy(np.asfortranarray(t.numpy()))
    elif layout == "colstep":
        big = torch.full((H, 2 * W), fill).to(t.dtype)
        big[:, ::2] = t
        v = big[:, ::2]
    elif layout == "rowstep":
        big = torch.full((2 * H, W), fill).to(t.dtype)
        big[::2] = t
        v = big[::2]
    else:   # permute3
        big = torch.full((W, 2, H), fill).to(t.dtype)
        big[:, 1, :] = t.T
        v = big.permute(2, 1, 0)[:, 1, :]
    assert v.shape == t.shape and bool((v == t).all())
    return v


def mask_tensor(maskl, H, W, case):
    import torch
    if maskl is None:
        return None
    m = torch.tensor(maskl, dtype=torch.bool).reshape(H, W)
    md = case.get("mask_dtype", "bool")
    if md != "bool":
        m = m.to({"uint8": torch.uint8, "float32": torch.float32, "int64": torch.int64}[md])
    return lay(m, case.get("mask_layout", "C"), fill=1)


def pred_fail(ctx, key, what, case, observed=None, required=None):
    """forward at most 3 failures per key (so that every failing clause keeps a replayable input)"""
    ctx.dist[f"predicate-failures:{key}"] += 1
    if ctx.dist[f"predicate-failures:{key}"] <= 3:
        ctx.pred_fail(key, what, case, observed=observed, required=required)


def disagree(ctx, stream, case, model, impl, note=""):
    ctx.dist[f"disagreements:{stream}"] += 1
    if ctx.dist[f"disagreements:{stream}"] <= 4:
        ctx.disagree(stream, case, model, impl, note=note)


# ---------------------------------------------------------------------------------------
# independent oracle: neighbour pairs, components, wrap counts (pure Python, exact)

def used_pairs(H, W, mask, wrap):
    """4-neighbour pairs (a, b) with both ends in the mask; periodic seam pairs when wrap."""
    out = []
    for r in range(H):
        for c in range(W):
            a = r * W + c
            if mask is not None and not mask[a]:
                continue
            for (rr, cc) in ((r, c + 1), (r + 1, c)):
                if rr >= H:
                    if not wrap:
                        continue
                    rr = 0
                if cc >= W:
                    if not wrap:
                        continue
                    cc = 0
                b = rr * W + cc
                if mask is not None and not mask[b]:
                    continue
                out.append((a, b))
    return out


def components(N, pairs, mask):
    """label of the connected component of every mask pixel (BFS); -1 outside the mask"""
    adj = [[] for _ in range(N)]
    for a, b in pairs:
        adj[a].append(b)
        adj[b].append(a)
    lab = [-1] * N
    k = 0
    for s in range(N):
        if lab[s] != -1 or (mask is not None and not mask[s]):
            continue
        lab[s] = k
        stack = [s]
        while stack:
            x = stack.pop()
            for y in adj[x]:
                if lab[y] == -1:
                    lab[y] = k
                    stack.append(y)
        k += 1
    return lab, k


def wrap_variation(n, lab):
    """does the wrap count vary inside some connected component (a real 2*pi discontinuity to undo)?
    returns (bool, largest spread of n inside one component)"""
    lo, hi = {}, {}
    for i, c in enumerate(lab):
        if c < 0:
            continue
        lo[c] = min(lo.get(c, n[i]), n[i])
        hi[c] = max(hi.get(c, n[i]), n[i])
    spread = max((hi[c] - lo[c] for c in lo), default=0)
    return spread > 0, spread


def wrap_q(q):
    """wrap to [-1, 1) in units of pi, exactly; returns (w, n) with q = w + 2 n"""
    n = math.floor((q + 1) / 2)
    return q - 2 * n, n


def rat(x):
    x = Fr(x)
    return f"{x.numerator}/{x.denominator}"


# ---------------------------------------------------------------------------------------
# generators

FIELD_KINDS = [("ramp", 4), ("quadratic", 3), ("gauss", 3), ("bandlimited", 4), ("periodic", 3), ("const", 1)]
MASK_KINDS = [("none", 5), ("rect", 2), ("annulus", 3), ("multi", 3), ("blobs", 3), ("sparse", 1), ("border", 2),
              ("alltrue", 1), ("allfalse", 1)]


def gen_shape(rng, small=False):
    if rng.chance(0.12):
        return rng.choice([(1, 1), (1, 2), (2, 1), (1, 5), (5, 1), (2, 2), (2, 3), (3, 2), (1, 9), (2, 7)])
    hi = 12 if small else 24
    return rng.randint(3, hi), rng.randint(3, hi)


def gen_float_field(rng, H, W, kind):
    import numpy as np
    yy, xx = np.mgrid[:H, :W].astype(float)
    if kind == "ramp":
        return rng.uniform(-1, 1) * xx + rng.uniform(-1, 1) * yy
    if kind == "quadratic":
        x0, y0 = rng.uniform(0, W), rng.uniform(0, H)
        return (rng.uniform(-1, 1) * (xx - x0) ** 2 + rng.uniform(-1, 1) * (yy - y0) ** 2
                + rng.uniform(-1, 1) * (xx - x0) * (yy - y0))
    if kind == "gauss":
        f = np.zeros((H, W))
        for _ in range(rng.randint(1, 3)):
            x0, y0 = rng.uniform(0, W), rng.uniform(0, H)
            s = rng.uniform(1.0, max(2.0, min(H, W) / 2))
            f += rng.uniform(-1, 1) * np.exp(-((xx - x0) ** 2 + (yy - y0) ** 2) / (2 * s * s))
        return f
    if kind == "bandlimited":
        f = np.zeros((H, W))
        for _ in range(rng.randint(2, 5)):
            kx, ky = rng.uniform(-0.25, 0.25), rng.uniform(-0.25, 0.25)
            f += rng.uniform(0.2, 1) * np.cos(2 * math.pi * (kx * xx + ky * yy) + rng.uniform(0, 2 * math.pi))
        return f + rng.uniform(-0.3, 0.3) * xx
    if kind == "periodic":
        f = np.zeros((H, W))
        for _ in range(rng.randint(1, 3)):
            kx, ky = rng.randint(-2, 2), rng.randint(-2, 2)
            if kx == 0 and ky == 0:
                kx = 1
            f += rng.uniform(0.2, 1) * np.cos(2 * math.pi * (kx * xx / W + ky * yy / H) + rng.uniform(0, 2 * math.pi))
        return f
    return np.full((H, W), rng.uniform(-3, 3))


def gen_mask(rng, H, W, kind):
    """list of 0/1 of length H*W, or None"""
    import numpy as np
    if kind == "none":
        return None
    yy, xx = np.mgrid[:H, :W].astype(float)
    m = np.zeros((H, W), dtype=bool)
    if kind == "alltrue":
        m[:] = True
    elif kind == "allfalse":
        pass
    elif kind == "rect":
        r0, r1 = sorted((rng.randint(0, H - 1), rng.randint(0, H - 1)))
        c0, c1 = sorted((rng.randint(0, W - 1), rng.randint(0, W - 1)))
        m[r0:r1 + 1, c0:c1 + 1] = True
    elif kind == "annulus":
        cy, cx = rng.uniform(H * 0.3, H * 0.7), rng.uniform(W * 0.3, W * 0.7)
        ro = rng.uniform(0.3, 0.55) * min(H, W)
        ri = rng.uniform(0.2, 0.7) * ro
        rr = np.hypot(yy - cy, xx - cx)
        m = (rr <= ro) & (rr >= ri)
    elif kind == "multi":
        for _ in range(rng.randint(2, 4)):
            if rng.chance(0.5):
                r0, c0 = rng.randint(0, H - 1), rng.randint(0, W - 1)
                m[r0:r0 + rng.randint(1, max(1, H // 2)), c0:c0 + rng.randint(1, max(1, W // 2))] = True
            else:
                cy, cx, r = rng.uniform(0, H), rng.uniform(0, W), rng.uniform(1, max(1.5, min(H, W) / 4))
                m |= np.hypot(yy - cy, xx - cx) <= r
        if rng.chance(0.5):     # cut a gap so that components separate
            if rng.chance(0.5):
                m[rng.randint(0, H - 1), :] = False
            else:
                m[:, rng.randint(0, W - 1)] = False
    elif kind == "blobs":
        f = gen_float_field(rng, H, W, "bandlimited")
        m = f > np.quantile(f, rng.uniform(0.2, 0.6))
        for _ in range(rng.randint(0, 3)):   # punch holes
            m[rng.randint(0, H - 1), rng.randint(0, W - 1)] = False
    elif kind == "sparse":
        p = rng.uniform(0.3, 0.8)
        m = np.array([[rng.chance(p) for _ in range(W)] for _ in range(H)], dtype=bool)
    elif kind == "border":
        # touches borders (matters with wrap_around): a band along one side, or a cross
        m[:] = False
        if rng.chance(0.5):
            m[:, : rng.randint(1, max(1, W // 2))] = True
            m[: rng.randint(1, max(1, H // 2)), :] = True
        else:
            m[rng.randint(0, H - 1), :] = True
            m[:, rng.randint(0, W - 1)] = True
    return [int(v) for v in m.flatten()]


def quantise_itoh(rng, f, pairs, target):
    """scale the float field so that the largest difference over the used pairs is ~target (units of pi),
    put it on the dyadic grid, and make sure the Itoh margin holds exactly. Returns numerators."""
    import numpy as np
    flat = f.flatten()
    if pairs:
        a = np.array([p[0] for p in pairs])
        b = np.array([p[1] for p in pairs])
        md = float(np.max(np.abs(flat[a] - flat[b])))
    else:
        md = 0.0
    scale = target / md if md > 1e-12 else 1.0
    top = float(np.max(np.abs(flat))) if flat.size else 0.0
    if top * scale > 40.0:          # keep |phase| <= 40*pi (tiny masks would otherwise blow the field up outside)
        scale = 40.0 / top
    lim = (1 - MARGIN) * DEN
    for _ in range(60):
        qn = [int(round(v * scale * DEN)) for v in flat]
        if all(abs(qn[x] - qn[y]) <= lim for x, y in pairs):
            return qn
        scale *= 0.93
    return [0] * len(flat)


def gen_target(rng):
    """largest neighbour difference in units of pi: mostly steep (so that the field really wraps)"""
    return rng.uniform(0.6, 0.97) if rng.chance(0.8) else rng.uniform(0.1, 0.6)


def gen_unwrap_case(rng, small=False):
    H, W = gen_shape(rng, small)
    N = H * W
    wrap = rng.chance(0.5)
    mkind = rng.weighted(MASK_KINDS)
    mask = gen_mask(rng, H, W, mkind)
    mode = rng.weighted([("wrapped", 6), ("zero2pi", 2), ("window", 1), ("partial", 1), ("unwrapped", 2), ("raw", 2)])
    dtype = rng.choice(["float32", "float64"])
    pairs = used_pairs(H, W, mask, wrap)
    if mode == "raw":
        kind = "raw"
        qn = gen_raw(rng, N, pairs)
        outside = "raw"
    else:
        kind = rng.weighted(FIELD_KINDS)
        if wrap and rng.chance(0.65):
            kind = "periodic"      # a non-periodic field that is Itoh across the seam is nearly flat
        f = gen_float_field(rng, H, W, kind)
        # Itoh (with margin) on every pair the code uses: inside the mask, seam pairs included when wrap_around
        qn = quantise_itoh(rng, f, pairs, gen_target(rng))
        off = rng.randint(-2 * DEN, 2 * DEN)     # random piston: wrap lines fall anywhere
        qn = [v + off for v in qn]
        outside = "smooth"
        if mode in ("wrapped", "zero2pi") and mask is not None and rng.chance(0.5):
            # what lies outside the mask must not matter: zeros (as the bf embedding produces) or garbage
            outside = rng.choice(["zeros", "garbage"])
            for i in range(N):
                if not mask[i]:
                    qn[i] = 0 if outside == "zeros" else rng.randint(-4 * DEN, 4 * DEN)
    case = {"stream": "unwrap", "H": H, "W": W, "wrap": wrap, "mask": mask, "mode": mode, "dtype": dtype,
            "qn": qn, "kind": kind, "mkind": mkind, "outside": outside}
    if mode == "window":
        case["c"] = rng.randint(-3 * DEN, 3 * DEN)
    return case


def gen_raw(rng, N, pairs):
    """arbitrary (non-smooth) wrapped values in [-1,1) on the dyadic grid, no neighbour difference within
    MARGIN of the +-1 thresholds"""
    step = DEN // 16
    qn = [rng.randint(-16, 15) * step + rng.choice([0, 3, 17, 40]) for _ in range(N)]
    lim_lo, lim_hi = (1 - MARGIN) * DEN, (1 + MARGIN) * DEN
    nb = {}
    for a, b in pairs:
        nb.setdefault(a, []).append(b)
        nb.setdefault(b, []).append(a)
    for _ in range(20):
        bad = [a for a in nb if any(lim_lo < abs(qn[a] - qn[b]) < lim_hi for b in nb[a])]
        if not bad:
            break
        for a in bad:
            qn[a] = rng.randint(-16, 15) * step + rng.choice([0, 3, 17, 40])
    else:
        qn = [0] * N
    return qn


# ---------------------------------------------------------------------------------------
# the real code, instrumented from outside (no change in /repo)

def _iu():
    from quantem.core.utils import imaging_utils as iu
    return iu


class Recorder:
    """records what the real `_build_edges` / `_final_offsets` returned during an end-to-end call"""

    def __init__(self, iu):
        self.iu = iu
        self.edges = []
        self.ufs = []
        self.incs = []

    def __enter__(self):
        iu = self.iu
        self.orig = (getattr(iu, "_build_edges", None), getattr(iu, "_final_offsets", None))
        ob, of = self.orig
        if ob is not None:
            def be(*a, **k):
                r = ob(*a, **k)
                self.edges.append([[int(x), int(y), int(z)] for x, y, z in zip(r[0].tolist(), r[1].tolist(), r[2].tolist())])
                return r
            iu._build_edges = be
        if of is not None:
            def fo(uf):
                r = of(uf)
                self.ufs.append(uf_state(uf))
                self.incs.append(r.tolist())
                return r
            iu._final_offsets = fo
        return self

    def __exit__(self, *a):
        if self.orig[0] is not None:
            self.iu._build_edges = self.orig[0]
        if self.orig[1] is not None:
            self.iu._final_offsets = self.orig[1]
        return False


def as_int_list(xs):
    """floats that must be integers -> ints (non-integers are kept so that a comparison fails loudly)"""
    return [int(v) if float(v) == int(v) else float(v) for v in xs]


def uf_state(uf):
    return {"parent": [int(v) for v in uf.parent.tolist()], "rank": [int(v) for v in uf.rank.tolist()],
            "offset": as_int_list(uf.offset.tolist())}


def err_name(e):
    return type(e).__name__


# ---------------------------------------------------------------------------------------
# evaluation of one end-to-end case

def field_tensor(case):
    import torch
    H, W = case["H"], case["W"]
    q = [Fr(v, DEN) for v in case["qn"]]
    mode = case["mode"]
    if mode in ("wrapped", "zero2pi", "window", "partial"):
        # stored value = truth moved by whole cycles into the window [c, c+2) (units of pi):
        # c = -1 is _wrap_to_pi's convention, c = 0 the [0, 2pi) convention, any other c a shifted window
        c = {"wrapped": Fr(-1), "zero2pi": Fr(0), "partial": Fr(-1)}.get(mode)
        if c is None:
            c = Fr(case["c"], DEN)
        n = [math.floor((x - c) / 2) for x in q]
        if mode == "partial":
            # partially unwrapped input: only every other cycle is still wrapped (neighbouring wrap counts stay <= 1 apart)
            n = [-((-k) // 2) for k in n]
        w = [x - 2 * k for x, k in zip(q, n)]
    else:
        w = q
        n = [0] * len(q)
    dt = DTYPES[case["dtype"]]()
    phi = torch.tensor([float(x) * math.pi for x in w], dtype=torch.float64).reshape(H, W).to(dt)
    phi = lay(phi, case.get("layout", "C"))
    mask = mask_tensor(case["mask"], H, W, case)
    return q, w, n, phi, mask


def check_property(ctx, case, key_prefix, q, w, n, out, lab, ncomp, smooth, global_const=False, only=None):
    frac_tol = 5e-3 if case.get("dtype") == "float16" else 1e-3   # a wrong multiple of 2*pi shows as a fraction up to 0.5
    # the code keeps 2*pi*incs in float32: absolute rounding grows with the size of the unwrapped values
    frac_tol += 1e-7 * max((abs(v) for v in out), default=0.0)
    """the property on the real output `out` (list of floats, radians):
       (a) out - input in 2*pi*Z + one constant          (every input)
       (b) smooth input: out - truth constant on every connected mask component
       (c) already-unwrapped smooth input: one constant everywhere"""
    N = len(out)
    idx = [i for i in range(N) if only is None or only[i]]
    if not idx:
        return
    two_pi = 2 * math.pi
    ref = idx[0]
    r0 = (out[ref] - float(w[ref]) * math.pi) / two_pi
    k = {}
    worst = 0.0
    for i in idx:
        r = (out[i] - float(w[i]) * math.pi) / two_pi - r0
        ki = round(r)
        worst = max(worst, abs(r - ki))
        k[i] = ki
    ctx.stat_max(f"{key_prefix}:max |frac((out-in)/2pi)|", worst)
    if worst > frac_tol:
        pred_fail(ctx, f"{key_prefix}-mod-2pi", "result minus input is not an integer multiple of 2*pi plus one constant",
                      case, observed={"worst_fractional_part": worst}, required="(out-in-c)/(2*pi) integral for all pixels")
        return
    if not smooth:
        return
    # (b) k_i - n_i constant on every component
    per = {}
    for i in idx:
        if lab[i] < 0:
            continue
        per.setdefault(lab[i], set()).add(k[i] - n[i])
    bad = {c: sorted(v) for c, v in per.items() if len(v) > 1}
    if bad:
        c = sorted(bad)[0]
        pred_fail(ctx, f"{key_prefix}-recover", "smooth (Itoh) field not recovered up to one constant on a connected mask region",
                      case, observed={"component": c, "distinct (offset - true wrap count)": bad[c][:6]},
                      required="out - truth constant on each connected component of the masked edge graph")
        return
    if global_const:
        vals = sorted({k[i] - n[i] for i in idx})
        if len(vals) > 1:
            pred_fail(ctx, f"{key_prefix}-idempotent", "already-unwrapped smooth input not returned up to a single constant",
                          case, observed={"distinct offsets": vals[:6]}, required="out - in constant")


def close(impl, model, tol):
    scale = max(1.0, max((abs(x) for x in model), default=0.0))
    d = max((abs(a - b) for a, b in zip(impl, model)), default=0.0)
    return d / scale, d <= tol * scale and len(impl) == len(model)


def eval_unwrap_case(ctx, drv, case, report_case=None):
    import torch
    iu = _iu()
    H, W, wrap = case["H"], case["W"], case["wrap"]
    N = H * W
    call_classes(case)
    q, w, n, phi, mask = field_tensor(case)
    maskl = case["mask"]
    pairs = used_pairs(H, W, maskl, wrap)
    lab, ncomp = components(N, pairs, maskl)
    smooth = case["mode"] != "raw"
    ctx.dist[f"call:form:{case['call']}"] += 1
    ctx.dist[f"call:phi-layout:{case['layout']}"] += 1
    if maskl is not None:
        ctx.dist[f"call:mask-layout:{case['mask_layout']}"] += 1
        ctx.dist[f"call:mask-dtype:{case['mask_dtype']}"] += 1
    # ---- the real code
    rec = Recorder(iu)
    try:
        with rec:
            if case["call"] == "positional":
                out_t = iu.unwrap_phase_2d_torch(phi, "reliability-sorting", mask, wrap)
            else:
                out_t = iu.unwrap_phase_2d_torch(phi, method="reliability-sorting", mask=mask, wrap_around=wrap)
        out = [float(v) for v in out_t.detach().cpu().double().flatten().tolist()]
        err = None
    except Exception as e:  # noqa
        out, err = None, err_name(e)
    ctx.count()
    wraps, nrange = wrap_variation(n, lab)
    ctx.dist[f"unwrap:mode:{case['mode']}"] += 1
    ctx.dist[f"unwrap:field:{case['kind']}"] += 1
    ctx.dist[f"unwrap:mask:{case['mkind']}"] += 1
    ctx.dist[f"unwrap:outside:{case['outside']}"] += 1
    ctx.dist[f"unwrap:wrap_around:{wrap}"] += 1
    ctx.dist[f"unwrap:dtype:{case['dtype']}"] += 1
    ctx.dist[f"unwrap:size:{'<=4' if N <= 4 else '<=64' if N <= 64 else '<=256' if N <= 256 else '<=576' if N <= 576 else '>576'}"] += 1
    ctx.dist[f"unwrap:components:{min(ncomp, 5)}{'+' if ncomp >= 5 else ''}"] += 1
    ctx.dist[f"unwrap:really-wraps:{wraps}"] += 1
    if wraps:
        ctx.mark(("unwrap", case["kind"], case["mkind"], wrap, case["dtype"], H, W, min(ncomp, 4), min(nrange, 6)))
    small_case = report_case or {k: case[k] for k in ("stream", "H", "W", "wrap", "mask", "mode", "dtype", "qn", "kind", "mkind", "outside", "c",
                                                      "layout", "mask_layout", "mask_dtype", "call") if k in case}
    if err is not None:
        pred_fail(ctx, "unwrap-raises", f"unwrap_phase_2d_torch raised {err}", small_case, observed=err, required="a result")
        return
    # ---- property predicate on the implementation (independent of the model)
    check_property(ctx, small_case, "unwrap", q, w, n, out, lab, ncomp, smooth,
                   global_const=(case["mode"] == "unwrapped"))
    # ---- correspondence
    wr = [rat(x) for x in w]
    base = {"H": H, "W": W, "phi": wr, "mask": maskl, "wrap": wrap}
    if not rec.edges or not rec.incs:
        disagree(ctx, "anchors", small_case, "calls _build_edges and _final_offsets", {"build_edges_calls": len(rec.edges), "final_offsets_calls": len(rec.incs)},
                     note="the end-to-end path no longer goes through the anchored helpers")
        return
    redges = rec.edges[0]
    reqs = [dict(base, op="edges"),
            {"op": "uf", "N": N, "edges": redges},
            # the model's assembled output is skipped above 6000 px (only the 1 x 74000 case), where the edge multiset
            # and the integer union-find state / final offsets on the real order are still compared exactly
            dict(base, op="unwrap", order=[[a, b] for a, b, _ in redges]) if N <= 6000 else {"op": "find_wrap", "a": "0/1", "b": "0/1"}]
    # one request at a time: pipelining large requests can dead-lock on the pipe buffers (qv.driver.ask_many)
    m_edges, m_uf, m_unw = [drv.ask(r) for r in reqs]
    for m in (m_edges, m_uf, m_unw):
        if "driver" in str(m.get("err", "")):
            raise RuntimeError(f"driver error {m}")
    # (i) edge multiset
    me = sorted(map(tuple, m_edges.get("ok", [])))
    ie = sorted(map(tuple, redges))
    if me != ie:
        disagree(ctx, "edge-set", small_case, [list(x) for x in me], [list(x) for x in ie], note="sorted (i1,i2,inc) multisets")
    # (ii) union–find on the real order
    impl_uf = dict(rec.ufs[0], incs=as_int_list(rec.incs[0]))
    if m_uf.get("ok") != impl_uf:
        disagree(ctx, "union-find", small_case, m_uf.get("ok", m_uf), impl_uf, note="parent/rank/offset/final offsets on the real edge order")
    # (iii) end to end
    if N > 6000:
        return
    mo = m_unw.get("ok")
    if mo is None:
        disagree(ctx, "end-to-end", small_case, m_unw, "a result")
        return
    if not mo["perm"]:
        disagree(ctx, "end-to-end", small_case, "order is a permutation of maskedPairs", "not a permutation",
                     note="the real sorted edge list is not a permutation of the model's masked neighbour pairs")
    if mo["incs"] != as_int_list(rec.incs[0]):
        disagree(ctx, "end-to-end", small_case, mo["incs"], as_int_list(rec.incs[0]), note="final offsets")
    model_out = [float(Fr(s)) * math.pi for s in mo["out"]]
    dist, ok = close(out, model_out, TOL[case["dtype"]])
    ctx.stat_max(f"end-to-end:max |impl-model|/scale ({case['dtype']})", dist)
    if not ok:
        disagree(ctx, "end-to-end", small_case, model_out, out, note=f"assembled output, distance/scale {dist:.3g} > {TOL[case['dtype']]}")
    if wraps:
        ctx.sample({"stream": "end-to-end", "H": H, "W": W, "wrap_around": wrap, "field": case["kind"], "mask": case["mkind"],
                    "mode": case["mode"], "dtype": case["dtype"], "components": ncomp, "wrap_count_range": nrange,
                    "edges": len(redges), "first_inputs_over_pi": [str(x) for x in w[:6]]}, limit=3)


# ---------------------------------------------------------------------------------------
# direct `_build_edges` calls with an arbitrary reliability (any order must give the same multiset)

def eval_edges_case(ctx, drv, case):
    import torch
    iu = _iu()
    H, W, wrap = case["H"], case["W"], case["wrap"]
    w = [Fr(v, DEN) for v in case["qn"]]
    dt = torch.float32 if case["dtype"] == "float32" else torch.float64
    call_classes(case, helpers=True)
    phi = lay(torch.tensor([float(x) * math.pi for x in w], dtype=torch.float64).reshape(H, W).to(dt), case["layout"])
    mask = mask_tensor(case["mask"], H, W, case)
    rel = lay(torch.tensor(case["rel"], dtype=dt).reshape(H, W), case["mask_layout"])
    ctx.dist[f"call:form:{case['call']}"] += 1
    ctx.dist[f"call:phi-layout:{case['layout']}"] += 1
    ctx.count()
    ctx.dist[f"edges:wrap_around:{wrap}"] += 1
    ctx.dist[f"edges:mask:{'none' if mask is None else 'given'}"] += 1
    ctx.dist[f"edges:shape:{'degenerate' if min(H, W) <= 2 else 'regular'}"] += 1
    try:
        if case["call"] == "positional":
            i1, i2, inc = iu._build_edges(phi, rel, mask, wrap)
        else:
            i1, i2, inc = iu._build_edges(phi=phi, reliability=rel, mask=mask, wrap_around=wrap)
        impl = sorted(zip(i1.tolist(), i2.tolist(), inc.tolist()))
        impl = [list(map(int, e)) for e in impl]
    except Exception as e:  # noqa
        impl = {"err": err_name(e)}
    m = drv.ask({"op": "edges", "H": H, "W": W, "phi": [rat(x) for x in w], "mask": case["mask"], "wrap": wrap})
    if "driver" in str(m.get("err", "")):
        raise RuntimeError(f"driver error {m}")
    model = sorted(m.get("ok", []))
    if model != impl:
        disagree(ctx, "edge-set", case, model, impl, note="direct _build_edges call, sorted (i1,i2,inc) multisets")
    if isinstance(impl, list):
        if len(impl) >= 6:
            ctx.mark(("edges", H, W, wrap, mask is not None))


def gen_half_case(rng):
    """half-precision input on a grid with more than 2048 pixels (pixel indices exceed what float16 represents
    exactly): the field is a plain smooth one, only the storage type and the size are unusual"""
    H, W = rng.randint(46, 60), rng.randint(46, 60)
    wrap = rng.chance(0.3)
    kind = "periodic" if wrap else rng.choice(["ramp", "quadratic", "gauss", "bandlimited"])
    pairs = used_pairs(H, W, None, wrap)
    f = gen_float_field(rng, H, W, kind)
    qn = quantise_itoh(rng, f, pairs, rng.uniform(0.3, 0.9))
    return {"stream": "unwrap", "H": H, "W": W, "wrap": wrap, "mask": None, "mode": "wrapped", "dtype": "float16",
            "qn": qn, "kind": kind, "mkind": "none", "outside": "smooth"}


def gen_long_case(rng, variant, huge=False):
    """long thin grid (1..3 rows x 300..900 columns, or transposed) with a steep monotone field whose wrap count
    runs past 127 / 255 (huge: past 32767): compact description, expanded deterministically by expand_long"""
    R = 1 if huge else rng.randint(1, 3)
    if huge:
        L = 74000
    elif variant == "tent":
        L = rng.randint(720, 900)
    else:
        L = rng.choice([rng.randint(310, 420), rng.randint(620, 900)])
    return {"stream": "long", "R": R, "L": L, "transposed": (not huge) and rng.chance(0.5), "variant": variant,
            "holes": (not huge) and R >= 2 and rng.chance(0.5), "dtype": rng.choice(["float32", "float64"]),
            "seed": rng.next()}


def expand_long(c):
    from qv.prng import Rng
    rng = Rng(c["seed"])
    R, L, variant = c["R"], c["L"], c["variant"]
    sign = 1 if rng.chance(0.5) else -1
    lo, hi = (int(0.90 * DEN), int(0.97 * DEN)) if L > 10000 else (int(0.80 * DEN), int(0.97 * DEN))
    half = L // 2
    nsteps = half if variant == "tent" else L - 1
    P = [0]
    for _ in range(nsteps):
        P.append(P[-1] + sign * rng.randint(lo, hi))
    cut = None
    if variant == "bounded":
        wrap = False
        base = P
    elif variant == "tent":       # periodic: up to the middle and back down, smooth across the seam
        wrap = True
        base = [P[min(x, L - x)] for x in range(L)]
    else:                         # "cut": periodic grid, a masked band cuts the ring; the ramp runs through the seam
        wrap = True
        k = rng.randint(1, 3)
        c0 = rng.randint(0, L - 1)
        cut = {(c0 + j) % L for j in range(k)}
        start = (c0 + k) % L
        base = [P[(x - start) % L] for x in range(L)]
    off = rng.randint(-2 * DEN, 2 * DEN)
    rowstep = rng.randint(-300, 300)
    maskrc = [[1] * L for _ in range(R)]
    use_mask = cut is not None or c["holes"]
    if cut:
        for r in range(R):
            for x in cut:
                maskrc[r][x] = 0
    if c["holes"]:
        x = rng.randint(2, 40)
        while x < L - 2:
            maskrc[rng.below(R)][x] = 0
            x += rng.randint(3, 60)
    if c["transposed"]:
        H, W = L, R
        qn = [base[x] + off + r * rowstep for x in range(L) for r in range(R)]
        mask = [maskrc[r][x] for x in range(L) for r in range(R)]
    else:
        H, W = R, L
        qn = [base[x] + off + r * rowstep for r in range(R) for x in range(L)]
        mask = [maskrc[r][x] for r in range(R) for x in range(L)]
    return {"stream": "unwrap", "H": H, "W": W, "wrap": wrap, "mask": mask if use_mask else None, "mode": "wrapped",
            "dtype": c["dtype"], "qn": qn, "kind": "long-" + variant, "mkind": ("cut" if cut else "") + ("holes" if c["holes"] else "") or "none",
            "outside": "smooth"}


def eval_long_case(ctx, drv, c):
    full = expand_long(c)
    n = [wrap_q(Fr(v, DEN))[1] for v in full["qn"]]
    span = max(n) - min(n)
    ctx.dist[f"long:wrap-count-span:{'>32767' if span > 32767 else '>255' if span > 255 else '>127' if span > 127 else '<=127'}"] += 1
    ctx.dist[f"long:variant:{c['variant']}{':transposed' if c['transposed'] else ''}"] += 1
    eval_unwrap_case(ctx, drv, full, report_case=c)


def gen_medium_case(rng):
    """medium grids (40..64 per side): ordinary fields, masks and dtypes"""
    H, W = rng.randint(40, 64), rng.randint(40, 64)
    N = H * W
    wrap = rng.chance(0.4)
    mkind = rng.weighted([("none", 3), ("annulus", 2), ("multi", 2), ("blobs", 2), ("border", 1)])
    mask = gen_mask(rng, H, W, mkind)
    pairs = used_pairs(H, W, mask, wrap)
    kind = "periodic" if (wrap and rng.chance(0.7)) else rng.weighted(FIELD_KINDS)
    qn = quantise_itoh(rng, gen_float_field(rng, H, W, kind), pairs, gen_target(rng))
    off = rng.randint(-2 * DEN, 2 * DEN)
    qn = [v + off for v in qn]
    return {"stream": "unwrap", "H": H, "W": W, "wrap": wrap, "mask": mask, "mode": rng.choice(["wrapped", "wrapped", "zero2pi"]),
            "dtype": rng.choice(["float32", "float64"]), "qn": qn, "kind": kind, "mkind": mkind, "outside": "smooth"}


def gen_border_case(rng):
    """wrap_around=False on a NON-periodic smooth field whose wrapped version is continuous across the border: a ramp
    climbing whole turns across the width (and/or height) plus a bump that is flat near the edges.  Periodic seam
    pairs would look perfectly reliable here but join pixels that are whole turns apart."""
    import numpy as np
    H, W = rng.randint(6, 22), rng.randint(6, 22)
    tx = rng.randint(1, max(1, min(3, (W - 1) // 3)))
    ty = rng.choice([0, 0, 1, min(2, max(1, (H - 1) // 3))])
    if rng.chance(0.3):
        tx, ty = ty, tx
        if tx == 0 and ty == 0:
            tx = 1
    yy, xx = np.mgrid[:H, :W].astype(float)
    sx = 1 if rng.chance(0.5) else -1
    sy = 1 if rng.chance(0.5) else -1
    ramp = sx * 2.0 * tx * xx / W + sy * 2.0 * ty * yy / H          # units of pi: 2 per turn
    env = np.sin(math.pi * (xx + 0.5) / W) ** 2 * np.sin(math.pi * (yy + 0.5) / H) ** 2
    bump = env * gen_float_field(rng, H, W, rng.choice(["gauss", "bandlimited", "quadratic"]))
    bump = bump / max(1e-9, float(np.abs(bump).max()))
    mkind = rng.weighted([("none", 4), ("border", 2), ("annulus", 1), ("blobs", 1)])
    mask = gen_mask(rng, H, W, mkind)
    pairs = used_pairs(H, W, mask, False)
    amp = rng.uniform(0.5, 4.0)
    lim = (1 - MARGIN) * DEN
    qn = None
    for _ in range(40):
        f = ramp + amp * bump
        cand = [int(round(v * DEN)) for v in f.flatten()]
        if all(abs(cand[a] - cand[b]) <= lim for a, b in pairs):
            qn = cand
            break
        amp *= 0.8
    if qn is None:
        qn = [int(round(v * DEN)) for v in ramp.flatten()]
        if not all(abs(qn[a] - qn[b]) <= lim for a, b in pairs):
            qn = [0] * (H * W)
    off = rng.randint(-2 * DEN, 2 * DEN)
    qn = [v + off for v in qn]
    return {"stream": "unwrap", "H": H, "W": W, "wrap": False, "mask": mask, "mode": rng.choice(["wrapped", "wrapped", "zero2pi"]),
            "dtype": rng.choice(["float32", "float64"]), "qn": qn, "kind": "border-continuous", "mkind": mkind, "outside": "smooth"}


def gen_seam_case(rng):
    """periodic grid whose mask component is held together ONLY by the seam of exactly one axis: a band that spans
    the periodic axis completely, cut once across; the ramp runs through the seam.  Non-square sizes, the other
    axis of length 1, 2 or more (H or W in {1, 2}: self-loops / double edges)."""
    L = rng.randint(3, 22)                       # length of the axis whose seam is used
    R = rng.weighted([(1, 2), (2, 3), (rng.randint(3, 12), 5)])
    if R == L:
        R += 1
    transposed = rng.chance(0.5)                 # False: seam of axis 1 (columns wrap), True: seam of axis 0
    if R <= 2:
        r0, r1 = 0, R - 1
    else:                                        # the band must not span the other axis (its seam is not to be used)
        r0 = rng.randint(0, R - 2)
        r1 = rng.randint(r0, R - 2) if r0 > 0 or rng.chance(0.5) else rng.randint(r0, R - 2)
        if rng.chance(0.5):                      # or push it against the far border instead
            sh = R - 1 - r1
            r0, r1 = r0 + sh, r1 + sh
            if r0 == 0:
                r0 = 1 if r1 >= 1 else 0
    k = 1 if L <= 4 else rng.randint(1, 2)
    c0 = rng.randint(0, L - 1)
    cut = {(c0 + j) % L for j in range(k)}
    start = (c0 + k) % L
    sign = 1 if rng.chance(0.5) else -1
    P = [0]
    for _ in range(L - 1):
        P.append(P[-1] + sign * rng.randint(int(0.45 * DEN), int(0.96 * DEN)))
    off = rng.randint(-2 * DEN, 2 * DEN)
    rowstep = rng.randint(-400, 400)
    val = lambda r, x: P[(x - start) % L] + off + r * rowstep  # noqa
    inm = lambda r, x: int(r0 <= r <= r1 and x not in cut)  # noqa
    garbage = rng.chance(0.5)
    if transposed:
        H, W = L, R
        cells = [(r, x) for x in range(L) for r in range(R)]
    else:
        H, W = R, L
        cells = [(r, x) for r in range(R) for x in range(L)]
    mask = [inm(r, x) for r, x in cells]
    qn = [val(r, x) if inm(r, x) or not garbage else rng.randint(-3 * DEN, 3 * DEN) for r, x in cells]
    return {"stream": "unwrap", "H": H, "W": W, "wrap": True, "mask": mask, "mode": rng.choice(["wrapped", "zero2pi"]),
            "dtype": rng.choice(["float32", "float64"]), "qn": qn, "kind": "seam-axis0" if transposed else "seam-axis1",
            "mkind": "band-cut", "outside": "garbage" if garbage else "smooth"}


# ---------------------------------------------------------------------------------------
# `_pixel_reliability` and the edge ORDER (exact: phases are multiples of pi/16, no wrapped difference on the
# +-pi boundary, so distinct reliabilities differ by >= pi^2/256 and no float comparison is decided by rounding)

ODEN = 16


def nb8(H, W, i):
    r, c = divmod(i, W)
    return [((r + dr) % H) * W + (c + dc) % W for dr in (-1, 0, 1) for dc in (-1, 0, 1) if (dr, dc) != (0, 0)]


def gen_order_case(rng):
    if rng.chance(0.25):
        H, W = rng.choice([(1, 1), (1, 2), (2, 1), (1, 6), (6, 1), (2, 2), (2, 5), (5, 2), (3, 1), (1, 3)])
    else:
        H, W = rng.randint(2, 10), rng.randint(2, 10)
    N = H * W
    wide = rng.chance(0.35)        # values far outside [-pi, pi): the reliability must be taken from the raw input
    lo, hi = (-4 * ODEN, 4 * ODEN) if wide else (-ODEN, ODEN - 1)
    qn = [rng.randint(lo, hi) for _ in range(N)]
    for _ in range(200):
        bad = [i for i in range(N) if any((qn[i] - qn[j]) % (2 * ODEN) == ODEN for j in nb8(H, W, i))]
        if not bad:
            break
        for i in bad:
            qn[i] = rng.randint(lo, hi)
    else:
        qn = [0] * N
    mkind = rng.weighted([("none", 4), ("rect", 1), ("annulus", 1), ("blobs", 2), ("sparse", 2), ("border", 1)]) if min(H, W) >= 3 else "none"
    return {"stream": "order", "H": H, "W": W, "wrap": rng.chance(0.5), "mask": gen_mask(rng, H, W, mkind), "mkind": mkind,
            "qn": qn, "wide": wide, "dtype": rng.choice(["float32", "float64"])}


def eval_order_case(ctx, drv, case):
    import torch
    iu = _iu()
    H, W, wrap = case["H"], case["W"], case["wrap"]
    N = H * W
    w = [Fr(v, ODEN) for v in case["qn"]]
    dt = DTYPES[case["dtype"]]()
    call_classes(case, helpers=True)
    phi = lay(torch.tensor([float(x) * math.pi for x in w], dtype=torch.float64).reshape(H, W).to(dt), case["layout"])
    mask = mask_tensor(case["mask"], H, W, case)
    ctx.dist[f"call:form:{case['call']}"] += 1
    ctx.dist[f"call:phi-layout:{case['layout']}"] += 1
    ctx.count()
    ctx.dist[f"order:dtype:{case['dtype']}"] += 1
    ctx.dist[f"order:wide-values:{case['wide']}"] += 1
    ctx.dist[f"order:mask:{case['mkind']}"] += 1
    ctx.dist[f"order:wrap_around:{wrap}"] += 1
    rec = Recorder(iu)
    try:
        if case["call"] == "positional":
            R_impl = iu._pixel_reliability(phi, mask)
        else:
            R_impl = iu._pixel_reliability(phi=phi, mask=mask)
        R_impl = [float(v) for v in R_impl.double().flatten().tolist()]
        with rec:
            # the anchored worker itself, in the other call form than the dispatcher gets in the end-to-end stream
            if case["call"] == "positional":
                iu._unwrap_phase_2d_torch_reliability_sorting(phi, mask, wrap)
            else:
                iu._unwrap_phase_2d_torch_reliability_sorting(phi=phi, mask=mask, wrap_around=wrap)
    except Exception as e:  # noqa
        disagree(ctx, "reliability", case, "a result", err_name(e))
        return
    if not rec.edges:
        disagree(ctx, "anchors", case, "calls _build_edges", "not called")
        return
    order = [[a, b] for a, b, _ in rec.edges[0]]
    m = drv.ask({"op": "reliability", "H": H, "W": W, "phi": [rat(x) for x in w], "mask": case["mask"], "wrap": wrap,
                 "order": order})
    if "driver" in str(m.get("err", "")):
        raise RuntimeError(f"driver error {m}")
    mo = m["ok"]
    # reliabilities (float stream; inf exactly where the model says so)
    tol = 1e-9 if case["dtype"] == "float64" else 5e-4
    model_R = [None if s is None else float(Fr(s)) * math.pi ** 2 for s in mo["R"]]
    scale = max([1.0] + [abs(v) for v in model_R if v is not None])
    worst = 0.0
    for i in range(N):
        if model_R[i] is None:
            if R_impl[i] != float("inf"):
                disagree(ctx, "reliability", case, "inf", R_impl[i], note=f"pixel {i} outside the mask")
                break
        else:
            worst = max(worst, abs(R_impl[i] - model_R[i]) / scale)
    ctx.stat_max(f"reliability:max |impl-model|/scale ({case['dtype']})", worst)
    if worst > tol:
        disagree(ctx, "reliability", case, model_R[:8], R_impl[:8], note=f"_pixel_reliability, distance/scale {worst:.3g} > {tol}")
    # the ORDER the real sort produced: a permutation of the masked pairs, ascending in the model's exact edge reliability
    if not mo["perm"]:
        disagree(ctx, "edge-order", case, "a permutation of the masked neighbour pairs", "not a permutation")
    elif not mo["ascending"]:
        rel = [None if s is None else Fr(s) for s in mo["rel"]]
        k = next((i for i in range(len(rel) - 1) if rel[i] is None or (rel[i + 1] is not None and rel[i] > rel[i + 1])), 0)
        disagree(ctx, "edge-order", case, "edges merged in ascending order of the model's edge reliability (ties free)",
                 {"position": k, "pair": order[k:k + 2], "model_rel": [str(x) for x in rel[k:k + 2]]},
                 note="the order used by the real run is not ascending in the exact reliabilities")
    distinct = len({s for s in mo["rel"]})
    ctx.dist[f"order:distinct-edge-reliabilities:{'1' if distinct <= 1 else '2-5' if distinct <= 5 else '6-20' if distinct <= 20 else '>20'}"] += 1
    if distinct >= 4:
        ctx.mark(("order", H, W, wrap, case["mkind"], case["wide"], case["dtype"], min(distinct, 30)))
        ctx.sample({"stream": "edge-order", "H": H, "W": W, "wrap_around": wrap, "mask": case["mkind"], "edges": len(order),
                    "distinct_edge_reliabilities": distinct, "first_pairs": order[:4], "first_model_rel_over_pi2": mo["rel"][:4]}, limit=7)


def gen_edges_case(rng):
    H, W = gen_shape(rng, small=True)
    N = H * W
    wrap = rng.chance(0.5)
    mkind = rng.weighted(MASK_KINDS)
    mask = gen_mask(rng, H, W, mkind)
    pairs = used_pairs(H, W, None, wrap)       # margins on all pairs (mask applied by the code)
    qn = gen_raw(rng, N, pairs)
    rel = [rng.randint(0, 50) / 4.0 for _ in range(N)]
    return {"stream": "edges", "H": H, "W": W, "wrap": wrap, "mask": mask, "qn": qn, "rel": rel,
            "dtype": rng.choice(["float32", "float64"])}


# ---------------------------------------------------------------------------------------
# union–find on arbitrary multigraphs

def gen_uf_case(rng):
    if rng.chance(0.5):
        # a run the unwrapper itself could perform: neighbour pairs of a (masked, maybe periodic) grid in an
        # arbitrary order, increments = differences of a wrap-count field with neighbour steps in {-1,0,1}
        H, W = rng.randint(1, 8), rng.randint(1, 8)
        N = H * W
        wrap = rng.chance(0.5)
        mask = gen_mask(rng, H, W, rng.weighted(MASK_KINDS)) if min(H, W) >= 3 else None
        pairs = used_pairs(H, W, mask, wrap)
        f = gen_float_field(rng, H, W, rng.choice(["ramp", "quadratic", "gauss", "bandlimited"]))
        qn = quantise_itoh(rng, f, pairs, rng.uniform(0.5, 0.97))
        off = rng.randint(-DEN, DEN)
        nfield = [wrap_q(Fr(v + off, DEN))[1] for v in qn]
        order = rng.shuffle(pairs)
        edges = [[a, b, nfield[a] - nfield[b]] for a, b in order]
        return {"stream": "uf", "N": N, "edges": edges, "consistent": True, "n": nfield, "grid": [H, W, wrap]}
    N = rng.weighted([(1, 1), (2, 1), (3, 1), (rng.randint(4, 12), 5), (rng.randint(13, 60), 4)])
    E = rng.randint(0, 3 * N)
    consistent = rng.chance(0.5)
    nfield = [rng.randint(-3, 3) for _ in range(N)]
    edges = []
    for _ in range(E):
        a = rng.below(N)
        b = a if rng.chance(0.08) else rng.below(N)
        if edges and rng.chance(0.1):
            pa, pb, pi = edges[rng.below(len(edges))]
            a, b = (pa, pb) if rng.chance(0.5) else (pb, pa)     # duplicate, maybe reversed
        inc = nfield[a] - nfield[b] if consistent else rng.randint(-1, 1)
        edges.append([a, b, inc])
    return {"stream": "uf", "N": N, "edges": edges, "consistent": consistent, "n": nfield if consistent else None, "grid": None}


def eval_uf_case(ctx, drv, case):
    iu = _iu()
    N, edges = case["N"], case["edges"]
    ctx.count()
    ctx.dist[f"uf:consistent:{case['consistent']}"] += 1
    ctx.dist[f"uf:graph:{'grid' if case.get('grid') else 'random-multigraph'}"] += 1
    ctx.dist[f"uf:N:{'<=3' if N <= 3 else '<=12' if N <= 12 else '<=60'}"] += 1
    try:
        uf = iu.UnionFindPhase(N)
        merges = 0
        for a, b, inc in edges:
            before = uf.parent.clone()
            uf.union(a, b, inc)
            merges += int((before != uf.parent).any())
        incs = iu._final_offsets(uf)
        impl = dict(uf_state(uf), incs=as_int_list(incs.tolist()))
    except Exception as e:  # noqa
        impl = {"err": err_name(e)}
        merges = 0
    m = drv.ask({"op": "uf", "N": N, "edges": edges})
    if "driver" in str(m.get("err", "")):
        raise RuntimeError(f"driver error {m}")
    model = m.get("ok", m)
    if model != impl:
        disagree(ctx, "union-find", case, model, impl, note="random multigraph")
    if merges >= 3:
        ctx.mark(("uf", N, len(edges), case["consistent"], merges, bool(case.get("grid"))))
    # predicate (only for runs the unwrapper itself could perform — grid neighbour pairs, wrap-count steps in
    # {-1,0,1}, any order): the final offset minus the wrap count is constant on every component
    if case.get("grid") and "err" not in impl:
        lab, _ = components(N, [(a, b) for a, b, _ in edges], None)
        per = {}
        for i in range(N):
            v = impl["incs"][i]
            per.setdefault(lab[i], set()).add(v - case["n"][i])
        bad = {c: sorted(v) for c, v in per.items() if len(v) > 1}
        if bad:
            c = sorted(bad)[0]
            pred_fail(ctx, "uf-offsets", "union-find offsets inconsistent with the increment field on a component",
                          case, observed=bad[c][:6], required="offset(i) - n(i) constant on each connected component")
    if merges >= 3:
        ctx.sample({"stream": "union-find", "N": N, "edges": edges[:8], "merges": merges, "consistent": case["consistent"]}, limit=6)


# ---------------------------------------------------------------------------------------
# bf-overlap embedding

def gen_bf_case(rng, fixed=None):
    import numpy as np
    H, W = (fixed["H"], fixed["W"]) if fixed else (rng.randint(4, 16), rng.randint(4, 16))
    N = H * W
    yy, xx = np.mgrid[:H, :W].astype(float)
    # bf disk (sometimes touching the border), overlap mask = disk ∩ shifted disk (or variants)
    cy, cx = rng.uniform(H * 0.35, H * 0.65), rng.uniform(W * 0.35, W * 0.65)
    rad = rng.uniform(0.3, 0.6) * min(H, W)
    bf = np.hypot(yy - cy, xx - cx) <= rad
    if not bf.any():
        bf[H // 2, W // 2] = True
    if fixed:
        bf = np.array(fixed["bf_mask"], dtype=bool).reshape(H, W)
        ys, xs = np.nonzero(bf)
        cy, cx = float(ys.mean()), float(xs.mean())
        rad = max(1.0, math.sqrt(bf.sum() / math.pi))
    mk = rng.weighted([("lens", 4), ("all", 2), ("two", 2), ("none", 1), ("sparse", 1)])
    if mk == "lens":
        sy, sx = rng.uniform(-rad, rad), rng.uniform(-rad, rad)
        ov = bf & (np.hypot(yy - cy - sy, xx - cx - sx) <= rad)
    elif mk == "all":
        ov = bf.copy()
    elif mk == "two":
        ov = bf & ((np.hypot(yy - cy - rad, xx - cx) <= rad * 0.8) | (np.hypot(yy - cy + rad, xx - cx) <= rad * 0.8))
    elif mk == "none":
        ov = np.zeros_like(bf)
    else:
        ov = bf & np.array([[rng.chance(0.6) for _ in range(W)] for _ in range(H)], dtype=bool)
    mgrid = [int(v) for v in ov.flatten()]
    wrap = rng.weighted([(None, 3), (True, 1), (False, 2)])     # None: the function's default (True)
    if fixed:
        wrap = fixed["wrap"]      # one call signature for all images of a stack: Itoh on the pairs THAT setting uses
    pairs = used_pairs(H, W, mgrid, wrap is not False)
    mode = rng.weighted([("smooth", 8), ("raw", 2)])
    if mode == "smooth":
        kind = rng.weighted(FIELD_KINDS)
        f = gen_float_field(rng, H, W, kind)
        qn = quantise_itoh(rng, f, pairs, gen_target(rng))
        off = rng.randint(-2 * DEN, 2 * DEN)
        qn = [v + off for v in qn]
    else:
        kind = "raw"
        qn = gen_raw(rng, N, pairs)
    return {"stream": "bf", "H": H, "W": W, "bf_mask": [int(v) for v in bf.flatten()], "mask_grid": mgrid,
            "qn": qn, "mode": mode, "kind": kind, "mkind": mk, "two_pass": fixed["two_pass"] if fixed else rng.chance(0.6), "wrap": wrap,
            "cdtype": "complex64"}   # the function scatters into a float32 grid: complex128 input raises (dtype mismatch)


def gen_bf_stack_case(rng):
    """several images through ONE bf_mask, as the caller's loop does (out[:, j] = f(data[:, j], mask[:, j], bf_mask))"""
    first = gen_bf_case(rng)
    imgs = [first]
    for _ in range(rng.randint(0, 4)):
        # same geometry, call signature and bf_mask; only the overlap mask and the field change
        imgs.append(gen_bf_case(rng, fixed=first))
    return {"stream": "bf_stack", "images": imgs}


def eval_bf_stack_case(ctx, drv, case):
    import torch
    imgs = case["images"]
    first = imgs[0]
    H, W, bf = first["H"], first["W"], first["bf_mask"]
    N = H * W
    pos = [i for i in range(N) if bf[i]]
    preps = [(c, prep_bf(None, c)) for c in imgs]
    preps = [(c, p) for c, p in preps if p is not None]
    ctx.dist[f"bf_stack:images:{len(preps)}"] += 1
    if not preps:
        return
    # the caller's 2-D tensors: column j is image j (columns are NON-contiguous views, as in the caller)
    ang = torch.tensor([[float(p["w"][i]) * math.pi for _, p in preps] for i in pos], dtype=torch.float64)
    data = torch.polar(torch.ones_like(ang), ang).to(torch.complex64)
    masks = torch.tensor([[bool(c["mask_grid"][i]) for c, _ in preps] for i in pos], dtype=torch.bool)
    got = []
    for j, (c, _) in enumerate(preps):
        eval_bf_case(ctx, drv, c, tensors=(data[:, j], masks[:, j]), collect=got)
    if len(got) != len(preps):
        return      # an image failed; already reported by eval_bf_case
    m = drv.ask({"op": "bf_stack", "H": H, "W": W, "bf_mask": bf, "two_pass": first["two_pass"],
                 "images": [{k: g[k] for k in ("mask_bf", "phase", "order1", "order2")} for g in got]})
    if "driver" in str(m.get("err", "")):
        raise RuntimeError(f"driver error {m}")
    ctx.count()
    res = m.get("ok")
    if not isinstance(res, list) or len(res) != len(got):
        disagree(ctx, "bf-stack", case, f"{len(got)} results", res if not isinstance(res, list) else len(res))
        return
    for j, (g, r) in enumerate(zip(got, res)):
        if r is None:
            disagree(ctx, "bf-stack", case, "a result", "NonTermination", note=f"image {j}")
            continue
        model_out = [float(Fr(x)) * math.pi for x in r["out"]]
        dist, ok = close(g["out"], model_out, TOL32)
        if not ok or r["out"] != g["model_out"]:
            disagree(ctx, "bf-stack", case, model_out, g["out"], note=f"image {j} of {len(got)}: column of the stacked result")
    if len(got) >= 2:
        ctx.mark(("bf_stack", H, W, len(got), first["two_pass"], first["wrap"]))


def prep_bf(ctx, case):
    """exact wrapped phases / wrap counts for a bf case, or None when the case sits on a float threshold"""
    H, W = case["H"], case["W"]
    N = H * W
    bf = case["bf_mask"]
    pos = [i for i in range(N) if bf[i]]
    q = [Fr(v, DEN) for v in case["qn"]]
    # wrapped phases at the bf pixels; shift the field by a constant so that no wrapped value sits within
    # 2^-7 of +-1 (torch.angle returns (-pi, pi]: +-pi is ambiguous in floating point)
    shift = Fr(0)
    for t in range(64):
        ws = [wrap_q(q[i] + shift)[0] for i in pos]
        if all(abs(x) <= 1 - Fr(1, 128) for x in ws):
            break
        shift += Fr(5, 256)
    else:
        if ctx is not None:
            ctx.dist["bf:rejected:near-pi"] += 1
        return None
    q = [x + shift for x in q]
    wn = [wrap_q(x) for x in q]
    w = [a for a, _ in wn]
    n = [b for _, b in wn] if case["mode"] == "smooth" else [0] * N
    # the `max - min > pi` test must not sit on the threshold
    grid_vals = [w[i] if bf[i] else Fr(0) for i in range(N)]
    span = max(grid_vals) - min(grid_vals)
    if abs(span - 1) < MARGIN:
        if ctx is not None:
            ctx.dist["bf:rejected:span-near-pi"] += 1
        return None
    return {"pos": pos, "q": q, "w": w, "n": n}


def eval_bf_case(ctx, drv, case, tensors=None, collect=None):
    import torch
    from quantem.diffractive_imaging import direct_ptycho_utils as dpu
    iu = _iu()
    H, W = case["H"], case["W"]
    N = H * W
    bf = case["bf_mask"]
    mgrid = case["mask_grid"]
    prep = prep_bf(ctx if tensors is None else None, case)
    if prep is None:
        return
    pos, q, w, n = prep["pos"], prep["q"], prep["w"], prep["n"]
    cdt = torch.complex64 if case["cdtype"] == "complex64" else torch.complex128
    ang = torch.tensor([float(w[i]) * math.pi for i in pos], dtype=torch.float64)
    data = torch.polar(torch.ones_like(ang), ang).to(cdt)
    call_classes(case, helpers=True)
    bf_t = lay(torch.tensor(bf, dtype=torch.bool).reshape(H, W), case["mask_layout"], fill=1)
    mask_bf = torch.tensor([bool(mgrid[i]) for i in pos], dtype=torch.bool)
    if tensors is not None:
        data, mask_bf = tensors
    elif case["layout"] != "C":        # step-sliced 1-D views of the per-pixel inputs
        big = torch.zeros(2 * len(pos), dtype=data.dtype)
        big[::2] = data
        data = big[::2]
        bigm = torch.ones(2 * len(pos), dtype=torch.bool)
        bigm[::2] = mask_bf
        mask_bf = bigm[::2]
    ctx.dist[f"call:form:bf:{case['call']}"] += 1
    ctx.dist[f"call:bf_mask-layout:{case['mask_layout']}"] += 1
    kwargs = {} if case["wrap"] is None else {"wrap_around": case["wrap"]}
    wrap_eff = case["wrap"] is not False
    rec = Recorder(iu)
    try:
        with rec:
            if case["call"] == "positional":
                out_t = dpu.unwrap_bf_overlap_phase_torch(data, mask_bf, bf_t, method="reliability-sorting",
                                                          two_pass=case["two_pass"], **kwargs)
            else:   # as the caller in direct_ptychography.py writes it
                out_t = dpu.unwrap_bf_overlap_phase_torch(complex_data_bf=data, mask_bf=mask_bf, bf_mask=bf_t,
                                                          method="reliability-sorting", two_pass=case["two_pass"], **kwargs)
        out = [float(v) for v in out_t.detach().cpu().double().tolist()]
        err = None
    except Exception as e:  # noqa
        out, err = None, err_name(e)
    ctx.count()
    pairs = used_pairs(H, W, mgrid, wrap_eff)
    lab, ncomp = components(N, pairs, mgrid)
    wraps, _ = wrap_variation(n, lab)
    ctx.dist[f"bf:mask:{case['mkind']}"] += 1
    ctx.dist[f"bf:mode:{case['mode']}"] += 1
    ctx.dist[f"bf:two_pass:{case['two_pass']}"] += 1
    ctx.dist[f"bf:wrap_around:{case['wrap']}"] += 1
    ctx.dist[f"bf:passes-run:{len(rec.edges)}"] += 1
    small_case = dict(case)
    if err is not None:
        pred_fail(ctx, "bf-raises", f"unwrap_bf_overlap_phase_torch raised {err}", small_case, observed=err, required="a result")
        return
    if wraps and rec.edges:
        ctx.mark(("bf", case["kind"], case["mkind"], case["two_pass"], case["wrap"], H, W, min(ncomp, 4)))
    # ---- predicate: on the overlap-mask pixels the result is the truth up to a constant per component
    only = [bool(mgrid[i]) for i in pos]      # the claim is about the overlap-mask pixels
    sub = lambda xs: [xs[i] for i in pos]  # noqa
    check_property(ctx, small_case, "bf", sub(q), sub(w), sub(n), out, sub(lab), ncomp, case["mode"] == "smooth", only=only)
    # ---- correspondence
    o1 = [[a, b] for a, b, _ in rec.edges[0]] if len(rec.edges) >= 1 else []
    o2 = [[a, b] for a, b, _ in rec.edges[1]] if len(rec.edges) >= 2 else []
    m = drv.ask({"op": "bf", "H": H, "W": W, "bf_mask": bf, "mask_bf": [int(mgrid[i]) for i in pos],
                 "phase": [rat(w[i]) for i in pos], "two_pass": case["two_pass"], "order1": o1, "order2": o2,
                 "wrap": wrap_eff})
    if "driver" in str(m.get("err", "")):
        raise RuntimeError(f"driver error {m}")
    mo = m.get("ok")
    if mo is None:
        disagree(ctx, "bf-overlap", small_case, m, "a result")
        return
    branch_impl = {0: None, 1: "onePass", 2: "twoPass"}[min(len(rec.edges), 2)]
    if branch_impl is None:
        if mo["branch"] not in ("noMask", "smallRange"):
            disagree(ctx, "bf-overlap", small_case, mo["branch"], "no unwrapping pass ran", note="branch")
    elif mo["branch"] != branch_impl:
        disagree(ctx, "bf-overlap", small_case, mo["branch"], branch_impl, note="branch")
    ctx.dist[f"bf:branch:{mo['branch']}"] += 1
    if not mo.get("perm1", True) or not mo.get("perm2", True):
        disagree(ctx, "bf-overlap", small_case, "orders are permutations of maskedPairs", [mo.get("perm1"), mo.get("perm2")])
    model_out = [float(Fr(s)) * math.pi for s in mo["out"]]
    dist, ok = close(out, model_out, TOL32)
    ctx.stat_max("bf-overlap:max |impl-model|/scale", dist)
    if not ok:
        disagree(ctx, "bf-overlap", small_case, model_out, out, note=f"gathered output, distance/scale {dist:.3g} > {TOL32}")
    if collect is not None:
        collect.append({"mask_bf": [int(mgrid[i]) for i in pos], "phase": [rat(w[i]) for i in pos], "order1": o1, "order2": o2,
                        "out": out, "model_out": mo["out"]})
    if wraps and rec.edges:
        ctx.sample({"stream": "bf-overlap", "H": H, "W": W, "bf_pixels": len(pos), "overlap_pixels": sum(mgrid),
                    "two_pass": case["two_pass"], "wrap_around": case["wrap"], "branch": mo["branch"], "components": ncomp}, limit=5)


# ---------------------------------------------------------------------------------------

EVAL = {"unwrap": eval_unwrap_case, "edges": eval_edges_case, "uf": eval_uf_case, "bf": eval_bf_case,
        "order": eval_order_case, "bf_stack": eval_bf_stack_case,
        "long": eval_long_case}


def run(ctx):
    from qv.driver import Driver
    import torch
    torch.set_num_threads(2)
    drv = Driver("C17")
    try:
        # method dispatch of unwrap_phase_2d_torch (the Poisson method is outside the claim; only the dispatch is looked at)
        iu = _iu()
        try:
            iu.unwrap_phase_2d_torch(torch.zeros(2, 2), method="no-such-method")
            disagree(ctx, "dispatch", {"method": "no-such-method"}, "ValueError", "no error")
        except ValueError:
            pass
        except Exception as e:  # noqa
            disagree(ctx, "dispatch", {"method": "no-such-method"}, "ValueError", err_name(e))
        check_signatures(ctx)
        n_unw = ctx.n(600, 12000)
        n_edges = ctx.n(200, 4000)
        n_uf = ctx.n(400, 8000)
        n_bf = ctx.n(250, 5000)
        for s in range(n_unw):
            eval_unwrap_case(ctx, drv, gen_unwrap_case(ctx.rng.fork(3_000_000 + s), small=(s % 3 != 0)))
        for s in range(ctx.n(3, 30)):
            eval_unwrap_case(ctx, drv, gen_half_case(ctx.rng.fork(5_000_000 + s)))
        # long thin grids: wrap counts beyond 127 / 255 (offsets must not be stored in a narrow integer type)
        variants = ["bounded", "cut", "tent", "bounded"]
        for s in range(ctx.n(6, 60)):
            eval_long_case(ctx, drv, gen_long_case(ctx.rng.fork(6_000_000 + s), variants[s % 4]))
        if ctx.thorough() and not ctx.search_mode:
            eval_long_case(ctx, drv, gen_long_case(ctx.rng.fork(6_900_000), "bounded", huge=True))
        # the seam of exactly one axis; medium grids; the edge order; several images through one bf_mask
        for s in range(ctx.n(80, 1500)):
            eval_unwrap_case(ctx, drv, gen_seam_case(ctx.rng.fork(7_000_000 + s)))
        for s in range(ctx.n(4, 40)):
            eval_unwrap_case(ctx, drv, gen_medium_case(ctx.rng.fork(8_000_000 + s)))
        for s in range(ctx.n(80, 1500)):
            eval_unwrap_case(ctx, drv, gen_border_case(ctx.rng.fork(11_000_000 + s)))
        for s in range(ctx.n(150, 3000)):
            eval_order_case(ctx, drv, gen_order_case(ctx.rng.fork(9_000_000 + s)))
        for s in range(ctx.n(40, 600)):
            eval_bf_stack_case(ctx, drv, gen_bf_stack_case(ctx.rng.fork(10_000_000 + s)))
        for s in range(n_bf):
            eval_bf_case(ctx, drv, gen_bf_case(ctx.rng.fork(4_000_000 + s)))
        for s in range(n_uf):
            eval_uf_case(ctx, drv, gen_uf_case(ctx.rng.fork(1_000_000 + s)))
        for s in range(n_edges):
            eval_edges_case(ctx, drv, gen_edges_case(ctx.rng.fork(2_000_000 + s)))
    finally:
        drv.close()


def replay(ctx, rep):
    from qv.driver import Driver
    case = rep.get("case")
    if case is None:
        ds = rep.get("correspondence_disagreements") or [{}]
        case = ds[0].get("case")
    if not case or "stream" not in case:
        print("replay: no case in file (nothing to re-run)")
        return True
    drv = Driver("C17")
    try:
        EVAL[case["stream"]](ctx, drv, case)
    finally:
        drv.close()
    return True
